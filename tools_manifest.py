"""Regenerates MANIFEST.json from the table below (kept as code so that it is always schema-valid)."""
import json, os, sys
HERE = os.path.dirname(os.path.abspath(__file__))
TECH = "bounded symbolic execution of the JAX IR (jaxpr) of the real lerax code over z3 terms; SMT (z3 5.1, nlsat after Ackermannisation for nonlinear queries) decides each obligation; counterexamples replayed on the real code"
CHECKS = {
 "C03": dict(
    text="For every rollout length T in the bound (quick 1-8, thorough 1-16) the real compute_returns_and_advantages, traced to its jaxpr and executed over z3 reals with rewards, values, done flags, bootstrap value, gamma and lambda all symbolic, is shown (unsat) to satisfy the GAE recurrence and its closed form; corollaries (lambda=1 MC, lambda=0 TD, cut at done as 2-safety, per-environment independence under vmap, bootstrap taken from the post-rollout state over an uninterpreted env/policy) are separate obligations. Bounded symbolic verification, not a proof: T is bounded.",
    note="floats are reals (the property is stated over the reals); T bounded as stated; trusted: JAX tracer, the jaxpr interpreter (validated against JAX every run), z3",
    ref="DESIGN.md §2 C03"),
 "C01": dict(
    text="AbstractEnvLike.step/reset (inherited unchanged by every built-in environment and wrapper: IR/introspection fact) are traced on wrapper stacks (depth <=2 quick, <=3 thorough, 11 wrapper kinds, Discrete and Box actions) over an UNINTERPRETED base environment, so one unsat covers every MDP; one symbolic step from an arbitrary state covers every reachable state. Reward, flags, info, returned state (successor vs freshly drawn initial state with all wrapper counters 0, reset key a fresh split child) and observation-of-the-returned-state are compared with an independently written reference semantics.",
    note="environment components are arbitrary total functions; distinct key terms are distinct keys; stack depth bounded; dyadic Box configuration; trusted: JAX tracer, interpreter (validated each run), z3",
    ref="DESIGN.md §2 C01"),
 "C13": dict(
    text="Every functional component of every wrapper and wrapper pair is traced over an uninterpreted base environment and shown equal (unsat) to a reference in which only the declared change is applied (mapped action for transition, reward AND info; post-processed observation/reward; counter +1; truncate = inner or count>=N with N symbolic); advertised spaces, images of clip/rescale maps, rescale endpoints and monotonicity, unwrapped chains to depth 3, constructibility of all 11 wrappers, the TimeLimit exactness lemma, and the slot wiring of the Gymnax / Gymnasium adapters (io_callback as UF) are separate obligations.",
    note="bounded: stack depth 2 for methods, 3 for unwrapped; rescale on bounded dyadic boxes; LeraxToGymEnv and real Gymnasium envs outside the claim",
    ref="DESIGN.md §2 C13"),
 "C04": dict(
    text="AbstractActorCriticOnPolicyAlgorithm.step and collect_rollout (S<=3) are traced over an UNINTERPRETED environment (bare and under TimeLimit with symbolic limit/count; Discrete with/without mask, Box(2) with symbolic bounds) and an uninterpreted stateful actor-critic policy, from an arbitrary carried state; every stored field, the clipped-action driving of transition and reward, done = term or trunc, bootstrapping iff truncated-and-not-terminated with V of the successor observation, resets of env and policy state with fresh keys, and mask recording are shown equal (unsat) to a reference interpreter written from the statement; collect_rollout equals the S-fold composition of the reference step followed by GAE on the recorded stream.",
    note="one step from an arbitrary state covers all histories; S bounded; env/policy arbitrary total functions; keys idealised (distinct terms distinct); lanes of vectorised rollouts are C12; log-prob numerics are C15/C16",
    ref="DESIGN.md §2 C04"),
 "C05": dict(
    text="AbstractOffPolicyAlgorithm.step is traced with the real ReplayBuffer (symbolic insert position) over an uninterpreted environment (bare / TimeLimit with symbolic limit and count; Discrete and Box with symbolic bounds) and an uninterpreted stateful behaviour policy, from an arbitrary carried state; the inserted row (observation acted on, PRE-reset successor observation, chosen action, reward of the clipped action, done, timeout = truncated and not terminated, both policy states), position+1 and the carried env/policy states (reset iff done, fresh keys) are shown equal (unsat) to a reference interpreter written from the statement. reset() and iteration() are traced for a grid of (num_envs, learning_starts, num_steps, buffer_size): per-env positions equal learning_starts after warm-up, advance by num_steps per iteration, capacity buffer_size//num_envs.",
    note="capacity 2, envs <=2 (3 thorough), learning_starts/num_steps small: static grid; env/policy arbitrary total functions; ring semantics beyond the inserted slot are C06; lane independence is C12",
    ref="DESIGN.md §2 C05"),
 "C19": dict(
    text="LoggingCallbackStepState.next is traced and decided as one inductive step from an arbitrary state with symbolic smoothing factor, including a ghost-variable invariant linking the accumulators to the sum of rewards / number of steps since the previous episode end (so histories of any length are covered) and per-environment independence under vmap; the real on-/off-policy collection steps are traced with a LoggingCallback attached over an uninterpreted env/policy to show that the reward and done flag reaching the logger are the environment's reward of the executed action and term-or-trunc; on_iteration's ordered backend callback operands equal the means over environments / the cumulative step sum; rollout_scan (max_steps<=4), rollout_while (unwinding 3 with unwinding obligation) and average_reward (2 episodes) equal a reference interpreter of the evaluation episode, deterministic => key-less policy call.",
    note="evaluation horizons bounded as stated; while-loop episodes of at most 3 steps; backends' own I/O and video recording outside the claim; env/policy arbitrary total functions",
    ref="DESIGN.md §2 C19"),
 "C12": dict(
    text="The REAL iteration() of the on-policy (PPO with train replaced by a probe that returns the buffer it receives) and off-policy algorithms with E=2 is traced over an uninterpreted environment/policy; every lane of every output (carried env/policy state, step counts, observations, actions, rewards, dones, log-probs, values, returns, advantages; replay rows and positions) is shown equal (unsat / identical terms) to the single-environment collect_rollout run from (state[e], K_e) for some per-environment key K_e derived from the iteration key (distinct across lanes), and lane 0 is shown invariant under arbitrary changes of lane 1's state (2-safety). Every functional component of the 5 classic-control environments and 2 wrapper stacks traces without converting a traced value to a Python bool (eager = jit primitive sequence) and its vmapped jaxpr is lane-wise equal to the unbatched one (ODE integrator and PRNG samplers stubbed).",
    note="E=2, S=2, batch 2; env/policy arbitrary total functions; MuJoCo/G1 components under vmap and XLA numerics (jit vs eager rounding) outside the claim",
    ref="DESIGN.md §2 C12"),
 "C02": dict(
    text="Inductive step for the five classic-control environments with diffrax.diffeqsolve stubbed as an arbitrary finite flow: for every solver output y, observation(clip(y)) is a member of the declared observation space (FP32 for clamp components incl. NaN/inf, REAL with range-axiomatised sin/cos and an exact quotient encoding for angle wraps), at default limits and at symbolic limits under the configuration precondition; CartPole on step() itself; initial states and sampled actions are members (PRNG contract stubs); Clip/Rescale/Flatten observation wrappers map into their advertised spaces; reward/terminal/truncate/observation avals of all 19 built-in environments (5 classic, 11 MuJoCo, 3 G1) read from the IR; two independent traces of every component are identical with identical captured constants (no Python-side state).",
    note="one inductive step (any solver output), not trajectories; MuJoCo/G1 trajectories, float overflow inside rewards, RescaleObservation over infinite boxes outside the claim",
    ref="DESIGN.md §2 C02"),
 "C14": dict(
    text="contains of Box/Discrete/MultiDiscrete/MultiBinary and nested Dict/Tuple is traced with path forking on bool(tracer) and decided in FP32 (symbolic candidate incl. NaN/inf, symbolic Box bounds; candidate dtype/shape classes and structural classes enumerated) against the membership predicate of the statement; scalar-bool result avals from the IR; sample() (PRNG contracts, Discrete mask) and canonical() are members; flatten_sample has flat_size entries and is injective on members (2-safety); Box.__eq__ by path-forking trace; __eq__/__hash__ of Discrete, MultiDiscrete, MultiBinary, Tuple, Dict and nestings by CrossHair (z3-backed symbolic execution of the Python source) over symbolic sizes and arity.",
    note="<=4 elements per leaf, nesting depth 2, arity <=3; Box.__hash__, the Gymnasium round trip and Dict key order run NumPy/Gymnasium C code on concrete values (CrossHair realises there): outside the claim; foreign-type rejection informational only",
    ref="DESIGN.md §2 C14", tech="path-forking trace of the real contains/sample/canonical to jaxprs, FP32 (z3 FloatingPoint) symbolic execution vs membership oracle; CrossHair (z3) for pure-Python __eq__/__hash__; counterexamples replayed on the real classes"),
 "C17": dict(
    text="Classic control: dynamics (vector field), clip (limits), reward incl. the goal/terminal step, terminal and initial range of CartPole, MountainCar, ContinuousMountainCar, Acrobot are traced with symbolic constructor parameters (sin/cos uninterpreted and shared) and shown equal (unsat) to short reference models of the Gymnasium semantics, which are validated against the INSTALLED Gymnasium on every run; CartPole+Euler transition equals Gymnasium's step map. MuJoCo (11 envs): observation layout, reward, reward components, termination, transition (ctrl written before exactly frame_skip steps, t+dt) and reset consistency (every derived field read at reset equals forward kinematics of the reset qpos/qvel) with the physics replaced by uninterpreted functions of (qpos, qvel, ctrl) whose write-set is read from the IR of the real mjx.forward/step each run, compared with reference models of the v5 formulas validated against the installed gymnasium *-v5 classes.",
    note="formulas are compared with the physics cancelled (MJX-vs-MuJoCo numerics, multi-step trajectories, Tsit5 vs Gymnasium integrators outside the claim); 3 listed known findings (cfrc_ext never written by MJX)",
    ref="DESIGN.md §2 C17"),
 "C20": dict(
    text="randomize_* / randomize_model on the real G1 mjx.Model pytree with symbolic ranges and nominal values: every randomised entry within [nominal*lo, nominal*hi], every other of the 124 model leaves identical (the output leaf IS the input variable); initial() of the three tasks with physics stubbed: model in range, command/frequency in range (zero for standing tasks), derived kinematics equal forward kinematics of the FINAL qpos/qvel; gait phases with pi an interval-bounded symbol and fmod encoded exactly: range, increment 2*pi*f*dt, half-cycle offset inductive and initial; cubic Bezier foot height range/zero/peak (NRA); transition advances the phase exactly once with the state's own frequency.",
    note="actual G1 model sizes; float rounding of fmod at the wrap point, negative frequencies, f*dt > 1/2, MJX physics outside the claim",
    ref="DESIGN.md §2 C20"),
 "C06": dict(
    text="ONE INDUCTIVE STEP of the real ReplayBuffer.add from an arbitrary buffer satisfying a ring invariant with a symbolic insert position p >= 0 (ghost tags: every leaf of a written slot, incl. dict observations, tuple actions and policy states, is H_leaf(tag) of the same insertion): add re-establishes the invariant at p+1 and writes all fields of the new row in one slot; pure-integer lemmas (solver) link the invariant to 'holds exactly the most recent min(n,C) insertions, each once'; sample() with the choice contract stub returns only stored rows, all leaves gathered with the same index, no index twice, also for E=2 buffers with independent symbolic fill levels.",
    note="capacity <=4 (6 thorough), E<=2, batch <= stored; position a mathematical integer (int32 wrap at 2^31 outside the claim); uniformity of draws outside the claim",
    ref="DESIGN.md §2 C06"),
 "C07": dict(
    text="DQN.dqn_loss / dqn_loss_grad / dqn_train and the real SAC.sac_train are traced on symbolic batches (all four done/timeout combinations) over uninterpreted Q-policies, actor and critics (value form) and small tabular ones (gradient form, JAX differentiates the real loss): the regression target is r + gamma*(not done or timeout)*V' with V' = target-net value of the online greedy action (Double DQN) resp. min of the target critics at a freshly sampled next action minus alpha*log pi; the loss is pinned up to one positive constant (fixed point of the per-sample gradient, proportionality of the reported q_loss); the critic update is the TD semi-gradient (targets are inputs only) and the actor/alpha losses do not move the critics (2-safety non-interference).",
    note="batch <=3, |A|=3, obs/action dim <=2; transcendental functions uninterpreted; float rounding outside the claim; Polyak/target updates are C10",
    ref="DESIGN.md §2 C07"),
 "C08": dict(
    text="PPO.ppo_loss (all four flag combinations) with its PPOStats, A2C.a2c_loss and REINFORCE.reinforce_loss are traced over an uninterpreted policy and compared component-wise (policy term, entropy term, total exactly; value term up to one positive constant via proportionality two-instance queries, with value clipping the larger of clipped/unclipped errors) with the published objectives written independently; consequences as separate obligations: favoured-side clipped ratio => zero policy gradient (JAX-differentiated real loss over a tabular policy), on-policy data => ratios 1 and approx-KL 0; the train steps apply updates through the configured optimiser and the real optax chain is clip_by_global_norm then adam (first update from a zero state).",
    note="batch <=2 with normalisation (3 thorough), <=3 (4) without; exp/sqrt uninterpreted with axioms; Ackermannisation + nlsat; adam beyond its first step and LR schedules outside the claim",
    ref="DESIGN.md §2 C08"),
 "C09": dict(
    text="batch_indices / gather / batches / flatten_axes / RolloutBuffer.sample are traced with the permutation an arbitrary symbolic permutation (contract stub) for all 1<=B<=N<=8 (12 thorough): the index matrix has floor(N/B) rows of B distinct in-range entries; every leaf of the gathered buffer (nested dict/tuple observations and actions, masks, policy states; ghost tags) carries the same tag per row; flatten_axes is onto with the same rearrangement on every leaf; in the real PPO.train each epoch draws one permutation from its own split key (key terms reaching the permutation are pairwise distinct); resolve_axes (pure Python) by CrossHair; end to end, per-sample visit counts are read from the symbolic final parameters of the real PPO.train with a tabular value-only policy and SGD.",
    note="N<=8/12, end-to-end N<=8 (1 epoch) / 6 (2 epochs); uniformity of the shuffle and which samples are dropped outside the claim",
    ref="DESIGN.md §2 C09"),
 "C10": dict(
    text="num_iterations (pure Python) is decided by CrossHair (k*E*S <= T < (k+1)*E*S for all T>=0, E,S>=1); learn() is traced for a grid of (T,E,S) and the iteration scan length read from the IR; the real iteration() of PPO, A2C, REINFORCE, DQN, SAC is traced over an uninterpreted environment and real tiny MLPs with a SYMBOLIC iteration counter: counter+1, exactly E*S environment transitions, DQN target' = ite((count+1) mod I == 0, new online, old target) plus the integer lemma that this recurrence keeps 'online as of the most recent multiple of I' (and reset: target = online at count 0), SAC target critics = tau*online_new + (1-tau)*target exactly once per iteration, actor / temperature and their optimiser states unchanged when count mod policy_frequency != 0, temperature never changes without autotuning.",
    note="intervals I<=3 (5), policy_frequency<=2 (3), tau=0.25 static; newly trained parameters are abstracted to opaque values where the obligation only moves them; int32 counter wrap outside the claim",
    ref="DESIGN.md §2 C10"),
 "C11": dict(
    text="For PPO, A2C, REINFORCE, DQN and SAC the real reset() and iteration() (and learn() for one iteration) are traced once per callback set {none, LoggingCallback, ProgressBarCallback, CallbackList of both, nested lists} over an uninterpreted environment and the real tiny MLP policies with symbolic parameters; with the same symbolic inputs every output other than the callbacks' own state is shown equal to the run without observers (identical terms, otherwise per-output solver queries); learn() is inspected at IR level for purity (no impure primitive beyond output-less debug callbacks and equinox error_if, no donated input, identical re-trace and captured constants); 'different keys yield different runs' is an existential obligation decided sat per algorithm (an implementation that ignores its key is reported after replay).",
    note="sizes num_envs 1 (2 thorough), num_steps<=2, MLP width 2; bit-level determinism of XLA kernels outside the claim (purity of the traced program is what is shown)",
    ref="DESIGN.md §2 C11"),
}
NOT_YET = {}
NA = {"C18": "file-system I/O and NumPy serialisation of concrete buffers: nothing symbolic to execute (eqx.tree_serialise_leaves crosses into numpy.save, CrossHair realises every input at that boundary); 'fails loudly' is an exception-path property of equinox. See DESIGN.md §2 C18."}
def main():
    props = [json.loads(l)["id"] for l in open(os.path.join(HERE, "properties.jsonl"))]
    checks = []
    for pid in props:
        if pid in CHECKS and os.path.exists(os.path.join(HERE, "props", pid + ".py")):
            c = CHECKS[pid]
            checks.append({"property_id": pid, "quick_cmd": f"./check {pid} --tier quick", "thorough_cmd": f"./check {pid} --tier thorough",
                           "evidence_file": f"evidence/{pid}.json", "replay_cmd_template": f"./check {pid} --replay {{path}}", "engine": "jaxsmt",
                           "level_claimed": {"category": "other", "text": c["text"], "design_ref": c["ref"]}, "level_note": c["note"], "technique": c.get("tech", TECH)})
    na = []
    for pid in props:
        if pid in NA:
            na.append({"property_id": pid, "reason": NA[pid]})
        elif not any(c["property_id"] == pid for c in checks):
            na.append({"property_id": pid, "reason": NOT_YET.get(pid, "check not built yet at this commit (work in progress; see DESIGN.md for the planned encoding)")})
    m = {"version": 1, "setup_cmd": "sh ./setup.sh",
         "hooks": {"guard": "LERAX_VERIF", "enable": "no source hooks are needed: all stubs are installed by the checking process; ./check exports LERAX_VERIF=1 for uniformity",
                   "baseline_off_cmd": "cd /repo && /venv/bin/python -m pytest -ra -q -p no:cacheprovider --timeout=900 --continue-on-collection-errors", "source_commits": [], "add_only": True},
         "engines": [{"name": "jaxsmt", "path": "jaxsmt/", "serves_properties": [c["property_id"] for c in checks],
                      "kind_free_text": "jaxpr -> SMT symbolic interpreter (REAL / FP32 / LOG numeric modes), uninterpreted-function harness objects, z3 + nlsat, CrossHair for pure-Python fragments"}],
         "checks": checks, "not_applicable": na,
         "notes": "Exit codes: 0 held (or only listed known findings), 1 reproduced violation, 3 inconclusive (solver unknown / non-reproducing model / harness error). known_findings.txt lists recorded and fixed defects."}
    json.dump(m, open(os.path.join(HERE, "MANIFEST.json"), "w"), indent=1)
    import jsonschema
    jsonschema.validate(m, json.load(open("/root/.vp/MANIFEST.schema.json")))
    for c in checks:
        ev = os.path.join(HERE, c["evidence_file"])
        if os.path.exists(ev):
            jsonschema.validate(json.load(open(ev)), json.load(open("/root/.vp/EVIDENCE.schema.json")))
    print("MANIFEST ok:", len(checks), "checks,", len(na), "not applicable")
main()
