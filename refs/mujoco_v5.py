"""Reference models of the Gymnasium v5 MuJoCo semantics (observation layout, reward and its components, health
predicates, info entries, default weights) — written from the Gymnasium v5 documentation/step() contracts, NOT from lerax.

Every function is written over an element algebra `o` (jaxsmt.ops.RealOps): with z3 terms it yields the symbolic
oracle, with plain floats (fold_transcendentals=True) the same code is executed numerically, which is how each reference
is validated against the INSTALLED gymnasium.envs.mujoco.*_v5 classes on every run (`validate`).

    P : parameters {lerax field name: element / array}   (weights, ranges, dt, timestep, init_qpos, body_mass)
    D : MuJoCo data fields {name: array}                   (qpos, qvel, ctrl, xpos, xipos, cinert, cvel, qfrc_actuator,
                                                            cfrc_ext, site_xpos, qfrc_constraint, ten_length, ten_velocity)
`step(o, P, D, a, D2)` is the v5 `step()` contract with the physics abstracted: D is the data before, D2 the data after
`do_simulation(a, frame_skip)`; it returns (reward, terminated, info).
"""
from fractions import Fraction

import numpy as np

FIELDS = ("qpos", "qvel", "ctrl", "xpos", "xipos", "cinert", "cvel", "qfrc_actuator", "cfrc_ext", "site_xpos", "qfrc_constraint",
          "ten_length", "ten_velocity")


# ------------------------------------------------------------------ element helpers
def ssum(o, xs):
    r = None
    for x in xs:
        r = x if r is None else o.add(r, x)
    return 0 if r is None else r


def sq(o, x):
    return o.mul(x, x)


def sumsq(o, xs):
    return ssum(o, [sq(o, x) for x in xs])


def clip(o, x, lo, hi):
    """numpy.clip(x, lo, hi) = minimum(hi, maximum(lo, x))"""
    return o.min(hi, o.max(lo, x))


def norm(o, xs):
    return o.unary("sqrt", sumsq(o, xs))


def between_open(o, lo, x, hi):
    return o.land(o.lt(lo, x), o.lt(x, hi))


def between_closed(o, lo, x, hi):
    return o.land(o.le(lo, x), o.le(x, hi))


def b2f(o, b):
    return o.ite(b, Fraction(1), Fraction(0))


def flat(a):
    return list(np.asarray(a, dtype=object).reshape(-1))


def all_(o, bs):
    r = True
    for b in bs:
        r = o.land(r, b)
    return r


class V5:
    gym_id = None
    lerax = None
    frame_skip = None
    # lerax array field -> attribute of the Gymnasium instance
    params = {}
    # lerax static flag -> Gymnasium attribute (must be equal; the reference is written for the default flags)
    flags = {}
    reward_components = ()
    terminates = False
    # parameters the installed v5 implementation does not use at all (compared only at their default value)
    unused_by_v5 = {}

    def __init__(self, **flag_overrides):
        """flag_overrides: documented boolean constructor options (same names in lerax and in Gymnasium v5) set to a non-default value; every
        v5 option of this kind defaults to True"""
        self.F = dict(flag_overrides)

    def flag(self, name):
        return bool(self.F.get(name, True))

    def obs(self, o, P, D):
        raise NotImplementedError

    def step(self, o, P, D, a, D2):
        raise NotImplementedError

    def terminated(self, o, P, D):
        """the termination predicate v5 evaluates on the data after the step"""
        return False

    def reset_info(self, o, P, D):
        return {}


# ------------------------------------------------------------------ Ant-v5
class Ant(V5):
    gym_id, lerax, frame_skip = "Ant-v5", "Ant", 5
    params = {"forward_reward_weight": "_forward_reward_weight", "ctrl_cost_weight": "_ctrl_cost_weight", "contact_cost_weight": "_contact_cost_weight",
              "contact_force_range": "_contact_force_range", "healthy_reward": "_healthy_reward", "healthy_z_range": "_healthy_z_range",
              "reset_noise_scale": "_reset_noise_scale"}
    flags = {"terminate_when_unhealthy": "_terminate_when_unhealthy", "exclude_current_positions_from_observation": "_exclude_current_positions_from_observation",
             "include_cfrc_ext_in_observation": "_include_cfrc_ext_in_observation"}
    reward_components = ("reward_forward", "reward_ctrl", "reward_contact", "reward_survive")
    terminates = True
    main_body = 1   # "torso"

    def contact_forces(self, o, P, D):
        lo, hi = P["contact_force_range"]
        return [[clip(o, x, lo, hi) for x in row] for row in D["cfrc_ext"]]

    def obs(self, o, P, D):
        cf = self.contact_forces(o, P, D)
        q = flat(D["qpos"])[2:] if self.flag("exclude_current_positions_from_observation") else flat(D["qpos"])
        return q + flat(D["qvel"]) + ([x for row in cf[1:] for x in row] if self.flag("include_cfrc_ext_in_observation") else [])

    def healthy(self, o, P, D):
        lo, hi = P["healthy_z_range"]
        return between_closed(o, lo, D["qpos"][2], hi)     # and all state entries finite (true over the reals)

    def terminated(self, o, P, D):
        return o.lnot(self.healthy(o, P, D))

    def step(self, o, P, D, a, D2):
        dt = P["dt"]
        xv = o.fdiv(o.sub(D2["xpos"][self.main_body][0], D["xpos"][self.main_body][0]), dt)
        yv = o.fdiv(o.sub(D2["xpos"][self.main_body][1], D["xpos"][self.main_body][1]), dt)
        fr = o.mul(xv, P["forward_reward_weight"])
        hr = o.mul(b2f(o, self.healthy(o, P, D2)), P["healthy_reward"])
        cc = o.mul(P["ctrl_cost_weight"], sumsq(o, flat(a)))
        kc = o.mul(P["contact_cost_weight"], sumsq(o, [x for row in self.contact_forces(o, P, D2) for x in row]))
        reward = o.sub(o.add(fr, hr), o.add(cc, kc))
        info = {"x_position": D2["qpos"][0], "y_position": D2["qpos"][1], "distance_from_origin": norm(o, flat(D2["qpos"])[0:2]),
                "x_velocity": xv, "y_velocity": yv, "reward_forward": fr, "reward_ctrl": o.neg(cc), "reward_contact": o.neg(kc), "reward_survive": hr}
        return reward, self.terminated(o, P, D2), info

    def reset_info(self, o, P, D):
        return {"x_position": D["qpos"][0], "y_position": D["qpos"][1], "distance_from_origin": norm(o, flat(D["qpos"])[0:2])}


# ------------------------------------------------------------------ HalfCheetah-v5 / Swimmer-v5 / Hopper-v5 / Walker2d-v5
class HalfCheetah(V5):
    gym_id, lerax, frame_skip = "HalfCheetah-v5", "HalfCheetah", 5
    params = {"forward_reward_weight": "_forward_reward_weight", "ctrl_cost_weight": "_ctrl_cost_weight", "reset_noise_scale": "_reset_noise_scale"}
    flags = {"exclude_current_positions_from_observation": "_exclude_current_positions_from_observation"}
    reward_components = ("reward_forward", "reward_ctrl")
    skip = 1

    def obs(self, o, P, D):
        return flat(D["qpos"])[(self.skip if self.flag("exclude_current_positions_from_observation") else 0):] + flat(D["qvel"])

    def step(self, o, P, D, a, D2):
        xv = o.fdiv(o.sub(D2["qpos"][0], D["qpos"][0]), P["dt"])
        fr = o.mul(P["forward_reward_weight"], xv)
        cc = o.mul(P["ctrl_cost_weight"], sumsq(o, flat(a)))
        info = {"x_position": D2["qpos"][0], "x_velocity": xv, "reward_forward": fr, "reward_ctrl": o.neg(cc)}
        return o.sub(fr, cc), False, info

    def reset_info(self, o, P, D):
        return {"x_position": D["qpos"][0]}


class Swimmer(HalfCheetah):
    gym_id, lerax, frame_skip = "Swimmer-v5", "Swimmer", 4
    skip = 2

    def step(self, o, P, D, a, D2):
        xv = o.fdiv(o.sub(D2["qpos"][0], D["qpos"][0]), P["dt"])
        yv = o.fdiv(o.sub(D2["qpos"][1], D["qpos"][1]), P["dt"])
        fr = o.mul(P["forward_reward_weight"], xv)
        cc = o.mul(P["ctrl_cost_weight"], sumsq(o, flat(a)))
        info = {"x_position": D2["qpos"][0], "y_position": D2["qpos"][1], "distance_from_origin": norm(o, flat(D2["qpos"])[0:2]),
                "x_velocity": xv, "y_velocity": yv, "reward_forward": fr, "reward_ctrl": o.neg(cc)}
        return o.sub(fr, cc), False, info

    def reset_info(self, o, P, D):
        return {"x_position": D["qpos"][0], "y_position": D["qpos"][1], "distance_from_origin": norm(o, flat(D["qpos"])[0:2])}


class Walker2d(V5):
    gym_id, lerax, frame_skip = "Walker2d-v5", "Walker2d", 4
    params = {"forward_reward_weight": "_forward_reward_weight", "ctrl_cost_weight": "_ctrl_cost_weight", "healthy_reward": "_healthy_reward",
              "healthy_z_range": "_healthy_z_range", "healthy_angle_range": "_healthy_angle_range", "reset_noise_scale": "_reset_noise_scale"}
    flags = {"terminate_when_unhealthy": "_terminate_when_unhealthy", "exclude_current_positions_from_observation": "_exclude_current_positions_from_observation"}
    reward_components = ("reward_forward", "reward_ctrl", "reward_survive")
    terminates = True

    def obs(self, o, P, D):
        return flat(D["qpos"])[(1 if self.flag("exclude_current_positions_from_observation") else 0):] + [clip(o, v, -10, 10) for v in flat(D["qvel"])]

    def healthy(self, o, P, D):
        zlo, zhi = P["healthy_z_range"]
        alo, ahi = P["healthy_angle_range"]
        return o.land(between_open(o, zlo, D["qpos"][1], zhi), between_open(o, alo, D["qpos"][2], ahi))

    def terminated(self, o, P, D):
        return o.lnot(self.healthy(o, P, D))

    def step(self, o, P, D, a, D2):
        xv = o.fdiv(o.sub(D2["qpos"][0], D["qpos"][0]), P["dt"])
        fr = o.mul(P["forward_reward_weight"], xv)
        hr = o.mul(b2f(o, self.healthy(o, P, D2)), P["healthy_reward"])
        cc = o.mul(P["ctrl_cost_weight"], sumsq(o, flat(a)))
        info = {"x_position": D2["qpos"][0], "z_distance_from_origin": o.sub(D2["qpos"][1], P["init_qpos"][1]), "x_velocity": xv,
                "reward_forward": fr, "reward_ctrl": o.neg(cc), "reward_survive": hr}
        return o.sub(o.add(fr, hr), cc), self.terminated(o, P, D2), info

    def reset_info(self, o, P, D):
        return {"x_position": D["qpos"][0], "z_distance_from_origin": o.sub(D["qpos"][1], P["init_qpos"][1])}


class Hopper(Walker2d):
    gym_id, lerax, frame_skip = "Hopper-v5", "Hopper", 4
    params = dict(Walker2d.params, healthy_state_range="_healthy_state_range")

    def healthy(self, o, P, D):
        slo, shi = P["healthy_state_range"]
        state = flat(D["qpos"])[2:] + flat(D["qvel"])
        hs = all_(o, [between_open(o, slo, s, shi) for s in state])
        return o.land(hs, Walker2d.healthy(self, o, P, D))


# ------------------------------------------------------------------ Humanoid-v5 / HumanoidStandup-v5
class Humanoid(V5):
    gym_id, lerax, frame_skip = "Humanoid-v5", "Humanoid", 5
    params = {"forward_reward_weight": "_forward_reward_weight", "ctrl_cost_weight": "_ctrl_cost_weight", "contact_cost_weight": "_contact_cost_weight",
              "contact_cost_range": "_contact_cost_range", "healthy_reward": "_healthy_reward", "healthy_z_range": "_healthy_z_range",
              "reset_noise_scale": "_reset_noise_scale"}
    flags = {"terminate_when_unhealthy": "_terminate_when_unhealthy", "exclude_current_positions_from_observation": "_exclude_current_positions_from_observation",
             "include_cinert_in_observation": "_include_cinert_in_observation", "include_cvel_in_observation": "_include_cvel_in_observation",
             "include_qfrc_actuator_in_observation": "_include_qfrc_actuator_in_observation", "include_cfrc_ext_in_observation": "_include_cfrc_ext_in_observation"}
    reward_components = ("reward_survive", "reward_forward", "reward_ctrl", "reward_contact")
    terminates = True

    def obs(self, o, P, D):
        blk = lambda f, x: x if self.flag(f) else []
        return ((flat(D["qpos"])[2:] if self.flag("exclude_current_positions_from_observation") else flat(D["qpos"])) + flat(D["qvel"])
                + blk("include_cinert_in_observation", flat(np.asarray(D["cinert"], dtype=object)[1:]))
                + blk("include_cvel_in_observation", flat(np.asarray(D["cvel"], dtype=object)[1:]))
                + blk("include_qfrc_actuator_in_observation", flat(D["qfrc_actuator"])[6:])
                + blk("include_cfrc_ext_in_observation", flat(np.asarray(D["cfrc_ext"], dtype=object)[1:])))

    def mass_center(self, o, P, D, axis):
        """(sum_b mass_b * xipos_b) / sum_b mass_b"""
        m = flat(P["body_mass"])
        num = ssum(o, [o.mul(mb, D["xipos"][b][axis]) for b, mb in enumerate(m)])
        return o.fdiv(num, ssum(o, m))

    def healthy(self, o, P, D):
        lo, hi = P["healthy_z_range"]
        return between_open(o, lo, D["qpos"][2], hi)

    def terminated(self, o, P, D):
        return o.lnot(self.healthy(o, P, D))

    def contact_cost(self, o, P, D):
        lo, hi = P["contact_cost_range"]
        return clip(o, o.mul(P["contact_cost_weight"], sumsq(o, flat(D["cfrc_ext"]))), lo, hi)

    def step(self, o, P, D, a, D2):
        xv = o.fdiv(o.sub(self.mass_center(o, P, D2, 0), self.mass_center(o, P, D, 0)), P["dt"])
        yv = o.fdiv(o.sub(self.mass_center(o, P, D2, 1), self.mass_center(o, P, D, 1)), P["dt"])
        fr = o.mul(P["forward_reward_weight"], xv)
        hr = o.mul(b2f(o, self.healthy(o, P, D2)), P["healthy_reward"])
        cc = o.mul(P["ctrl_cost_weight"], sumsq(o, flat(D2["ctrl"])))     # v5 uses data.ctrl, which do_simulation has set to the action
        kc = self.contact_cost(o, P, D2)
        info = {"x_position": D2["qpos"][0], "y_position": D2["qpos"][1], "tendon_length": D2["ten_length"], "tendon_velocity": D2["ten_velocity"],
                "distance_from_origin": norm(o, flat(D2["qpos"])[0:2]), "x_velocity": xv, "y_velocity": yv,
                "reward_survive": hr, "reward_forward": fr, "reward_ctrl": o.neg(cc), "reward_contact": o.neg(kc)}
        return o.sub(o.add(fr, hr), o.add(cc, kc)), self.terminated(o, P, D2), info

    def reset_info(self, o, P, D):
        return {"x_position": D["qpos"][0], "y_position": D["qpos"][1], "tendon_length": D["ten_length"], "tendon_velocity": D["ten_velocity"],
                "distance_from_origin": norm(o, flat(D["qpos"])[0:2])}


class HumanoidStandup(V5):
    gym_id, lerax, frame_skip = "HumanoidStandup-v5", "HumanoidStandup", 5
    params = {"uph_cost_weight": "_uph_cost_weight", "ctrl_cost_weight": "_ctrl_cost_weight", "impact_cost_weight": "_impact_cost_weight",
              "impact_cost_range": "_impact_cost_range", "reset_noise_scale": "_reset_noise_scale"}
    flags = {k: v for k, v in Humanoid.flags.items() if k != "terminate_when_unhealthy"}
    reward_components = ("reward_linup", "reward_quadctrl", "reward_impact")
    # HumanoidStandup-v5 accepts uph_cost_weight but its _get_rew never applies it (uph_cost = z / timestep); its documentation
    # does.  lerax applies it, which coincides with v5 at the default weight 1: the comparison is made at that value.
    unused_by_v5 = {"uph_cost_weight": 1.0}

    obs = Humanoid.obs

    def step(self, o, P, D, a, D2):
        # v5: uph_cost = (z_after - 0) / model.opt.timestep   (the simulation timestep, NOT dt = timestep * frame_skip)
        up = o.fdiv(D2["qpos"][2], P["timestep"])
        cc = o.mul(P["ctrl_cost_weight"], sumsq(o, flat(D2["ctrl"])))
        lo, hi = P["impact_cost_range"]
        ic = clip(o, o.mul(P["impact_cost_weight"], sumsq(o, flat(D2["cfrc_ext"]))), lo, hi)
        reward = o.add(o.sub(o.sub(up, cc), ic), 1)
        info = {"x_position": D2["qpos"][0], "y_position": D2["qpos"][1], "z_distance_from_origin": o.sub(D2["qpos"][2], P["init_qpos"][2]),
                "tendon_length": D2["ten_length"], "tendon_velocity": D2["ten_velocity"],
                "reward_linup": up, "reward_quadctrl": o.neg(cc), "reward_impact": o.neg(ic)}
        return reward, False, info

    def reset_info(self, o, P, D):
        return {"x_position": D["qpos"][0], "y_position": D["qpos"][1], "z_distance_from_origin": o.sub(D["qpos"][2], P["init_qpos"][2]),
                "tendon_length": D["ten_length"], "tendon_velocity": D["ten_velocity"]}


# ------------------------------------------------------------------ InvertedPendulum-v5 / InvertedDoublePendulum-v5
class InvertedPendulum(V5):
    gym_id, lerax, frame_skip = "InvertedPendulum-v5", "InvertedPendulum", 2
    params = {"reset_noise_scale": "_reset_noise_scale"}
    reward_components = ("reward_survive",)
    terminates = True

    def obs(self, o, P, D):
        return flat(D["qpos"]) + flat(D["qvel"])

    def terminated(self, o, P, D):
        return o.gt(o.abs(D["qpos"][1]), o.lift(0.2, np.float32))   # or a non-finite observation (impossible over the reals)

    def step(self, o, P, D, a, D2):
        t = self.terminated(o, P, D2)
        r = b2f(o, o.lnot(t))
        return r, t, {"reward_survive": r}


class InvertedDoublePendulum(V5):
    gym_id, lerax, frame_skip = "InvertedDoublePendulum-v5", "InvertedDoublePendulum", 5
    params = {"healthy_reward": "_healthy_reward", "reset_noise_scale": "_reset_noise_scale"}
    reward_components = ("reward_survive", "distance_penalty", "velocity_penalty")
    terminates = True

    def obs(self, o, P, D):
        q, v = flat(D["qpos"]), flat(D["qvel"])
        return (q[:1] + [o.unary("sin", x) for x in q[1:]] + [o.unary("cos", x) for x in q[1:]] + [clip(o, x, -10, 10) for x in v]
                + [clip(o, x, -10, 10) for x in flat(D["qfrc_constraint"])][:1])

    def terminated(self, o, P, D):
        return o.le(D["site_xpos"][0][2], 1)

    def step(self, o, P, D, a, D2):
        x, y = D2["site_xpos"][0][0], D2["site_xpos"][0][2]
        v1, v2 = D2["qvel"][1], D2["qvel"][2]
        t = self.terminated(o, P, D2)
        dist = o.add(o.mul(o.lift(0.01, np.float32), sq(o, x)), sq(o, o.sub(y, 2)))
        vel = o.add(o.mul(o.lift(1e-3, np.float32), sq(o, v1)), o.mul(o.lift(5e-3, np.float32), sq(o, v2)))
        alive = o.mul(P["healthy_reward"], b2f(o, o.lnot(t)))
        return o.sub(o.sub(alive, dist), vel), t, {"reward_survive": alive, "distance_penalty": o.neg(dist), "velocity_penalty": o.neg(vel)}


# ------------------------------------------------------------------ Pusher-v5 / Reacher-v5
class Pusher(V5):
    gym_id, lerax, frame_skip = "Pusher-v5", "Pusher", 5
    params = {"reward_near_weight": "_reward_near_weight", "reward_dist_weight": "_reward_dist_weight", "reward_control_weight": "_reward_control_weight"}
    reward_components = ("reward_dist", "reward_ctrl", "reward_near")
    bodies = {"tips_arm": None, "object": None, "goal": None}   # ids filled from the Gymnasium model at validation time

    def com(self, D, name):
        """get_body_com(name) = data.body(name).xpos : the body FRAME position"""
        return flat(D["xpos"][self.bodies[name]])

    def obs(self, o, P, D):
        return flat(D["qpos"])[:7] + flat(D["qvel"])[:7] + self.com(D, "tips_arm") + self.com(D, "object") + self.com(D, "goal")

    def step(self, o, P, D, a, D2):
        v1 = [o.sub(x, y) for x, y in zip(self.com(D2, "object"), self.com(D2, "tips_arm"))]
        v2 = [o.sub(x, y) for x, y in zip(self.com(D2, "object"), self.com(D2, "goal"))]
        near = o.mul(o.neg(norm(o, v1)), P["reward_near_weight"])
        dist = o.mul(o.neg(norm(o, v2)), P["reward_dist_weight"])
        ctrl = o.mul(o.neg(sumsq(o, flat(a))), P["reward_control_weight"])
        return o.add(o.add(dist, ctrl), near), False, {"reward_dist": dist, "reward_ctrl": ctrl, "reward_near": near}


class Reacher(V5):
    gym_id, lerax, frame_skip = "Reacher-v5", "Reacher", 2
    params = {"reward_dist_weight": "_reward_dist_weight", "reward_control_weight": "_reward_control_weight"}
    reward_components = ("reward_dist", "reward_ctrl")
    bodies = {"fingertip": None, "target": None}

    com = Pusher.com

    def obs(self, o, P, D):
        q, v = flat(D["qpos"]), flat(D["qvel"])
        d = [o.sub(x, y) for x, y in zip(self.com(D, "fingertip"), self.com(D, "target"))]
        return [o.unary("cos", x) for x in q[:2]] + [o.unary("sin", x) for x in q[:2]] + q[2:] + v[:2] + d[:2]

    def step(self, o, P, D, a, D2):
        d = [o.sub(x, y) for x, y in zip(self.com(D2, "fingertip"), self.com(D2, "target"))]
        dist = o.mul(o.neg(norm(o, d)), P["reward_dist_weight"])
        ctrl = o.mul(o.neg(sumsq(o, flat(a))), P["reward_control_weight"])
        return o.add(dist, ctrl), False, {"reward_dist": dist, "reward_ctrl": ctrl}


REFS = {c.lerax: c for c in (Ant, HalfCheetah, Hopper, Humanoid, HumanoidStandup, InvertedDoublePendulum, InvertedPendulum, Pusher, Reacher, Swimmer, Walker2d)}


# ================================================================== the installed Gymnasium as an executable oracle
class GymOracle:
    """The installed Gymnasium v5 class with the physics replaced by "load these data": `do_simulation` writes the action
    into data.ctrl and loads the given post-step fields, so `step()` executes its own reward / info / termination code on
    exactly the data we choose (physical or not)."""

    def __init__(self, ref):
        import gymnasium as gym
        self.ref = ref
        self.g = gym.make(ref.gym_id, **getattr(ref, "F", {})).unwrapped
        self.g.reset(seed=0)
        import mujoco
        if hasattr(ref, "bodies"):
            for n in ref.bodies:
                ref.bodies[n] = mujoco.mj_name2id(self.g.model, mujoco.mjtObj.mjOBJ_BODY, n)
        self.default_params = {k: np.array(getattr(self.g, a), dtype=np.float64) for k, a in ref.params.items()}
        self.default_timestep = float(self.g.model.opt.timestep)
        self.init_qpos0 = self.g.init_qpos.copy()
        self.body_mass0 = np.array(self.g.model.body_mass, dtype=np.float64)

    # ---- data access
    def get(self):
        d = self.g.data
        return {f: np.array(getattr(d, f), dtype=np.float64) for f in FIELDS}

    def load(self, D):
        d = self.g.data
        for f, v in D.items():
            if f in FIELDS and getattr(d, f).size:
                getattr(d, f)[...] = np.asarray(v, dtype=np.float64).reshape(getattr(d, f).shape)

    def set_params(self, P):
        for k, a in self.ref.params.items():
            if k in P:
                v = np.asarray(P[k], dtype=np.float64)
                setattr(self.g, a, tuple(v.tolist()) if v.ndim else float(v))
        if "timestep" in P:
            self.g.model.opt.timestep = float(P["timestep"])
        if "init_qpos" in P:
            self.g.init_qpos[:] = np.asarray(P["init_qpos"], dtype=np.float64)
        if "body_mass" in P:
            self.g.model.body_mass[:] = np.asarray(P["body_mass"], dtype=np.float64)

    def restore_params(self):
        self.set_params(dict(self.default_params, timestep=self.default_timestep, init_qpos=self.init_qpos0, body_mass=self.body_mass0))

    def params(self):
        P = {k: np.array(getattr(self.g, a), dtype=np.float64) for k, a in self.ref.params.items()}
        P["timestep"] = float(self.g.model.opt.timestep)
        P["dt"] = float(self.g.dt)
        P["init_qpos"] = self.g.init_qpos.copy()
        P["body_mass"] = np.array(self.g.model.body_mass, dtype=np.float64)
        return P

    # ---- the v5 code on chosen data
    def obs(self, D):
        self.load(D)
        return np.asarray(self.g._get_obs(), dtype=np.float64)

    def step_on(self, D, a, D2):
        """run the installed step() with do_simulation := (ctrl <- a ; load D2)"""
        g = self.g
        self.load(D)
        orig = g.do_simulation

        def fake(ctrl, n_frames):
            assert n_frames == g.frame_skip
            self.load(D2)
            g.data.ctrl[:] = ctrl
        g.do_simulation = fake
        try:
            ob, r, term, trunc, info = g.step(np.asarray(a, dtype=np.float64))
        finally:
            g.do_simulation = orig
        return np.asarray(ob, dtype=np.float64), float(r), bool(term), {k: np.array(v, dtype=np.float64) for k, v in info.items()}

    def reset_info_on(self, D):
        self.load(D)
        return {k: np.array(v, dtype=np.float64) for k, v in (self.g._get_reset_info() if hasattr(self.g, "_get_reset_info") else {}).items()}

    def physical_states(self, n, seed):
        """a few physically consistent (D, a, D2) triples: reset, some random steps, one more step"""
        g = self.g
        out = []
        rng = np.random.default_rng(seed)
        for i in range(n):
            g.reset(seed=int(seed + i))
            g.action_space.seed(int(seed + i))
            for _ in range(1 + 2 * i):
                g.step(g.action_space.sample())
            D = self.get()
            a = g.action_space.sample().astype(np.float64)
            ob, r, term, trunc, info = g.step(a)
            out.append((D, a, self.get(), np.asarray(ob, dtype=np.float64), float(r), bool(term), {k: np.array(v, dtype=np.float64) for k, v in info.items()}))
        return out


def num_ops():
    from jaxsmt.ops import RealOps
    o = RealOps()
    o.fold_transcendentals = True
    return o


def _f(x):
    return float(x) if not isinstance(x, (bool, np.bool_)) else bool(x)


def _close(a, b, tol=1e-6):
    a, b = np.asarray(a, dtype=np.float64).reshape(-1), np.asarray(b, dtype=np.float64).reshape(-1)
    return a.shape == b.shape and bool(np.all(np.abs(a - b) <= tol * (1 + np.abs(b))))


def compare_with_gym(ref, P, D, a, D2, ob, r, term, info):
    """reference formulas (executed numerically) vs what the installed Gymnasium returned; list of mismatches"""
    o = num_ops()
    bad = []
    got_ob = [_f(x) for x in ref.obs(o, P, D2)]
    if not _close(got_ob, ob):
        bad.append(("obs", got_ob[:6], list(ob[:6])))
    rr, tt, ii = ref.step(o, P, D, a, D2)
    if not _close(_f(rr), r):
        bad.append(("reward", _f(rr), r))
    if bool(tt) != bool(term):
        bad.append(("terminated", bool(tt), term))
    if set(ii) != set(info):
        bad.append(("info keys", sorted(ii), sorted(info)))
    for k in set(ii) & set(info):
        if not _close([_f(x) for x in flat(ii[k])], info[k]):
            bad.append(("info." + k, [_f(x) for x in flat(ii[k])][:4], np.asarray(info[k]).reshape(-1)[:4].tolist()))
    if not set(ref.reward_components) <= set(info):
        bad.append(("reward components", ref.reward_components, sorted(info)))
    return bad


def validate(ref, n_physical=3, n_synthetic=4, seed=0):
    """Concrete differential validation of a reference against the installed Gymnasium v5 class:
    * physical states (reset + random steps, real MuJoCo physics): reference on Gymnasium's own data vs Gymnasium's outputs;
    * synthetic data (arbitrary field values and randomised weights, physics replaced by loading the data): exercises the
      branches (health predicates, clipping, which body/frame is read) far from the physical trajectories.
    Returns (ok, n points, mismatches, oracle)."""
    G = GymOracle(ref)
    o = num_ops()
    bad = []
    pts = 0
    P = G.params()
    for D, a, D2, ob, r, term, info in G.physical_states(n_physical, seed):
        bad += compare_with_gym(ref, P, D, a, D2, ob, r, term, info)
        ri = G.reset_info_on(D)
        mine = ref.reset_info(o, P, D)
        if set(ri) != set(mine) or any(not _close([_f(x) for x in flat(mine[k])], ri[k]) for k in mine):
            bad.append(("reset_info", sorted(mine), sorted(ri)))
        pts += 1
    rng = np.random.default_rng(seed + 99)
    base = G.get()
    for i in range(n_synthetic):
        scale = [0.3, 1.5, 4.0, 30.0][i % 4]
        D = {f: rng.normal(size=v.shape) * scale for f, v in base.items()}
        D2 = {f: rng.normal(size=v.shape) * scale for f, v in base.items()}
        a = rng.uniform(-1, 1, size=G.g.action_space.shape)
        Pn = {}
        for k, v in G.default_params.items():
            v = np.array(v, dtype=np.float64)
            fin = np.isfinite(v)
            w = np.where(fin, v * rng.uniform(0.5, 1.5, size=v.shape), v)
            Pn[k] = np.sort(w) if w.ndim == 1 else w
        Pn["timestep"] = G.default_timestep * float(rng.uniform(0.5, 2.0))
        Pn["init_qpos"] = G.init_qpos0 + rng.normal(size=G.init_qpos0.shape) * 0.1
        Pn["body_mass"] = np.abs(rng.normal(size=G.g.model.body_mass.shape)) + 0.1
        try:
            G.set_params(Pn)
            P2 = G.params()
            ob, r, term, info = G.step_on(D, a, D2)
            D2 = dict(D2, ctrl=a)
            bad += compare_with_gym(ref, P2, D, a, D2, ob, r, term, info)
        finally:
            G.restore_params()
        pts += 1
    return not bad, pts, bad, G
