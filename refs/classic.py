"""Reference models of the Gymnasium classic-control MDPs (CartPole-v1, MountainCar-v0, MountainCarContinuous-v0,
Acrobot-v1), written in Gymnasium's own vocabulary and order of operations (gymnasium/envs/classic_control/*.py).

Every reference is ONE Python function over `Num` values.  A `Num` wraps either a Python float (`FloatOps`: the
function is then an executable model that `validate_<env>` runs against the *installed* Gymnasium classes) or a z3 term
(`SymOps`: the same function then builds the oracle term the solver compares the real lerax code with).  In symbolic
mode Python float constants are rounded to float32 (what the code under test computes with), sin/cos are the
interpreter's uninterpreted functions, so they are shared between implementation and reference.

What is modelled (and nothing more): the continuous-time vector field of which Gymnasium's update is one Euler / RK4
step, the state limits applied after the update, the reward of a transition (including the goal / terminal step), the
termination predicate, the range of initial states, the observation-space bounds, and for CartPole the explicit Euler
step itself.
"""
import math
from fractions import Fraction

import numpy as np


# ------------------------------------------------------------------------------------------------ numeric contexts
class FloatOps:
    """plain float64 evaluation"""
    symbolic = False
    inf = math.inf

    def const(self, x):
        return bool(x) if isinstance(x, (bool, np.bool_)) else (int(x) if isinstance(x, (int, np.integer)) else float(x))

    add = staticmethod(lambda a, b: a + b)
    sub = staticmethod(lambda a, b: a - b)
    mul = staticmethod(lambda a, b: a * b)
    fdiv = staticmethod(lambda a, b: a / b)
    neg = staticmethod(lambda a: -a)
    lt = staticmethod(lambda a, b: a < b)
    le = staticmethod(lambda a, b: a <= b)
    eq = staticmethod(lambda a, b: a == b or abs(a - b) <= 1e-12 * (1 + abs(b)))    # float64 round-off of differently associated sums
    land = staticmethod(lambda a, b: bool(a) and bool(b))
    lor = staticmethod(lambda a, b: bool(a) or bool(b))
    lnot = staticmethod(lambda a: not a)
    ite = staticmethod(lambda c, t, f: t if c else f)

    def unary(self, name, x):
        return getattr(math, name)(x)

    def is_int(self, x):
        return abs(x - round(x)) < 1e-5


class SymOps:
    """z3 terms through the interpreter's own element operations (jaxsmt.ops.RealOps)"""
    symbolic = True
    inf = math.inf

    def __init__(self, o):
        self.o = o
        for n in "add sub mul fdiv neg lt le eq land lor lnot ite unary".split():
            setattr(self, n, getattr(o, n))

    def const(self, x):
        if isinstance(x, (bool, np.bool_)):
            return bool(x)
        if isinstance(x, (int, np.integer)):
            return int(x)
        if isinstance(x, Fraction):
            return x
        x = float(x)
        if x in (math.inf, -math.inf) or x != x:
            return x
        return Fraction(float(np.float32(x)))      # the code under test computes in float32

    def is_int(self, x):
        """x is an integer.  Stated with explicit witnesses: x equals one of `int_candidates` (integer terms supplied by the
        harness, e.g. the quotient of the implementation's own remainder, +-1) — this implies "exists n", and z3 decides it,
        whereas `x == ToReal(ToInt(x))` over unbounded reals is beyond its integer reasoning (measured: unknown)."""
        import z3
        x = self.o.zf(x)
        cands = [z3.IntVal(0)]
        for k in getattr(self, "int_candidates", []):
            cands += [k, k - 1, k + 1]
        return z3.Or([x == z3.ToReal(n) for n in cands])


class Num:
    """a number / truth value in one of the two contexts, with ordinary Python operators"""
    __slots__ = ("v", "o")

    def __init__(self, v, o):
        self.v, self.o = v, o

    def _w(self, x):
        return x.v if isinstance(x, Num) else self.o.const(x)

    def _n(self, v):
        return Num(v, self.o)

    def __add__(self, y): return self._n(self.o.add(self.v, self._w(y)))
    def __radd__(self, y): return self._n(self.o.add(self._w(y), self.v))
    def __sub__(self, y): return self._n(self.o.sub(self.v, self._w(y)))
    def __rsub__(self, y): return self._n(self.o.sub(self._w(y), self.v))
    def __mul__(self, y): return self._n(self.o.mul(self.v, self._w(y)))
    def __rmul__(self, y): return self._n(self.o.mul(self._w(y), self.v))
    def __truediv__(self, y): return self._n(self.o.fdiv(self.v, self._w(y)))
    def __rtruediv__(self, y): return self._n(self.o.fdiv(self._w(y), self.v))
    def __neg__(self): return self._n(self.o.neg(self.v))

    def __pow__(self, n):
        assert isinstance(n, int) and n >= 1
        r = self
        for _ in range(n - 1):
            r = r * self
        return r

    def __lt__(self, y): return self._n(self.o.lt(self.v, self._w(y)))
    def __le__(self, y): return self._n(self.o.le(self.v, self._w(y)))
    def __gt__(self, y): return self._n(self.o.lt(self._w(y), self.v))
    def __ge__(self, y): return self._n(self.o.le(self._w(y), self.v))
    def eq(self, y): return self._n(self.o.eq(self.v, self._w(y)))
    def __and__(self, y): return self._n(self.o.land(self.v, self._w(y)))
    def __or__(self, y): return self._n(self.o.lor(self.v, self._w(y)))
    def __invert__(self): return self._n(self.o.lnot(self.v))

    def where(self, t, f):
        """self ? t : f"""
        return self._n(self.o.ite(self.v, self._w(t), self._w(f)))

    def sin(self): return self._n(self.o.unary("sin", self.v))
    def cos(self): return self._n(self.o.unary("cos", self.v))
    def is_int(self): return self._n(self.o.is_int(self.v))


def sin(x): return x.sin()
def cos(x): return x.cos()


def minimum(a, b):
    return (a <= b).where(a, b)


def maximum(a, b):
    return (a >= b).where(a, b)


def bound(x, m, M):
    """gymnasium.envs.classic_control.acrobot.bound / np.clip: min(max(x, m), M)"""
    return minimum(maximum(x, m), M)


class P:
    """parameter record (attribute access), values are Num"""

    def __init__(self, o, **kw):
        self.o = o
        for k, v in kw.items():
            setattr(self, k, v if isinstance(v, (Num, list, tuple)) else Num(o.const(v), o))

    def num(self, x):
        return x if isinstance(x, Num) else Num(x if _isterm(x) else self.o.const(x), self.o)


def nums(o, xs):
    return [x if isinstance(x, Num) else Num(o.const(x) if not _isterm(x) else x, o) for x in xs]


def _isterm(x):
    return type(x).__module__.startswith("z3")


def values(xs):
    return [x.v if isinstance(x, Num) else x for x in xs]


# ------------------------------------------------------------------------------------------------ CartPole-v1
CARTPOLE_PARAMS = ["gravity", "masscart", "masspole", "length", "force_mag", "tau", "theta_threshold_radians", "x_threshold"]


def cartpole_field(p, y, a):
    """d/dt (x, x_dot, theta, theta_dot) — the quantities CartPoleEnv.step integrates with explicit Euler"""
    x, x_dot, theta, theta_dot = y
    a = p.num(a)
    force = a.eq(1).where(p.force_mag, -p.force_mag)
    costheta = cos(theta)
    sintheta = sin(theta)
    total_mass = p.masspole + p.masscart
    polemass_length = p.masspole * p.length
    temp = (force + polemass_length * (theta_dot * theta_dot) * sintheta) / total_mass
    thetaacc = (p.gravity * sintheta - costheta * temp) / (p.length * (4.0 / 3.0 - p.masspole * (costheta * costheta) / total_mass))
    xacc = temp - polemass_length * thetaacc * costheta / total_mass
    return [x_dot, xacc, theta_dot, thetaacc]


def cartpole_step(p, y, a):
    """kinematics_integrator == 'euler': s + tau * ds"""
    f = cartpole_field(p, y, a)
    return [yi + p.tau * fi for yi, fi in zip(y, f)]


def cartpole_limits(p, y):
    """CartPole applies no state limits"""
    return list(y)


def cartpole_terminal(p, y):
    x, _, theta, _ = y
    return (x < -p.x_threshold) | (x > p.x_threshold) | (theta < -p.theta_threshold_radians) | (theta > p.theta_threshold_radians)


def cartpole_reward(p, y, a, y2):
    """default (sutton_barto_reward=False): 1 for every step including the terminating one"""
    return p.num(1.0)


def cartpole_initial(p, u):
    """np_random.uniform(low=-0.05, high=0.05, size=(4,)) as low + (high-low)*u_i, u_i in [0,1)"""
    lo, hi = p.num(-0.05), p.num(0.05)
    return [lo + (hi - lo) * ui for ui in u]


CARTPOLE_INITIAL_RANGE = ([-0.05] * 4, [0.05] * 4)


def cartpole_obs_bounds(p):
    high = [p.x_threshold * 2, p.num(math.inf), p.theta_threshold_radians * 2, p.num(math.inf)]
    return [-h for h in high], high


# ------------------------------------------------------------------------------------------------ MountainCar-v0
MOUNTAINCAR_PARAMS = ["min_position", "max_position", "max_speed", "goal_position", "goal_velocity", "force", "gravity"]


def mountaincar_field(p, y, a):
    """velocity += (action-1)*force + cos(3*position)*(-gravity); position += velocity   (time step 1)"""
    position, velocity = y
    a = p.num(a)
    return [velocity, (a - 1) * p.force + cos(3 * position) * (-p.gravity)]


def mountaincar_limits(p, y):
    """velocity clipped to +-max_speed, position clipped to [min_position, max_position], inelastic left wall"""
    position, velocity = y
    velocity = bound(velocity, -p.max_speed, p.max_speed)
    position = bound(position, p.min_position, p.max_position)
    velocity = (position.eq(p.min_position) & (velocity < 0)).where(0.0, velocity)
    return [position, velocity]


def mountaincar_terminal(p, y):
    position, velocity = y
    return (position >= p.goal_position) & (velocity >= p.goal_velocity)


def mountaincar_reward(p, y, a, y2):
    return p.num(-1.0)


def mountaincar_initial(p, u):
    lo, hi = p.num(-0.6), p.num(-0.4)
    return [lo + (hi - lo) * u[0], p.num(0.0)]


MOUNTAINCAR_INITIAL_RANGE = ([-0.6, 0.0], [-0.4, 0.0])


def mountaincar_obs_bounds(p):
    return [p.min_position, -p.max_speed], [p.max_position, p.max_speed]


def mountaincar_gym_step(p, y, a):
    """MountainCarEnv.step written with the pieces above (semi-implicit Euler with time step 1, limits in between)"""
    position, velocity = y
    velocity = velocity + mountaincar_field(p, y, a)[1]
    velocity = bound(velocity, -p.max_speed, p.max_speed)
    position = position + velocity
    return mountaincar_limits(p, [position, velocity])


# ------------------------------------------------------------------------------------------------ MountainCarContinuous-v0
CMC_PARAMS = ["min_action", "max_action", "min_position", "max_position", "max_speed", "goal_position", "goal_velocity", "power"]


def cmc_field(p, y, a):
    position, velocity = y
    a = p.num(a)
    force = minimum(maximum(a, p.min_action), p.max_action)
    return [velocity, force * p.power - 0.0025 * cos(3 * position)]


cmc_limits = mountaincar_limits
cmc_terminal = mountaincar_terminal
cmc_initial = mountaincar_initial
cmc_obs_bounds = mountaincar_obs_bounds
CMC_INITIAL_RANGE = MOUNTAINCAR_INITIAL_RANGE


def cmc_reward(p, y, a, y2):
    """reward = 100 if the NEW state is the goal, minus 0.1*action^2 (action inside the action space)"""
    a = p.num(a)
    return cmc_terminal(p, y2).where(100.0, 0.0) - (a * a) * 0.1


def cmc_action_bounds(p):
    return p.min_action, p.max_action


def cmc_gym_step(p, y, a):
    position, velocity = y
    velocity = velocity + cmc_field(p, y, a)[1]
    velocity = bound(velocity, -p.max_speed, p.max_speed)
    position = position + velocity
    return cmc_limits(p, [position, velocity])


# ------------------------------------------------------------------------------------------------ Acrobot-v1
ACROBOT_PARAMS = ["LINK_LENGTH_1", "LINK_LENGTH_2", "LINK_MASS_1", "LINK_MASS_2", "LINK_COM_POS_1", "LINK_COM_POS_2", "LINK_MOI",
                  "MAX_VEL_1", "MAX_VEL_2", "g", "dt"]


def acrobot_field(p, y, torque):
    """AcrobotEnv._dsdt, book_or_nips == 'book'"""
    m1, m2, l1, lc1, lc2, I1, I2, g = p.LINK_MASS_1, p.LINK_MASS_2, p.LINK_LENGTH_1, p.LINK_COM_POS_1, p.LINK_COM_POS_2, p.LINK_MOI, p.LINK_MOI, p.g
    a = p.num(torque)
    theta1, theta2, dtheta1, dtheta2 = y
    pi = math.pi
    d1 = m1 * lc1 ** 2 + m2 * (l1 ** 2 + lc2 ** 2 + 2 * l1 * lc2 * cos(theta2)) + I1 + I2
    d2 = m2 * (lc2 ** 2 + l1 * lc2 * cos(theta2)) + I2
    phi2 = m2 * lc2 * g * cos(theta1 + theta2 - pi / 2.0)
    phi1 = (-m2 * l1 * lc2 * dtheta2 ** 2 * sin(theta2) - 2 * m2 * l1 * lc2 * dtheta2 * dtheta1 * sin(theta2)
            + (m1 * lc1 + m2 * l1) * g * cos(theta1 - pi / 2) + phi2)
    ddtheta2 = (a + d2 / d1 * phi1 - m2 * l1 * lc2 * dtheta1 ** 2 * sin(theta2) - phi2) / (m2 * lc2 ** 2 + I2 - d2 ** 2 / d1)
    ddtheta1 = -(d2 * ddtheta2 + phi1) / d1
    return [dtheta1, dtheta2, ddtheta1, ddtheta2]


def acrobot_torque(p, a, torques):
    """AVAIL_TORQUE[a] for a in the action space {0,1,2}"""
    a = p.num(a)
    return a.eq(0).where(torques[0], a.eq(1).where(torques[1], torques[2]))


def acrobot_limits_ok(p, y, out):
    """`out` is the limited image of the raw integrator output `y`: angles wrapped into [-pi, pi] (wrap(): same angle
    modulo 2*pi; which of the two end points represents the angle pi is immaterial), velocities bound()-ed."""
    pi = p.num(math.pi)
    ok = p.num(True)
    for i in (0, 1):
        ok = ok & (out[i] >= -pi) & (out[i] <= pi) & ((y[i] - out[i]) / (2 * pi)).is_int()
    ok = ok & out[2].eq(bound(y[2], -p.MAX_VEL_1, p.MAX_VEL_1)) & out[3].eq(bound(y[3], -p.MAX_VEL_2, p.MAX_VEL_2))
    return ok


def acrobot_terminal(p, y):
    return (-cos(y[0]) - cos(y[1] + y[0])) > 1.0


def acrobot_reward(p, y, a, y2):
    """-1 unless the NEW state is terminal, then 0"""
    return acrobot_terminal(p, y2).where(0.0, -1.0)


def acrobot_initial(p, u):
    lo, hi = p.num(-0.1), p.num(0.1)
    return [lo + (hi - lo) * ui for ui in u]


ACROBOT_INITIAL_RANGE = ([-0.1] * 4, [0.1] * 4)


def acrobot_obs_bounds(p):
    high = [p.num(1.0), p.num(1.0), p.num(1.0), p.num(1.0), p.MAX_VEL_1, p.MAX_VEL_2]
    return [-h for h in high], high


def acrobot_observation(p, y):
    return [cos(y[0]), sin(y[0]), cos(y[1]), sin(y[1]), y[2], y[3]]


def rk4_step(f, y, dt):
    """gymnasium.envs.classic_control.acrobot.rk4 over t = [0, dt]"""
    dt2 = dt / 2.0
    k1 = f(y)
    k2 = f([yi + dt2 * ki for yi, ki in zip(y, k1)])
    k3 = f([yi + dt2 * ki for yi, ki in zip(y, k2)])
    k4 = f([yi + dt * ki for yi, ki in zip(y, k3)])
    return [yi + dt / 6.0 * (a + 2 * b + 2 * c + d) for yi, a, b, c, d in zip(y, k1, k2, k3, k4)]


# ------------------------------------------------------------------------------------------------ installed Gymnasium
def _unwrapped(cls, **kw):
    return cls(**kw)


def gym_params(env_name):
    """constructor constants of the INSTALLED Gymnasium class, as floats, in the reference's vocabulary"""
    from gymnasium.envs.classic_control import acrobot, cartpole, continuous_mountain_car, mountain_car
    if env_name == "cartpole":
        g = cartpole.CartPoleEnv()
        d = {k: float(getattr(g, k)) for k in CARTPOLE_PARAMS}
        assert g.kinematics_integrator == "euler"
    elif env_name == "mountain_car":
        g = mountain_car.MountainCarEnv()
        d = {k: float(getattr(g, k)) for k in MOUNTAINCAR_PARAMS}
    elif env_name == "continuous_mountain_car":
        g = continuous_mountain_car.Continuous_MountainCarEnv()
        d = {k: float(getattr(g, k)) for k in CMC_PARAMS}
    elif env_name == "acrobot":
        g = acrobot.AcrobotEnv()
        d = {k: float(getattr(g, k)) for k in ACROBOT_PARAMS if k != "g"}
        d["g"] = 9.8    # hard-coded inside AcrobotEnv._dsdt; checked by validate_acrobot against _dsdt itself
        d["AVAIL_TORQUE"] = [float(t) for t in g.AVAIL_TORQUE]
        assert g.book_or_nips == "book" and g.torque_noise_max == 0.0
    else:
        raise KeyError(env_name)
    return g, d


def float_params(d):
    o = FloatOps()
    return P(o, **{k: (v if not isinstance(v, list) else [Num(float(t), o) for t in v]) for k, v in d.items()})


def _fl(xs):
    o = FloatOps()
    return [Num(float(x), o) for x in xs]


def _close(a, b, tol=1e-9):
    a, b = np.asarray(a, dtype=np.float64), np.asarray(b, dtype=np.float64)
    with np.errstate(all="ignore"):
        return bool(np.all((a == b) | (np.abs(a - b) <= tol * (1 + np.abs(b)))))


def _check_initial(g, rng_seeds, lo_hi, ref_initial, p, get_state, detail):
    lo, hi = (np.asarray(v, dtype=np.float64) for v in lo_hi)
    obs = []
    for s in rng_seeds:
        g.reset(seed=int(s))
        obs.append(np.asarray(get_state(g), dtype=np.float64))
    obs = np.stack(obs)
    inside = bool(np.all(obs >= lo - 1e-12) and np.all(obs <= hi + 1e-12))
    width = hi - lo
    tight = bool(np.all(obs.min(0) <= lo + 0.03 * width + 1e-12) and np.all(obs.max(0) >= hi - 0.03 * width - 1e-12))
    # the reference's parametrisation by u in [0,1) spans exactly [lo, hi)
    n = len(lo)
    r0 = values(ref_initial(p, _fl([0.0] * n)))
    r1 = values(ref_initial(p, _fl([1.0] * n)))
    span = _close(r0, lo) and _close(r1, hi)
    if not (inside and tight and span):
        detail.append(f"initial range: inside={inside} tight={tight} span={span} min={obs.min(0)} max={obs.max(0)}")
    return inside and tight and span


def validate_cartpole(seed=0, n=300):
    g, d = gym_params("cartpole")
    p = float_params(d)
    rng = np.random.default_rng(seed)
    bad, detail = 0, []
    for _ in range(n):
        y = rng.uniform([-3.0, -3, -0.3, -3], [3.0, 3, 0.3, 3])
        a = int(rng.integers(2))
        g.reset(seed=0)
        g.state = np.array(y, dtype=np.float64)
        g.steps_beyond_terminated = None
        ob, rew, term, trunc, _ = g.step(a)
        y2g = np.asarray(g.state, dtype=np.float64)
        y2 = values(cartpole_step(p, _fl(y), a))
        f = values(cartpole_field(p, _fl(y), a))
        ok = _close(y2, y2g) and _close(f, (y2g - y) / d["tau"], 1e-6)
        ok = ok and bool(cartpole_terminal(p, _fl(y2g)).v) == bool(term) and float(cartpole_reward(p, _fl(y), a, _fl(y2g)).v) == float(rew) and not trunc
        ok = ok and _close(values(cartpole_limits(p, _fl(y2g))), y2g)
        if not ok:
            bad += 1
            detail.append(f"step mismatch at y={y.tolist()} a={a}: gym {y2g.tolist()} {rew} {term} ref {y2}")
    lo, hi = cartpole_obs_bounds(p)
    if not (_close(np.float32(values(lo)), g.observation_space.low, 0) and _close(np.float32(values(hi)), g.observation_space.high, 0)):
        bad += 1
        detail.append("observation-space bounds differ")
    if g.action_space.n != 2:
        bad += 1
    if not _check_initial(g, range(400), CARTPOLE_INITIAL_RANGE, cartpole_initial, p, lambda g: g.state, detail):
        bad += 1
    return bad == 0, f"{n} steps of the installed CartPoleEnv (state, vector field as (s'-s)/tau, reward, terminated), observation space, 400 resets; mismatches={bad} " + "; ".join(detail[:3])


def _validate_mc(name, n, seed):
    g, d = gym_params(name)
    p = float_params(d)
    cont = name == "continuous_mountain_car"
    field, step, limits, terminal, reward = ((cmc_field, cmc_gym_step, cmc_limits, cmc_terminal, cmc_reward) if cont else
                                             (mountaincar_field, mountaincar_gym_step, mountaincar_limits, mountaincar_terminal, mountaincar_reward))
    rng = np.random.default_rng(seed)
    bad, detail = 0, []
    goal_steps = 0
    for i in range(n):
        y = rng.uniform([-1.25, -0.075], [0.65, 0.075])
        if i % 3 == 0:
            y = rng.uniform([d["goal_position"] - 0.08, 0.0], [d["goal_position"] + 0.02, 0.07])    # around the goal
        if i % 7 == 0:
            y = np.array([d["min_position"] + rng.uniform(0, 0.02), -rng.uniform(0.0, 0.07)])             # at the left wall
        y = np.clip(y, [d["min_position"], -d["max_speed"]], [d["max_position"], d["max_speed"]])
        a = float(rng.uniform(-1, 1)) if cont else int(rng.integers(3))
        g.reset(seed=0)
        g.state = np.array(y, dtype=np.float64)
        ob, rew, term, trunc, _ = g.step(np.array([a], dtype=np.float64) if cont else a)
        y2g = np.asarray(ob, dtype=np.float64) if cont else np.asarray(g.state, dtype=np.float64)
        y2 = values(step(p, _fl(y), a))
        tol = 1e-6 if cont else 1e-9      # the continuous env stores its state as float32
        ok = _close(y2, y2g, tol)
        # the update is the semi-implicit Euler step (time step 1) of the vector field when no limit is active
        f = values(field(p, _fl(y), a))
        if abs(y[1] + f[1]) < d["max_speed"] and d["min_position"] < y[0] + y[1] + f[1] < d["max_position"]:
            ok = ok and _close([y[1] + f[1], y[0] + (y[1] + f[1])], [y2g[1], y2g[0]], tol) and f[0] == y[1]
        away = abs(y2[0] - d["goal_position"]) > 1e-5 and abs(y2[1] - d["goal_velocity"]) > 1e-7
        if away:
            ok = ok and bool(terminal(p, _fl(y2)).v) == bool(term)
            ok = ok and abs(float(reward(p, _fl(y), a, _fl(y2)).v) - float(rew)) < 1e-9
            goal_steps += bool(term)
        ok = ok and not trunc
        ok = ok and _close(values(limits(p, _fl(y2g))), y2g, tol)      # limits are idempotent on reachable states
        if not ok:
            bad += 1
            detail.append(f"step mismatch at y={y.tolist()} a={a}: gym {y2g.tolist()} {rew} {term} ref {y2}")
    if goal_steps == 0:
        bad += 1
        detail.append("no goal step among the validation transitions")
    lo, hi = (cmc_obs_bounds if cont else mountaincar_obs_bounds)(p)
    if not (_close(np.float32(values(lo)), g.observation_space.low, 0) and _close(np.float32(values(hi)), g.observation_space.high, 0)):
        bad += 1
        detail.append("observation-space bounds differ")
    if cont:
        alo, ahi = cmc_action_bounds(p)
        if not (float(g.action_space.low[0]) == alo.v and float(g.action_space.high[0]) == ahi.v):
            bad += 1
            detail.append("action-space bounds differ")
    elif g.action_space.n != 3:
        bad += 1
    if not _check_initial(g, range(400), MOUNTAINCAR_INITIAL_RANGE, mountaincar_initial, p, lambda g: g.state, detail):
        bad += 1
    return bad == 0, (f"{n} steps of the installed {type(g).__name__} (next state = semi-implicit Euler step of the vector field + limits, reward incl. {goal_steps} goal steps, "
                      f"terminated), observation/action space, 400 resets; mismatches={bad} " + "; ".join(detail[:3]))


def validate_mountain_car(seed=0, n=300):
    return _validate_mc("mountain_car", n, seed)


def validate_continuous_mountain_car(seed=0, n=300):
    return _validate_mc("continuous_mountain_car", n, seed)


def validate_acrobot(seed=0, n=200):
    from gymnasium.envs.classic_control import acrobot as gac
    g, d = gym_params("acrobot")
    p = float_params(d)
    rng = np.random.default_rng(seed)
    bad, detail = 0, []
    terms = 0
    for i in range(n):
        y = rng.uniform([-math.pi, -math.pi, -4 * math.pi, -9 * math.pi], [math.pi, math.pi, 4 * math.pi, 9 * math.pi])
        if i % 2:
            y[:2] = rng.uniform([2.6, -0.5], [3.6, 0.5])      # near upright: terminal successors
        a = int(rng.integers(3))
        tq = float(acrobot_torque(p, a, p.AVAIL_TORQUE).v)
        ok = tq == float(g.AVAIL_TORQUE[a])
        ds = np.asarray(g._dsdt(np.append(y, tq)), dtype=np.float64)
        f = values(acrobot_field(p, _fl(y), tq))
        ok = ok and _close(f, ds[:4], 1e-9) and ds[4] == 0.0
        g.reset(seed=0)
        g.state = np.array(y, dtype=np.float64)
        ob, rew, term, trunc, _ = g.step(a)
        y2g = np.asarray(g.state, dtype=np.float64)
        raw = values(rk4_step(lambda s: acrobot_field(p, s, tq), _fl(y), d["dt"]))
        ok = ok and bool(acrobot_limits_ok(p, _fl(raw), _fl(y2g)).v)
        wrong = np.array(y2g)
        wrong[i % 4] += 0.37
        ok = ok and not bool(acrobot_limits_ok(p, _fl(raw), _fl(wrong)).v)
        # the library's own wrap()/bound() on a raw value far outside
        far = rng.uniform(-40, 40, size=4)
        img = [gac.wrap(far[0], -math.pi, math.pi), gac.wrap(far[1], -math.pi, math.pi), gac.bound(far[2], -d["MAX_VEL_1"], d["MAX_VEL_1"]), gac.bound(far[3], -d["MAX_VEL_2"], d["MAX_VEL_2"])]
        ok = ok and bool(acrobot_limits_ok(p, _fl(far), _fl(img)).v)
        margin = abs(-math.cos(y2g[0]) - math.cos(y2g[1] + y2g[0]) - 1.0) > 1e-9
        if margin:
            ok = ok and bool(acrobot_terminal(p, _fl(y2g)).v) == bool(term) and float(acrobot_reward(p, _fl(y), a, _fl(y2g)).v) == float(rew)
            terms += bool(term)
        ok = ok and _close(values(acrobot_observation(p, _fl(y2g))), ob, 1e-6) and not trunc
        if not ok:
            bad += 1
            detail.append(f"mismatch at y={y.tolist()} a={a}: gym {y2g.tolist()} {rew} {term}")
    if terms == 0:
        bad += 1
        detail.append("no terminal step among the validation transitions")
    lo, hi = acrobot_obs_bounds(p)
    if not (_close(np.float32(values(lo)), g.observation_space.low, 0) and _close(np.float32(values(hi)), g.observation_space.high, 0)):
        bad += 1
        detail.append("observation-space bounds differ")
    if g.action_space.n != 3:
        bad += 1
    if not _check_initial(g, range(400), ACROBOT_INITIAL_RANGE, acrobot_initial, p, lambda g: g.state, detail):
        bad += 1
    return bad == 0, (f"{n} states: vector field vs the installed AcrobotEnv._dsdt, step = rk4 of it + wrap/bound limits, reward incl. {terms} terminal steps, terminated, "
                      f"observation; observation space; 400 resets; mismatches={bad} " + "; ".join(detail[:3]))


VALIDATORS = {"cartpole": validate_cartpole, "mountain_car": validate_mountain_car,
              "continuous_mountain_car": validate_continuous_mountain_car, "acrobot": validate_acrobot}
