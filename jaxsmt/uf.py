"""The `uf` JAX primitive: an uninterpreted function call inside real, traceable JAX code.

Symbolic use (default): `uf(name, out, *args)` binds a primitive with only an abstract-evaluation and a
batching rule; the interpreter maps it to z3 uninterpreted functions of all its operands.

Concrete use (replay / translator validation): inside `with world(W):` the same call becomes a
`jax.pure_callback` into `W.apply`, so the *real* lerax code (jit, vmap, scan, cond) runs in ordinary JAX
against a concrete interpretation of the uninterpreted functions — either a generic hash-like function
or the interpretation a solver model assigns.
"""
import contextlib
import hashlib

import jax
import jax.numpy as jnp
import numpy as np
from jax.core import ShapedArray
from jax.extend.core import Primitive
from jax.interpreters import batching

uf_p = Primitive("uf")
uf_p.multiple_results = True


def _abs(*args, name, out, nb):
    return [ShapedArray(tuple(s), np.dtype(d)) for s, d in out]


uf_p.def_abstract_eval(_abs)


def _batch(args, dims, *, name, out, nb):
    size = next(a.shape[d] for a, d in zip(args, dims) if d is not None)
    new = []
    for a, d in zip(args, dims):
        if d is None:
            a = jnp.broadcast_to(a, (size,) + a.shape)
        else:
            a = jnp.moveaxis(a, d, 0)
        new.append(a)
    out2 = tuple(((size,) + tuple(s), d) for s, d in out)
    res = uf_p.bind(*new, name=name, out=out2, nb=nb + 1)
    return res, [0] * len(res)


batching.primitive_batchers[uf_p] = _batch

# eager execution (jaxsmt.eager records the program of an EAGER call): only inside `with eager_world(W)`; anywhere else executing an unbound `uf` stays an error
_EAGER_WORLD = [None]


@contextlib.contextmanager
def eager_world(w):
    _EAGER_WORLD.append(w)
    try:
        yield w
    finally:
        _EAGER_WORLD.pop()


def _impl(*args, name, out, nb):
    w = _EAGER_WORLD[-1]
    if w is None:
        raise NotImplementedError(f"uninterpreted function {name} executed outside `with world(...)` / `with eager_world(...)`")
    keypos = tuple(_iskey(a) for a in args)
    ops = [np.asarray(jax.random.key_data(a)) if k else np.asarray(a) for a, k in zip(args, keypos)]
    if nb == 0:
        res = w.apply(name, out, ops, keypos, None)
    else:
        n = ops[0].shape[0]
        lane_out = tuple((tuple(s[1:]), d) for s, d in out)
        lanes = [w.apply(name, lane_out, [o[i] for o in ops], keypos, None) for i in range(n)]
        res = [np.stack([np.asarray(l[j]) for l in lanes]) for j in range(len(out))]
    return [jnp.asarray(np.asarray(r, dtype=np.dtype(d)).reshape(s)) for r, (s, d) in zip(res, out)]


uf_p.def_impl(_impl)

_WORLD = [None]


@contextlib.contextmanager
def world(w):
    _WORLD.append(w)
    try:
        yield w
    finally:
        _WORLD.pop()


def _iskey(a):
    return hasattr(a, "dtype") and jax.dtypes.issubdtype(a.dtype, jax.dtypes.prng_key)


def uf(name, out, *args, int_mod=None):
    """out: list of (shape, dtype); returns a list of arrays.  int_mod: modulus for integer outputs in
    concrete worlds (ignored symbolically, where integer outputs are unconstrained unless the harness
    adds a range assumption)."""
    args = [a if _iskey(a) else jnp.asarray(a) for a in args]
    out = tuple((tuple(int(x) for x in s), np.dtype(d).name) for s, d in out)
    w = _WORLD[-1]
    if w is None:
        return uf_p.bind(*args, name=name, out=out, nb=0)
    keypos = tuple(_iskey(a) for a in args)
    data = [jax.random.key_data(a) if k else a for a, k in zip(args, keypos)]
    shapes = [jax.ShapeDtypeStruct(s, np.dtype(d)) for s, d in out]

    def cb(*ops):
        res = w.apply(name, out, [np.asarray(o) for o in ops], keypos, int_mod)
        return [np.asarray(r, dtype=np.dtype(d)).reshape(s) for r, (s, d) in zip(res, out)]
    return list(jax.pure_callback(cb, shapes, *data, vmap_method="sequential"))


def _h(*parts):
    return int.from_bytes(hashlib.sha256("|".join(map(str, parts)).encode()).digest()[:8], "little")


class GenericWorld:
    """A generic total interpretation: every output element is a fixed pseudo-random smooth function of
    *all* operands, so different operands (or operands in a different order) give different results."""

    def __init__(self, seed=0, scale=2.0, p_true=0.35):
        self.seed = seed
        self.scale = scale
        self.p_true = p_true
        self.calls = []

    def _feat(self, ops, keypos):
        xs = []
        for o, k in zip(ops, keypos):
            o = np.asarray(o)
            if k:
                xs += [float(int(v) % 9973) / 9973.0 for v in o.reshape(-1).astype(np.uint64)]
            else:
                xs += [float(v) for v in o.reshape(-1).astype(np.float64)]
        return np.asarray(xs, dtype=np.float64)

    def element(self, name, oi, idx, x, dtype, int_mod):
        rng = np.random.default_rng(_h(self.seed, name, oi, idx) % (2 ** 32))
        w = rng.normal(size=x.shape[0] + 1)
        v = float(np.sin(3.0 * (w[:-1] @ x) + 7.0 * w[-1]))
        dtype = np.dtype(dtype)
        if dtype == np.bool_:
            return (v * 0.5 + 0.5) < self.p_true
        if np.issubdtype(dtype, np.integer):
            m = int_mod if int_mod else 3
            return int(abs(v) * 1e6) % m
        return np.float32(self.scale * v)

    def _rand(self, name, out, ops, keypos, x):
        """PRNG stubs: respect the documented contracts"""
        (s, d), = out
        rng = np.random.default_rng(_h(self.seed, name, x.tobytes()) % (2 ** 32))
        if name == "RAND_u01":
            return [rng.random(s).astype(np.float32) * np.float32(0.999)]
        if name == "RAND_normal":
            return [rng.normal(size=s).astype(np.float32)]
        if name == "RAND_exponential":
            return [rng.exponential(size=s).astype(np.float32)]
        if name == "RAND_gumbel":
            return [np.clip(rng.gumbel(size=s), -5, 90).astype(np.float32)]
        if name == "RAND_randint":
            lo, hi = np.asarray(ops[1]), np.asarray(ops[2])
            return [(lo + (rng.integers(0, 1 << 30, size=s) % np.maximum(hi - lo, 1))).astype(np.int32)]
        if name == "RAND_permutation":
            return [rng.permutation(s[0]).astype(np.int32)]
        if name.startswith("RAND_choice"):
            p = np.asarray(ops[1], dtype=np.float64)
            p = np.where(p > 0, p, 0)
            p = p / p.sum() if p.sum() > 0 else np.full(p.shape, 1.0 / p.shape[0])
            k = int(np.prod(s)) if s else 1
            repl = name.endswith("_repl") or int((p > 0).sum()) < k   # an infeasible request (more draws than support) falls back to replacement
            r = rng.choice(p.shape[0], size=k, replace=repl, p=p)
            return [np.asarray(r, dtype=np.int32).reshape(s)]
        return None

    def apply(self, name, out, ops, keypos, int_mod):
        x = self._feat(ops, keypos)
        if name.startswith("RAND_"):
            r = self._rand(name, out, ops, keypos, x)
            if r is not None:
                self.calls.append((name, [np.asarray(o).copy() for o in ops], r))
                return r
        res = []
        for oi, (s, d) in enumerate(out):
            a = np.empty(s, dtype=np.dtype(d))
            for idx in np.ndindex(*s):
                a[idx] = self.element(name, oi, idx, x, d, int_mod)
            res.append(a)
        self.calls.append((name, [np.asarray(o).copy() for o in ops], res))
        return res
