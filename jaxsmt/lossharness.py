"""Harness objects for the loss / TD-target properties (C07, C08).

* uninterpreted policies / critics (value obligations): real lerax subclasses whose methods bind `uf`;
* tabular policies / critics (gradient obligations): outputs are table look-ups of their parameters, so that JAX's own
  differentiation of the REAL loss yields a gradient jaxpr over the table entries;
* small helpers: finite-range integers encoded over booleans, concrete replay plumbing, float64 helpers.
"""
import math
from fractions import Fraction
from typing import ClassVar

import equinox as eqx
import jax
import jax.numpy as jnp
import numpy as np
import optax
import z3

from lerax.buffer import ReplayBuffer
from lerax.policy import AbstractActorCriticPolicy, AbstractQPolicy
from lerax.policy.sac import AbstractSACPolicy
from lerax.space import Box, Discrete

from . import concrete, solve
from .uf import uf, world


# ----------------------------------------------------------------------------- tabular actor-critic policy (C08)
class TabACPolicy(AbstractActorCriticPolicy):
    """observations are state indices; log-prob, value and entropy are separate parameter tables"""
    name: ClassVar[str] = "TabAC"
    action_space: Discrete
    observation_space: Discrete
    logp: jax.Array
    val: jax.Array
    ent: jax.Array

    def __init__(self, S, A):
        self.action_space = Discrete(A)
        self.observation_space = Discrete(S)
        self.logp = jnp.zeros((S, A))
        self.val = jnp.zeros(S)
        self.ent = jnp.zeros(S)

    def reset(self, *, key):
        return None

    def __call__(self, state, observation, *, key=None, action_mask=None):
        raise NotImplementedError

    def action_and_value(self, state, observation, *, key, action_mask=None):
        raise NotImplementedError

    def value(self, state, observation):
        return None, self.val[observation]

    def evaluate_action(self, state, observation, action, *, action_mask=None):
        return None, self.val[observation], self.logp[observation, action], self.ent[observation]


# ----------------------------------------------------------------------------- Q policies (C07, DQN)
_sg = jax.lax.stop_gradient


class UFQPolicy(AbstractQPolicy):
    """arbitrary Q-network: q_values = Q(theta, observation), an uninterpreted function (a constant for differentiation)"""
    name: ClassVar[str] = "UFQ"
    action_space: Discrete
    observation_space: Box
    epsilon: float
    theta: jax.Array
    tag: str = eqx.field(static=True)

    stateful: bool = eqx.field(static=True, default=False)

    def __init__(self, A, m=1, tag="Q", stateful=False):
        self.action_space = Discrete(A)
        self.observation_space = Box(-jnp.inf, jnp.inf, shape=(m,))
        self.epsilon = 0.0
        self.theta = jnp.zeros(())
        self.tag = tag
        self.stateful = stateful

    def reset(self, *, key):
        from .harness import UFPolState
        return UFPolState(jnp.zeros(1)) if self.stateful else None

    def q_values(self, state, observation):
        if self.stateful:
            # a recurrent Q-network: the values depend on the internal state the policy had when it saw the observation
            return state, uf(self.tag, [((self.action_space.n,), "float32")], _sg(self.theta), _sg(state.h), _sg(observation))[0]
        return None, uf(self.tag, [((self.action_space.n,), "float32")], _sg(self.theta), _sg(observation))[0]


class TabQPolicy(AbstractQPolicy):
    """tabular Q: observations are state indices, q_values = table[observation]"""
    name: ClassVar[str] = "TabQ"
    action_space: Discrete
    observation_space: Discrete
    epsilon: float
    table: jax.Array

    def __init__(self, S, A):
        self.action_space = Discrete(A)
        self.observation_space = Discrete(S)
        self.epsilon = 0.0
        self.table = jnp.zeros((S, A))

    def reset(self, *, key):
        return None

    def q_values(self, state, observation):
        return None, self.table[observation]


class Batch(ReplayBuffer):
    """`buffer.sample` cut: the buffer handed to the train step IS the (symbolic) batch"""

    def sample(self, batch_size, *, key):
        return self


# ----------------------------------------------------------------------------- SAC policies and critics (C07, SAC)
class UFSACPolicy(AbstractSACPolicy):
    """arbitrary SAC actor: (action, log-prob) = PI(theta, observation, key); a constant for differentiation"""
    name: ClassVar[str] = "UFSAC"
    action_space: Box
    observation_space: Box
    theta: jax.Array
    adim: int = eqx.field(static=True)

    def __init__(self, adim=1, m=1):
        self.action_space = Box(-1.0, 1.0, shape=(adim,))
        self.observation_space = Box(-jnp.inf, jnp.inf, shape=(m,))
        self.theta = jnp.zeros(())
        self.adim = adim

    def reset(self, *, key):
        return None

    def __call__(self, state, observation, *, key=None, action_mask=None):
        # the rest of the public policy API: other uninterpreted functions of the same operands (a key-less call is the mode, a keyed call a sample)
        if key is None:
            return None, uf("PI_mode", [((self.adim,), "float32")], _sg(self.theta), _sg(observation))[0]
        return None, uf("PI_sample", [((self.adim,), "float32")], _sg(self.theta), _sg(observation), key)[0]

    def action_distribution(self, state, observation):
        return None, _UFActionDist(self, observation)

    def action_and_log_prob(self, state, observation, *, key):
        a, lp = uf("PI", [((self.adim,), "float32"), ((), "float32")], _sg(self.theta), _sg(observation), key)
        return None, a, lp


class _UFActionDist:
    """the action distribution of a UFSACPolicy: every method an uninterpreted function of (theta, observation, argument)"""

    def __init__(self, pol, observation):
        self.pol, self.obs = pol, observation

    def mode(self):
        return uf("PI_mode", [((self.pol.adim,), "float32")], _sg(self.pol.theta), _sg(self.obs))[0]

    def sample(self, key):
        return uf("PI_sample", [((self.pol.adim,), "float32")], _sg(self.pol.theta), _sg(self.obs), key)[0]

    def log_prob(self, value):
        return uf("PI_logprob", [((self.pol.adim,), "float32")], _sg(self.pol.theta), _sg(self.obs), _sg(jnp.asarray(value)))[0]

    def sample_and_log_prob(self, key):
        a, lp = uf("PI", [((self.pol.adim,), "float32"), ((), "float32")], _sg(self.pol.theta), _sg(self.obs), key)
        return a, lp


class UFCritic(eqx.Module):
    """arbitrary critic with a differentiable output bias: Q(s, a) = b + F(theta, s, a), F uninterpreted (a constant
    for differentiation), so that dL/db = sum_i dL/dq_i is available for every critic"""
    theta: jax.Array
    b: jax.Array
    tag: str = eqx.field(static=True)

    def __init__(self, tag="Q"):
        self.theta = jnp.zeros(())
        self.b = jnp.zeros(())
        self.tag = tag

    def __call__(self, observation, action):
        return self.b + uf(self.tag, [((), "float32")], _sg(self.theta), _sg(observation.ravel()), _sg(action.ravel()))[0]


class TabSACPolicy(AbstractSACPolicy):
    """parametrised actor over a finite state set: the sampled action and its log-prob are table entries"""
    name: ClassVar[str] = "TabSAC"
    action_space: Box
    observation_space: Discrete
    act: jax.Array
    lp: jax.Array

    def __init__(self, S):
        self.action_space = Box(-jnp.inf, jnp.inf, shape=())
        self.observation_space = Discrete(S)
        self.act = jnp.zeros(S)
        self.lp = jnp.zeros(S)

    def reset(self, *, key):
        return None

    def __call__(self, state, observation, *, key=None, action_mask=None):
        raise NotImplementedError

    def action_distribution(self, state, observation):
        raise NotImplementedError

    def action_and_log_prob(self, state, observation, *, key):
        return None, self.act[observation], self.lp[observation]


class TabCritic(eqx.Module):
    """parametrised critic over a finite state set, affine in the action: Q(s, a) = w0[s] + w1[s] * a"""
    w0: jax.Array
    w1: jax.Array

    def __init__(self, S):
        self.w0 = jnp.zeros(S)
        self.w1 = jnp.zeros(S)

    def __call__(self, observation, action):
        return self.w0[observation] + self.w1[observation] * action


# ----------------------------------------------------------------------------- uninterpreted optimiser
def uf_optimizer(tag="OPT"):
    """an arbitrary gradient transformation: updates and new state are uninterpreted functions of
    (gradients, state, parameters) — used to show that a train step applies `self.optimizer.update`"""

    def init(params):
        leaves = jax.tree_util.tree_leaves(params)
        return {"s": jnp.zeros(())}

    def update(grads, state, params=None):
        gl, gdef = jax.tree_util.tree_flatten(grads)
        pl = jax.tree_util.tree_leaves(params) if params is not None else []
        outs = uf(tag, [(tuple(g.shape), "float32") for g in gl] + [((), "float32")], *gl, state["s"], *pl)
        return jax.tree_util.tree_unflatten(gdef, outs[:-1]), {"s": outs[-1]}

    return optax.GradientTransformation(init, update)


# ----------------------------------------------------------------------------- symbolic helpers
def bool_int(name, n):
    """an integer in [0, n) as an ite tree over fresh booleans (keeps nlsat queries free of integer variables)"""
    if n == 1:
        return z3.IntVal(0)
    t = z3.IntVal(n - 1)
    for v in range(n - 2, -1, -1):
        t = z3.If(z3.Bool(f"{name}_is{v}"), z3.IntVal(v), t)
    return t


def bool_int_arr(name, shape, n):
    out = np.empty(shape, dtype=object)
    for i in np.ndindex(*out.shape):
        out[i] = bool_int(name + "".join(f"_{j}" for j in i), n)
    return out


def pick(table, *idx):
    """table[idx...] for symbolic in-range indices, as an explicit ite chain written with python loops"""
    table = np.asarray(table, dtype=object)
    if not idx:
        return table[()]
    i, rest = idx[0], idx[1:]
    if not isinstance(i, z3.ExprRef):
        return pick(table[int(i)], *rest)
    r = pick(table[table.shape[0] - 1], *rest)
    for v in range(table.shape[0] - 2, -1, -1):
        r = z3.If(i == v, pick(table[v], *rest), r)
    return r


def zabs(x):
    return z3.If(x >= 0, x, -x)


def zmin(a, b):
    return z3.If(a <= b, a, b)


def zmax(a, b):
    return z3.If(a >= b, a, b)


def zclip(x, lo, hi):
    return z3.If(x < lo, lo, z3.If(x > hi, hi, x))


def within(xs, lo, hi):
    return [z3.And(x >= lo, x <= hi) for x in xs if isinstance(x, z3.ExprRef)]


def flat(*arrs):
    out = []
    for a in arrs:
        a = np.asarray(a, dtype=object)
        out += list(a.reshape(-1))
    return out


# ----------------------------------------------------------------------------- replay plumbing
class Replay:
    """concrete inputs of a traced function under a solver model, with the uninterpreted functions bound to the
    model's interpretation; inputs may be repaired (e.g. so that the true exp agrees with the model's value)"""

    def __init__(self, tr, S, res, uf_apps=()):
        self.tr, self.S, self.res = tr, S, res
        self.keys = concrete.KeyBinding(res)
        self.world = concrete.ModelWorld(res, uf_apps, self.keys)
        self.vals = {n: concrete.model_leaf(res, S[n], av, self.keys) for n, av in zip(tr.in_names, tr.in_avals)}

    def val(self, term):
        v = solve.num(self.res.value(term)) if isinstance(term, z3.ExprRef) else term
        if v is None:
            return math.nan
        return float(v)

    def set(self, name, arr):
        old = self.vals[name]
        self.vals[name] = jnp.asarray(np.asarray(arr), dtype=old.dtype).reshape(old.shape)

    def get(self, name):
        return np.asarray(self.vals[name], dtype=np.float64)

    def args(self):
        return concrete.rebuild_args(self.tr, [self.vals[n] for n in self.tr.in_names])

    def run(self):
        real = concrete.run_real(self.tr, [self.vals[n] for n in self.tr.in_names], self.world)
        return {n: np.asarray(concrete.real_to_float(x)) for n, x in zip(self.tr.out_names, real)}

    def call(self, fn, *a, **kw):
        """call harness code (e.g. a UF policy method) under the model's interpretation"""
        with world(self.world):
            out = fn(*a, **kw)
            out = jax.block_until_ready(out)
        return out

    def inputs_json(self):
        return {n: np.asarray(concrete.real_to_float(v) if hasattr(v, "dtype") else v).reshape(-1)[:16].tolist() for n, v in self.vals.items()}


def differs(got, want, rtol=2e-3, atol=2e-3):
    got, want = np.asarray(got, np.float64), np.asarray(want, np.float64)
    return bool(np.any(~np.isclose(got, want, rtol=rtol, atol=atol, equal_nan=True)))


def safe_log(x, default=0.0):
    return math.log(x) if (x is not None and x == x and x > 0) else default


# ----------------------------------------------------------------------------- scale-free comparisons (DESIGN 1.4b)
def sign_agree(G, R):
    """G is a descent direction for the residual R in scale-free form: G = 0 <=> R = 0, and they have the same sign"""
    return z3.And(z3.Implies(R > 0, G > 0), z3.Implies(R < 0, G < 0), z3.Implies(R == 0, G == 0))


def sign_agree_margin(G, R, big=Fraction(1, 4), small=Fraction(1, 100), tiny=Fraction(1, 1000)):
    return z3.And(z3.Implies(R > big, G > small), z3.Implies(R < -big, G < -small), z3.Implies(R == 0, zabs(G) <= tiny))


def agree_bad(G, R, big=0.2, small=1e-3, zero=1e-5, tiny=2e-3):
    """numeric (replay-time) refutation of sign_agree"""
    G, R = float(G), float(R)
    return (R > big and G <= small) or (R < -big and G >= -small) or (abs(R) <= zero and abs(G) > tiny)


def cross_bad(L, V, L2, V2, rtol=3e-3):
    """numeric refutation of 'L = c V and L2 = c V2 for one positive c'"""
    L, V, L2, V2 = float(L), float(V), float(L2), float(V2)
    cross = abs(L * V2 - L2 * V)
    scale = abs(L * V2) + abs(L2 * V) + 1e-6
    return cross > rtol * scale + 1e-5 or (V > 1e-2 and L <= 1e-6) or (V2 > 1e-2 and L2 <= 1e-6)


# ----------------------------------------------------------------------------- constants the statement leaves open
def _consts(ts):
    seen, out, stack = set(), {}, list(ts)
    while stack:
        x = stack.pop()
        if not isinstance(x, z3.ExprRef) or x.get_id() in seen:
            continue
        seen.add(x.get_id())
        if z3.is_const(x) and x.decl().kind() == z3.Z3_OP_UNINTERPRETED:
            out[x.get_id()] = x
        stack.extend(x.children())
    return list(out.values())


def identify_ratio(num, den, assumptions=(), seed=0, tries=12):
    """The statement fixes some quantities only up to a positive constant c (num = c * den for all inputs).  The constant
    is identified exactly from the two terms at one generic point: uninterpreted applications are Ackermannised, every
    free symbol gets a small rational (all congruence constraints and the assumptions must hold there), and
    c = num / den is computed in exact rational arithmetic.  The identity num == c * den is then PROVED for all inputs
    by the solver; identification alone decides nothing.  Returns (Fraction | None, description)."""
    import random
    ack = solve.Ackermann()
    n2, d2 = ack.walk(num), ack.walk(den)
    asm = [ack.walk(a) for a in assumptions if isinstance(a, z3.ExprRef)]
    cong = ack.congruence()
    cs = _consts([n2, d2] + asm + cong)
    rng = random.Random(seed + 12345)
    for _ in range(tries):
        sub = []
        used = set()
        for c in cs:
            if z3.is_bool(c):
                sub.append((c, z3.BoolVal(rng.random() < 0.5)))
            elif z3.is_int(c):
                sub.append((c, z3.IntVal(rng.randint(0, 3))))
            elif z3.is_real(c):
                while True:
                    v = Fraction(rng.randint(64, 640), 128)
                    if v not in used:
                        used.add(v)
                        break
                sub.append((c, z3.RealVal(v)))
        # the point must satisfy the assumptions and be consistent with functional congruence (constants of
        # uninterpreted sorts, e.g. PRNG keys, stay free here)
        chk = z3.Solver()
        chk.set("timeout", 10000)
        chk.add([z3.substitute(f, *sub) for f in asm + cong])
        if chk.check() != z3.sat:
            continue
        nv, dv = z3.simplify(z3.substitute(n2, *sub)), z3.simplify(z3.substitute(d2, *sub))
        if z3.is_rational_value(nv) and z3.is_rational_value(dv) and dv.as_fraction() != 0:
            c = Fraction(nv.as_fraction()) / Fraction(dv.as_fraction())
            return c, f"c = {c} identified at one generic point (exact rational evaluation of both terms)"
    return None, "no generic point found"
