"""XREAL mode: REAL mode extended with the IEEE special values (-inf, +inf, NaN).

Bit-precise FP32 (z3 FloatingPoint) is affordable for comparison/select code but not for soft-max pipelines
(measured: `Categorical(logits).mask(m).mode()` at K=3 needs 15-40 s, K=5 does not finish): proving that a sum of
exponentials is >= 1 at the bit level means proving monotonicity of the float adder.  This mode keeps what masking
questions are about — `where(mask, x, -inf)`, `-inf - finite = -inf`, `exp(-inf) = 0`, `inf - inf = NaN`,
`0 * inf = NaN`, `x / 0`, `log(0) = -inf`, `log(<0) = NaN`, comparisons with NaN are false, NaN-propagating max/min,
`argmax` picks the first NaN — and treats *finite* arithmetic exactly over the reals (no rounding, no overflow; stated
as outside the claim by the harnesses that use it).

An element is a REAL-mode element (finite by construction) or an `XV(nan, pinf, ninf, r)` whose flags are concrete
booleans or z3 Bool terms and whose `r` is the value when no flag is set.  Results whose flags are all concretely
False collapse back to plain REAL elements, so code that never touches a special value is interpreted as in REAL mode.
"""
import math
from fractions import Fraction

import numpy as np
import z3

from .interp import Interp
from .ops import INF, NAN, RealOps, Unsupported, isconc


class XV:
    __slots__ = ("nan", "pinf", "ninf", "r")

    def __init__(self, nan, pinf, ninf, r):
        self.nan, self.pinf, self.ninf, self.r = nan, pinf, ninf, r

    def __repr__(self):
        return f"XV(nan={self.nan}, +inf={self.pinf}, -inf={self.ninf}, r={self.r})"


def isX(x):
    return isinstance(x, XV)


def _spec(x):
    return isinstance(x, XV) or (isinstance(x, (float, np.floating)) and not math.isfinite(float(x)))


class XROps(RealOps):
    mode = "xreal"

    # ---- logic with folding (flags)
    def _or(self, *xs):
        r = False
        for x in xs:
            r = self.lor(r, x)
        return r

    def _and(self, *xs):
        r = True
        for x in xs:
            r = self.land(r, x)
        return r

    def _xor(self, a, b):
        if isconc(a) and isconc(b):
            return bool(a) != bool(b)
        if isconc(a):
            return self.lnot(b) if a else b
        if isconc(b):
            return self.lnot(a) if b else a
        return z3.Xor(a, b)

    def _bite(self, c, a, b):
        if isconc(c):
            return a if c else b
        if isconc(a) and isconc(b):
            if bool(a) == bool(b):
                return bool(a)
            return c if a else self.lnot(c)
        return self._or(self._and(c, a), self._and(self.lnot(c), b))

    # ---- views
    def toX(self, x):
        if isX(x):
            return x
        if isinstance(x, (float, np.floating)):
            f = float(x)
            if f != f:
                return XV(True, False, False, Fraction(0))
            if f == math.inf:
                return XV(False, True, False, Fraction(0))
            if f == -math.inf:
                return XV(False, False, True, Fraction(0))
            return XV(False, False, False, Fraction(f))
        return XV(False, False, False, x)

    def norm(self, v):
        if isconc(v.nan) and isconc(v.pinf) and isconc(v.ninf):
            if not (v.nan or v.pinf or v.ninf):
                return v.r
            if v.nan:
                return math.nan
            return math.inf if v.pinf else -math.inf
        return v

    def isnan(self, x):
        return self.toX(x).nan if _spec(x) else False

    def isinf(self, x):
        if not _spec(x):
            return False
        v = self.toX(x)
        return self._or(v.pinf, v.ninf)

    def isneginf(self, x):
        return self.toX(x).ninf if _spec(x) else False

    def isposinf(self, x):
        return self.toX(x).pinf if _spec(x) else False

    def fin(self, x):
        if not _spec(x):
            return True
        v = self.toX(x)
        return self.lnot(self._or(v.nan, v.pinf, v.ninf))

    def is_finite(self, x):
        return self.fin(x)

    def _zero(self, v):
        return self._and(self.fin(v), RealOps.eq(self, v.r, 0))

    def _negsign(self, v):
        return self._or(v.ninf, self._and(self.fin(v), RealOps.lt(self, v.r, 0)))

    def z(self, x):
        if _spec(x):
            v = self.toX(x)
            r = RealOps.zf(self, v.r)
            for flag, val in ((v.ninf, -INF), (v.pinf, INF), (v.nan, NAN)):
                if isconc(flag):
                    if flag:
                        r = val
                else:
                    r = z3.If(flag, val, r)
            return r
        return RealOps.z(self, x)

    # ---- arithmetic
    def add(self, x, y):
        if not (_spec(x) or _spec(y)):
            return RealOps.add(self, x, y)
        X, Y = self.toX(x), self.toX(y)
        nan = self._or(X.nan, Y.nan, self._and(X.pinf, Y.ninf), self._and(X.ninf, Y.pinf))
        nn = self.lnot(nan)
        return self.norm(XV(nan, self._and(nn, self._or(X.pinf, Y.pinf)), self._and(nn, self._or(X.ninf, Y.ninf)), RealOps.add(self, X.r, Y.r)))

    def neg(self, x):
        if not _spec(x):
            return RealOps.neg(self, x)
        X = self.toX(x)
        return self.norm(XV(X.nan, X.ninf, X.pinf, RealOps.neg(self, X.r)))

    def sub(self, x, y):
        if not (_spec(x) or _spec(y)):
            return RealOps.sub(self, x, y)
        return self.add(x, self.neg(y))

    def mul(self, x, y):
        if not (_spec(x) or _spec(y)):
            return RealOps.mul(self, x, y)
        X, Y = self.toX(x), self.toX(y)
        ix, iy = self._or(X.pinf, X.ninf), self._or(Y.pinf, Y.ninf)
        nan = self._or(X.nan, Y.nan, self._and(ix, self._zero(Y)), self._and(self._zero(X), iy))
        isinf = self._and(self.lnot(nan), self._or(ix, iy))
        negp = self._xor(self._negsign(X), self._negsign(Y))
        return self.norm(XV(nan, self._and(isinf, self.lnot(negp)), self._and(isinf, negp), RealOps.mul(self, X.r, Y.r)))

    def fdiv(self, x, y):
        if not (_spec(x) or _spec(y)) and isconc(y) and (y != 0 or isconc(x)):
            return RealOps.fdiv(self, x, y)      # finite / non-zero constant (constant / 0 folds to inf or nan)
        X, Y = self.toX(x), self.toX(y)
        ix, iy = self._or(X.pinf, X.ninf), self._or(Y.pinf, Y.ninf)
        zx, zy = self._zero(X), self._zero(Y)
        nan = self._or(X.nan, Y.nan, self._and(ix, iy), self._and(zx, zy))
        isinf = self._and(self.lnot(nan), self._or(ix, zy))
        negp = self._xor(self._negsign(X), self._negsign(Y))
        degenerate = self._or(iy, zy)
        if isconc(degenerate):
            r = Fraction(0) if degenerate else RealOps.fdiv(self, X.r, Y.r)
        else:
            r = RealOps.ite(self, degenerate, Fraction(0), RealOps.fdiv(self, X.r, Y.r))
        return self.norm(XV(nan, self._and(isinf, self.lnot(negp)), self._and(isinf, negp), r))

    # ---- comparisons
    def lt(self, x, y):
        if not (_spec(x) or _spec(y)):
            return RealOps.lt(self, x, y)
        X, Y = self.toX(x), self.toX(y)
        fin = self._and(self.fin(X), self.fin(Y), RealOps.lt(self, X.r, Y.r))
        return self._and(self.lnot(X.nan), self.lnot(Y.nan),
                         self._or(self._and(X.ninf, self.lnot(Y.ninf)), self._and(Y.pinf, self.lnot(X.pinf)), fin))

    def le(self, x, y):
        if not (_spec(x) or _spec(y)):
            return RealOps.le(self, x, y)
        X, Y = self.toX(x), self.toX(y)
        fin = self._and(self.fin(X), self.fin(Y), RealOps.le(self, X.r, Y.r))
        return self._and(self.lnot(X.nan), self.lnot(Y.nan), self._or(X.ninf, Y.pinf, fin))

    def eq(self, x, y):
        if not (_spec(x) or _spec(y)):
            return RealOps.eq(self, x, y)
        X, Y = self.toX(x), self.toX(y)
        fin = self._and(self.fin(X), self.fin(Y), RealOps.eq(self, X.r, Y.r))
        return self._and(self.lnot(X.nan), self.lnot(Y.nan), self._or(self._and(X.pinf, Y.pinf), self._and(X.ninf, Y.ninf), fin))

    def ite(self, c, t, f):
        if isconc(c):
            return t if c else f
        if not (_spec(t) or _spec(f)):
            return RealOps.ite(self, c, t, f)
        T, F = self.toX(t), self.toX(f)
        return self.norm(XV(self._bite(c, T.nan, F.nan), self._bite(c, T.pinf, F.pinf), self._bite(c, T.ninf, F.ninf), RealOps.ite(self, c, T.r, F.r)))

    def _pick(self, x, y, c):
        """lax.max / lax.min: NaN-propagating; otherwise `x if c else y`"""
        X, Y = self.toX(x), self.toX(y)
        nan = self._or(X.nan, Y.nan)
        nn = self.lnot(nan)
        if isconc(c):
            P = X if c else Y
            return self.norm(XV(nan, self._and(nn, P.pinf), self._and(nn, P.ninf), P.r))
        return self.norm(XV(nan, self._and(nn, self._bite(c, X.pinf, Y.pinf)), self._and(nn, self._bite(c, X.ninf, Y.ninf)), RealOps.ite(self, c, X.r, Y.r)))

    def max(self, x, y):
        if not (_spec(x) or _spec(y)):
            return RealOps.max(self, x, y)
        return self._pick(x, y, self.le(y, x))

    def min(self, x, y):
        if not (_spec(x) or _spec(y)):
            return RealOps.min(self, x, y)
        return self._pick(x, y, self.le(x, y))

    def abs(self, x):
        if not _spec(x):
            return RealOps.abs(self, x)
        X = self.toX(x)
        return self.norm(XV(X.nan, self._or(X.pinf, X.ninf), False, RealOps.abs(self, X.r)))

    def sign(self, x, isint):
        if not _spec(x):
            return RealOps.sign(self, x, isint)
        X = self.toX(x)
        r = RealOps.sign(self, X.r, False)
        r = RealOps.ite(self, X.pinf, Fraction(1), RealOps.ite(self, X.ninf, Fraction(-1), r))
        return self.norm(XV(X.nan, False, False, r))

    def _rwise(self, f, x):
        X = self.toX(x)
        return self.norm(XV(X.nan, X.pinf, X.ninf, f(X.r)))

    def floor(self, x):
        return self._rwise(lambda r: RealOps.floor(self, r), x) if _spec(x) else RealOps.floor(self, x)

    def ceil(self, x):
        return self._rwise(lambda r: RealOps.ceil(self, r), x) if _spec(x) else RealOps.ceil(self, x)

    def round(self, x, to_even):
        return self._rwise(lambda r: RealOps.round(self, r, to_even), x) if _spec(x) else RealOps.round(self, x, to_even)

    def f2i(self, x):
        return RealOps.f2i(self, self.toX(x).r if _spec(x) else x)

    def n2b(self, x):
        return self.lnot(self.eq(x, 0)) if _spec(x) else RealOps.n2b(self, x)

    def frem(self, x, y):
        if _spec(x) or _spec(y):
            raise Unsupported("xreal rem of a special value")
        return RealOps.frem(self, x, y)

    # ---- transcendentals (finite part: the same uninterpreted functions as REAL mode)
    def unary(self, name, x):
        if not _spec(x) and isconc(x) and (name not in ("log", "log1p") or x > (0 if name == "log" else -1)):
            return RealOps.unary(self, name, x)
        X = self.toX(x)
        fin = self.fin(X)
        u = lambda r: RealOps.unary(self, name, r)
        ite = lambda c, a, b: RealOps.ite(self, c, a, b)
        if name == "exp":
            body = u(X.r)
            if getattr(self, "exp_underflow_below", None) is not None:
                # float32 fact: exp(x) rounds to 0 for x <= -105 (exp(-105) = 2.5e-46 is below half the smallest subnormal); modelling it lets
                # the selection obligations see probability-space masking / renormalisation that divides 0 by 0 when all allowed logits underflow
                body = ite(RealOps.le(self, X.r, self.exp_underflow_below), Fraction(0), body)
            return self.norm(XV(X.nan, X.pinf, False, ite(X.ninf, Fraction(0), body)))
        if name in ("log", "log1p"):
            arg = X.r if name == "log" else RealOps.add(self, Fraction(1), X.r)
            neg = self._and(fin, RealOps.lt(self, arg, 0))
            zero = self._and(fin, RealOps.eq(self, arg, 0))
            return self.norm(XV(self._or(X.nan, X.ninf, neg), X.pinf, zero, u(X.r)))
        if name == "logistic":
            return self.norm(XV(X.nan, False, False, ite(X.ninf, Fraction(0), ite(X.pinf, Fraction(1), u(X.r)))))
        if name == "tanh":
            return self.norm(XV(X.nan, False, False, ite(X.ninf, Fraction(-1), ite(X.pinf, Fraction(1), u(X.r)))))
        if name == "sqrt":
            neg = self._and(fin, RealOps.lt(self, X.r, 0))
            return self.norm(XV(self._or(X.nan, X.ninf, neg), X.pinf, False, u(X.r)))
        if not _spec(x):
            return u(x)
        raise Unsupported(f"xreal: {name} of a possibly non-finite value")

    def binary(self, name, x, y):
        if _spec(x) or _spec(y):
            raise Unsupported(f"xreal: {name} of a possibly non-finite value")
        return RealOps.binary(self, name, x, y)


class XRInterp(Interp):
    """REAL-mode interpreter with IEEE special values"""

    def __init__(self, exp_underflow=False, **kw):
        super().__init__(mode="real", **kw)
        self.o = XROps()
        self.o.fold_transcendentals = kw.get("fold_transcendentals", False)
        self.o.exp_underflow_below = Fraction(-105) if exp_underflow else None


def div_axioms(formulas):
    """valid facts about the real quotients that occur in a query (help the linear solver with `probs >= 0`):
    d > 0 and n >= 0  =>  n/d >= 0 ;   d > 0 and 0 <= n <= d  =>  n/d <= 1"""
    seen, out = set(), []
    stack = [f for f in formulas if isinstance(f, z3.ExprRef)]
    while stack:
        t = stack.pop()
        if t.get_id() in seen:
            continue
        seen.add(t.get_id())
        if z3.is_app(t):
            if z3.is_app_of(t, z3.Z3_OP_DIV) and not z3.is_rational_value(t.arg(1)):
                n, d = t.arg(0), t.arg(1)
                out.append(z3.Implies(z3.And(d > 0, n >= 0), t >= 0))
                out.append(z3.Implies(z3.And(d > 0, n >= 0, n <= d), t <= 1))
            stack.extend(t.children())
    return out
