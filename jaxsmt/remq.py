"""REAL-mode float remainder with a named integer quotient.

`Interp` encodes C fmod as x - y*trunc(x/y) with ToInt, which z3 cannot relate to a second integrality statement over
unbounded reals.  `RemInterp` introduces, for a remainder by a positive *constant* divisor, a fresh integer k with its
defining constraint (k = trunc(x/c); recorded in `self.assumptions`, to be added to the query) and returns x - c*k.
This is a definitional extension (k exists and is unique), so it changes no meaning; `self.quotients` lists the k's so
that an oracle of the form "differs from the input by an integer multiple of c" can name its witness.
"""
import z3

from .interp import Interp, emap
from .ops import isconc


class RemInterp(Interp):
    def __init__(self, *a, **kw):
        super().__init__(*a, **kw)
        self.quotients = []

    def p_rem(self, e, a, b):
        if self._isint(e) or self.mode != "real":
            return Interp.p_rem(self, e, a, b)

        def f(x, c):
            if isconc(x) or not isconc(c) or isinstance(c, float) or c <= 0:
                return self.o.frem(x, c)
            k = z3.FreshInt("remq")
            q = self.o.zf(x) / self.o.z(c)
            kr = z3.ToReal(k)
            self.assumptions.append(z3.If(q >= 0, z3.And(kr <= q, q < kr + 1), z3.And(kr - 1 < q, q <= kr)))
            self.quotients.append(k)
            return self.o.sub(x, self.o.mul(c, kr))
        return emap(f, a, b)


class FPRemInterp(Interp):
    """FP32 mode with float remainder as an uninterpreted function `rem_f32(x, c)` constrained by the IEEE fmod facts that
    matter for range questions: for finite x and finite non-zero c the result is finite (not NaN) and |r| < |c|
    (recorded in `self.assumptions`).  Nothing else about the remainder is assumed."""

    def __init__(self, *a, **kw):
        kw.setdefault("mode", "fp32")
        super().__init__(*a, **kw)

    def p_rem(self, e, a, b):
        if self._isint(e):
            return Interp.p_rem(self, e, a, b)
        from .ops import F32, UFun

        def f(x, c):
            if isconc(x) and isconc(c):
                import numpy as np
                with np.errstate(all="ignore"):
                    return np.float32(np.fmod(np.float32(x), np.float32(c)))
            zx, zc = self.o.zf(x), self.o.zf(c)
            r = UFun("rem_f32", [F32, F32], F32)(zx, zc)
            fin = lambda t: z3.And(z3.Not(z3.fpIsNaN(t)), z3.Not(z3.fpIsInf(t)))
            self.assumptions.append(z3.Implies(z3.And(fin(zx), fin(zc), z3.Not(z3.fpIsZero(zc))),
                                               z3.And(fin(r), z3.fpLT(z3.fpAbs(r), z3.fpAbs(zc)))))
            return r
        return emap(f, a, b)
