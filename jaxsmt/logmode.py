"""LOG mode: a multiplicative abstract domain for soft-max / log-density code (DESIGN §1.2).

On top of the REAL-mode elements (concrete Python numbers, z3 terms) two more element kinds exist:

* `Frac(c, num, den)` — the real number  c * prod(num) / prod(den)  (c a Fraction, atoms are z3 real terms), kept in a
  fraction normal form: identical atoms of numerator and denominator cancel syntactically, sums over a common
  denominator are folded into one numerator atom, `max`/`ite` over a common denominator are pushed into the numerator.
* `LogVal(a, P)` — the value  a + log(P)  with `a` a plain element (usually the concrete 0) and `P` a Frac that denotes a
  finite non-negative real (`P = 0` is `-inf`, which is how `where(mask, x, -inf)` is represented exactly).

`exp(a + log P) = EXP(a)*P`, `log(F) = LogVal(0, F)`, `(a+log P) -/+ (b+log Q) = (a-/+b) + log(P / * Q)`, `max`, comparisons,
`logistic`, `log1p`, `logaddexp` (hence `softplus`) are interpreted exactly in this domain, so log_softmax / softmax /
logsumexp / sigmoid-bijector jaxprs become rational functions of positive variables and the properties become NRA
facts.  What the domain cannot express (`p * log p`, `(log u - loc)/scale`) is *lowered*: `a + log(P)` becomes the plain
term `a + log(P.term())` with `log` the same uninterpreted function REAL mode uses.

Every step that is only valid under a side condition (cancelling an atom needs atom != 0, log needs a non-negative
argument, a comparison through a common denominator needs the denominator positive, ...) records that condition in
`interp.side_conditions`; the harness must discharge them together with the goal (`LogInterp.side_conds()`).
"""
import math
from fractions import Fraction

import numpy as np
import z3

from .interp import Interp, emap
from .ops import RealOps, UFun, Unsupported, isconc

R = z3.RealSort()
EXP = UFun("exp", [R], R)
LOG = UFun("log", [R], R)


def _isnum(x):
    return isinstance(x, (int, Fraction, np.integer)) and not isinstance(x, (bool, np.bool_))


def _rv(c):
    return z3.RealVal(Fraction(c))


def _prod(atoms):
    t = None
    for a in atoms:
        t = a if t is None else t * a
    return t


class Frac:
    """c * prod(num) / prod(den)"""
    __slots__ = ("c", "num", "den")

    def __init__(self, c, num=(), den=()):
        self.c = Fraction(c)
        if self.c == 0:
            num, den = (), ()
        self.num = tuple(num)
        self.den = tuple(den)

    # ---- views
    def is_const(self):
        return not self.num and not self.den

    def numterm(self):
        """numerator including the coefficient, as a z3 term"""
        p = _prod(self.num)
        if p is None:
            return _rv(self.c)
        return p if self.c == 1 else _rv(self.c) * p

    def denterm(self):
        p = _prod(self.den)
        return _rv(1) if p is None else p

    def term(self):
        n = self.numterm()
        return n / self.denterm() if self.den else n

    def elem(self):
        """as a REAL-mode element (concrete Fraction when constant)"""
        return self.c if self.is_const() else self.term()

    def samden(self, o):
        if len(self.den) != len(o.den):
            return False
        rest = list(o.den)
        for a in self.den:
            for k, b in enumerate(rest):
                if a.eq(b):
                    del rest[k]
                    break
            else:
                return False
        return True

    def same(self, o):
        return self.c == o.c and len(self.num) == len(o.num) and self.samden(o) and Frac(1, (), self.num).samden(Frac(1, (), o.num))

    def __repr__(self):
        return f"Frac({self.c} * {list(self.num)} / {list(self.den)})"


class LogVal:
    """a + log(P)"""
    __slots__ = ("a", "P")

    def __init__(self, a, P):
        self.a = a
        self.P = P

    def __repr__(self):
        return f"({self.a} + log {self.P})"


def isF(x):
    return isinstance(x, Frac)


def isL(x):
    return isinstance(x, LogVal)


def special(x):
    return isinstance(x, (Frac, LogVal))


def _neginf(x):
    return isinstance(x, (float, np.floating)) and x == -math.inf


def _posinf(x):
    return isinstance(x, (float, np.floating)) and x == math.inf


def _same_plain(a, b):
    if isconc(a) and isconc(b):
        return type(a) is not float and type(b) is not float and a == b
    if isconc(a) or isconc(b):
        return False
    return a.eq(b)


class LogOps(RealOps):
    mode = "log"

    def __init__(self, interp):
        self.it = interp

    # ------------------------------------------------------------ helpers
    def cond(self, c, why=""):
        if isconc(c):
            if not c:
                raise Unsupported(f"LOG mode side condition is false: {why}")
            return
        self.it.side_conditions.append(c)

    def mk(self, c, num, den):
        """Frac with syntactic cancellation (side condition: every cancelled atom is non-zero)"""
        num, den = list(num), list(den)
        if Fraction(c) == 0:
            return Frac(0)
        for a in list(num):
            for b in den:
                if a.eq(b):
                    num.remove(a)
                    den.remove(b)
                    self.cond(a != 0, "cancelled atom")
                    break
        return Frac(c, num, den)

    def toF(self, x):
        if isF(x):
            return x
        if isL(x):
            return self.toF(self.lower(x))
        if isconc(x):
            if isinstance(x, (bool, np.bool_)):
                x = int(x)
            if isinstance(x, (float, np.floating)):
                raise Unsupported(f"LOG mode: non-finite constant {x} used as a plain real")
            return Frac(Fraction(x))
        if z3.is_int(x):
            x = z3.ToReal(x)
        if z3.is_rational_value(x):
            return Frac(x.as_fraction())
        return Frac(1, (x,))

    def toL(self, x):
        if isL(x):
            return x
        if _neginf(x):
            return LogVal(0, Frac(0))
        if _posinf(x) or (isinstance(x, float) and x != x):
            raise Unsupported("LOG mode: +inf / nan in the log domain")
        if isF(x):
            return LogVal(self.lower(x), Frac(1))
        return LogVal(x, Frac(1))

    def lower(self, x):
        """plain REAL-mode element denoting the same value"""
        if isF(x):
            if x.den:
                self.cond(x.denterm() != 0, "denominator of a lowered fraction")
            return x.elem()
        if isL(x):
            P = x.P
            if P.c == 0:
                return -math.inf
            if P.is_const():
                lg = Fraction(0) if P.c == 1 else LOG(_rv(P.c))
            elif P.c == 1 and not P.den and len(P.num) == 1 and z3.is_app(P.num[0]) and P.num[0].decl().name() == "exp" and P.num[0].num_args() == 1:
                lg = P.num[0].arg(0)          # log(exp(t)) = t
            else:
                if P.den:
                    self.cond(P.denterm() != 0, "denominator under a lowered log")
                lg = LOG(P.term())
            return RealOps.add(self, x.a, lg)
        return x

    def fadd(self, F, G):
        """sum of two Fracs, common denominators kept"""
        if F.c == 0:
            return G
        if G.c == 0:
            return F
        if F.is_const() and G.is_const():
            return Frac(F.c + G.c)
        if F.samden(G):
            if G.is_const():
                F, G = G, F          # constants first so that 1 + t is built the same way everywhere
            return self.mk(1, (F.numterm() + G.numterm(),), F.den)
        if not F.den or not G.den:
            if not G.den:
                F, G = G, F          # F has no denominator:  F + n/d = (F*d + n)/d
            fd = G.denterm() if (F.is_const() and F.c == 1) else F.numterm() * G.denterm()
            return self.mk(1, (fd + G.numterm(),), G.den)
        return self.mk(1, (F.numterm() * G.denterm() + G.numterm() * F.denterm(),), F.den + G.den)

    def fmul(self, F, G):
        return self.mk(F.c * G.c, F.num + G.num, F.den + G.den)

    def finv(self, F, why="division"):
        if F.c == 0:
            raise Unsupported("LOG mode: division by the constant 0")
        if F.num:
            self.cond(F.numterm() != 0, why)
        return Frac(1 / F.c, F.den, F.num)

    def fite(self, c, F, G):
        if F.same(G):
            return F
        if F.is_const() and G.is_const():
            return Frac(1, (z3.If(c, _rv(F.c), _rv(G.c)),))
        if F.samden(G):
            return Frac(1, (z3.If(c, F.numterm(), G.numterm()),), F.den)
        if G.c == 0:
            return Frac(1, (z3.If(c, F.numterm(), _rv(0)),), F.den)
        if F.c == 0:
            return Frac(1, (z3.If(c, _rv(0), G.numterm()),), G.den)
        self._denpos(F)
        self._denpos(G)
        return Frac(1, (z3.If(c, F.term(), G.term()),))

    def _denpos(self, F):
        if F.den:
            self.cond(F.denterm() != 0, "denominator")

    def fcmp(self, F, G, op):
        """compare two Fracs; through the numerators when the denominators agree (side condition: denominator > 0)"""
        if F.is_const() and G.is_const():
            return bool(op(F.c, G.c))
        if F.samden(G):
            if F.den:
                self.cond(F.denterm() > 0, "common denominator of a comparison")
            return op(F.numterm(), G.numterm())
        if G.c == 0 or F.c == 0:
            H = F if G.c == 0 else G
            if H.den:
                self.cond(H.denterm() > 0, "denominator of a comparison with 0")
            return op(F.numterm(), _rv(0)) if G.c == 0 else op(_rv(0), G.numterm())
        self._denpos(F)
        self._denpos(G)
        return op(F.term(), G.term())

    def fmax(self, F, G, ge=True):
        c = self.fcmp(F, G, (lambda a, b: a >= b) if ge else (lambda a, b: a <= b))
        if isconc(c):
            return F if c else G
        return self.fite(c, F, G)

    def _expF(self, L):
        """exp(a + log P) as a Frac"""
        a, P = L.a, L.P
        if isconc(a):
            if _neginf(a):
                return Frac(0)
            if a == 0:
                return P
            at = _rv(a)
        else:
            at = z3.ToReal(a) if z3.is_int(a) else a
            if z3.is_app_of(at, z3.Z3_OP_UMINUS):
                return self.fmul(Frac(1, (), (EXP(at.arg(0)),)), P)      # e^(-t) = 1/e^t  (e^t > 0)
        return self.fmul(Frac(1, (EXP(at),)), P)

    # ------------------------------------------------------------ arithmetic
    def add(self, x, y):
        if not (special(x) or special(y)):
            return RealOps.add(self, x, y)
        if isL(x) or isL(y):
            if _neginf(x) or _neginf(y):
                return LogVal(0, Frac(0))
            x, y = self.toL(x), self.toL(y)
            return LogVal(RealOps.add(self, x.a, y.a), self.fmul(x.P, y.P))
        F = self.fadd(self.toF(x), self.toF(y))
        return F

    def neg(self, x):
        if isL(x):
            return LogVal(RealOps.neg(self, x.a) if not (isconc(x.a) and x.a == 0) else 0, self.finv(x.P, "negated log needs a positive argument"))
        if isF(x):
            return Frac(-x.c, x.num, x.den)
        return RealOps.neg(self, x)

    def sub(self, x, y):
        if not (special(x) or special(y)):
            return RealOps.sub(self, x, y)
        if isL(y) and y.P.c == 0:
            raise Unsupported("LOG mode: x - (-inf)")
        if _neginf(y):
            raise Unsupported("LOG mode: x - (-inf)")
        return self.add(x, self.neg(y) if special(y) else RealOps.neg(self, y))

    def mul(self, x, y):
        if not (special(x) or special(y)):
            return RealOps.mul(self, x, y)
        for a, b in ((x, y), (y, x)):
            if isL(a) and isconc(b) and not isinstance(b, float):
                if b == 1:
                    return a
                if b == -1:
                    return self.neg(a)
                if b == 0:
                    # 0 * log(P) is 0 unless P = 0 (0 * -inf = nan)
                    if a.P.c == 0:
                        return math.nan
                    if a.P.is_const():
                        return Fraction(0)
                    return RealOps.ite(self, a.P.numterm() == 0, math.nan, Fraction(0))
        if isL(x):
            x = self.lower(x)
        if isL(y):
            y = self.lower(y)
        if isinstance(x, float) or isinstance(y, float):
            raise Unsupported("LOG mode: product with a non-finite constant")
        return self.fmul(self.toF(x), self.toF(y))

    def fdiv(self, x, y):
        if not (special(x) or special(y)) and isconc(x) and isconc(y):
            return RealOps.fdiv(self, x, y)
        if isL(x):
            x = self.lower(x)
        if isL(y):
            y = self.lower(y)
        if isinstance(x, float) or isinstance(y, float):
            raise Unsupported("LOG mode: quotient with a non-finite constant")
        return self.fmul(self.toF(x), self.finv(self.toF(y)))

    # ------------------------------------------------------------ comparisons / selection
    def _cmp(self, x, y, op, rop):
        if not (special(x) or special(y)):
            return None
        if x is y:
            return bool(op(0, 0))
        if _posinf(x) or _posinf(y):
            # Frac / LogVal elements are finite or -inf: compare with +inf by order alone
            return bool(op(1, 1)) if (_posinf(x) and _posinf(y)) else bool(op(1, 0) if _posinf(x) else op(0, 1))
        if isL(x) or isL(y):
            if _neginf(x) or _neginf(y) or (_same_plain(self.toL(x).a, self.toL(y).a)):
                x, y = self.toL(x), self.toL(y)
                return self.fcmp(x.P, y.P, op)
            x, y = self.lower(x), self.lower(y)
            return rop(x, y)
        return self.fcmp(self.toF(x), self.toF(y), op)

    def lt(self, x, y):
        r = self._cmp(x, y, lambda a, b: a < b, lambda a, b: RealOps.lt(self, a, b))
        return RealOps.lt(self, x, y) if r is None else r

    def le(self, x, y):
        r = self._cmp(x, y, lambda a, b: a <= b, lambda a, b: RealOps.le(self, a, b))
        return RealOps.le(self, x, y) if r is None else r

    def eq(self, x, y):
        r = self._cmp(x, y, lambda a, b: a == b, lambda a, b: RealOps.eq(self, a, b))
        return RealOps.eq(self, x, y) if r is None else r

    def gt(self, x, y):
        return self.lt(y, x)

    def ge(self, x, y):
        return self.le(y, x)

    def ite(self, c, t, f):
        if isconc(c):
            return t if c else f
        if not (special(t) or special(f)):
            return RealOps.ite(self, c, t, f)     # (plain term vs -inf: RealOps' symbolic INF)
        if isL(t) or isL(f):
            if isL(t) and isL(f) or _neginf(t) or _neginf(f):
                t2, f2 = self.toL(t), self.toL(f)
                if t2.P.c == 0 and not _same_plain(t2.a, f2.a):
                    t2 = LogVal(f2.a, t2.P)
                if f2.P.c == 0 and not _same_plain(t2.a, f2.a):
                    f2 = LogVal(t2.a, f2.P)
                if _same_plain(t2.a, f2.a):
                    return LogVal(t2.a, self.fite(c, t2.P, f2.P))
            return RealOps.ite(self, c, self.lower(t), self.lower(f))
        return self.fite(c, self.toF(t), self.toF(f))

    def max(self, x, y):
        if not (special(x) or special(y)):
            return RealOps.max(self, x, y)
        if _neginf(x):
            return y
        if _neginf(y):
            return x
        if isL(x) or isL(y):
            x2, y2 = self.toL(x), self.toL(y)
            if _same_plain(x2.a, y2.a):
                return LogVal(x2.a, self.fmax(x2.P, y2.P))
            return RealOps.max(self, self.lower(x), self.lower(y))
        return self.fmax(self.toF(x), self.toF(y))

    def min(self, x, y):
        if not (special(x) or special(y)):
            return RealOps.min(self, x, y)
        if _posinf(x):
            return y
        if _posinf(y):
            return x
        if isL(x) or isL(y):
            if _neginf(x) or _neginf(y):
                return -math.inf
            x2, y2 = self.toL(x), self.toL(y)
            if _same_plain(x2.a, y2.a):
                return LogVal(x2.a, self.fmax(x2.P, y2.P, ge=False))
            return RealOps.min(self, self.lower(x), self.lower(y))
        return self.fmax(self.toF(x), self.toF(y), ge=False)

    def abs(self, x):
        if special(x):
            x = self.lower(x)
        return RealOps.abs(self, x)

    def sign(self, x, isint):
        return RealOps.sign(self, self.lower(x) if special(x) else x, isint)

    def floor(self, x):
        return RealOps.floor(self, self.lower(x) if special(x) else x)

    def ceil(self, x):
        return RealOps.ceil(self, self.lower(x) if special(x) else x)

    def round(self, x, to_even):
        return RealOps.round(self, self.lower(x) if special(x) else x, to_even)

    def f2i(self, x):
        return RealOps.f2i(self, self.lower(x) if special(x) else x)

    def n2b(self, x):
        if isF(x):
            return self.lnot(self.eq(x, Fraction(0)))
        return RealOps.n2b(self, self.lower(x) if special(x) else x)

    def is_finite(self, x):
        if isL(x):
            if x.P.c == 0:
                return False
            return True if x.P.is_const() else x.P.numterm() != 0
        if isF(x):
            return True
        return RealOps.is_finite(self, x)

    def z(self, x):
        if special(x):
            x = self.lower(x)
        return RealOps.z(self, x)

    # ------------------------------------------------------------ transcendentals
    def exp(self, x):
        if isL(x):
            return self._expF(x)
        if isF(x):
            x = self.lower(x)
        if isconc(x):
            if _neginf(x):
                return Fraction(0)
            if isinstance(x, float):
                raise Unsupported("exp of a non-finite constant")
            if x == 0:
                return Fraction(1)
        return self._expF(LogVal(x, Frac(1)))

    def log(self, x):
        if isL(x):
            x = self.lower(x)
        if isconc(x) and not special(x):
            if isinstance(x, float):
                raise Unsupported("log of a non-finite constant")
            if x < 0:
                raise Unsupported("log of a negative constant")
        F = self.toF(x)
        if not F.is_const():
            self.cond(F.numterm() >= 0, "log needs a non-negative argument")
            if F.den:
                self.cond(F.denterm() > 0, "log needs a positive denominator")
        return LogVal(0, F)

    def log1p(self, x):
        if isL(x):
            x = self.lower(x)
        return self.log(self.fadd(Frac(1), self.toF(x)))

    def logistic(self, x):
        """e^x / (1 + e^x)"""
        Q = self._expF(self.toL(x))
        if Q.c == 0:
            return Fraction(0)
        d = self.fadd(Frac(1), Q)     # (den + num)/den
        self.cond(Q.numterm() >= 0, "logistic: e^x >= 0")
        if Q.den:
            self.cond(Q.denterm() > 0, "logistic: denominator")
        return self.fmul(Q, self.finv(d, "1 + e^x"))

    def logaddexp(self, x, y):
        """log(e^x + e^y) (definition of jax.numpy.logaddexp over the reals)"""
        return self.log(self.fadd(self._expF(self.toL(y)), self._expF(self.toL(x))))

    def unary(self, name, x):
        f = {"exp": self.exp, "log": self.log, "log1p": self.log1p, "logistic": self.logistic}.get(name)
        if f is not None:
            if isconc(x) and not special(x) and self.fold_transcendentals:
                return RealOps.unary(self, name, x)
            return f(x)
        if special(x):
            x = self.lower(x)
        return RealOps.unary(self, name, x)

    def binary(self, name, x, y):
        return RealOps.binary(self, name, self.lower(x) if special(x) else x, self.lower(y) if special(y) else y)


class LogInterp(Interp):
    """REAL-mode interpreter whose scalar operations understand Frac / LogVal elements"""

    def __init__(self, **kw):
        super().__init__(mode="real", **kw)
        self.o = LogOps(self)
        self.mode = "log"
        self.side_conditions = []
        self.logaddexp_calls = 0

    # inputs ----------------------------------------------------------------
    def logsym(self, name, shape):
        """array of log-domain inputs  log(P_i)  with fresh positive reals P_i; returns (array, list of P_i)"""
        out = np.empty(tuple(shape), dtype=object)
        Ps = []
        for i in np.ndindex(*out.shape):
            P = z3.Real(name + "".join(f"_{j}" for j in i))
            Ps.append(P)
            out[i] = LogVal(0, Frac(1, (P,)))
        return out, Ps

    def side_conds(self):
        """conjunction of the recorded side conditions (deduplicated)"""
        seen, out = set(), []
        for c in self.side_conditions:
            if c.get_id() not in seen:
                seen.add(c.get_id())
                out.append(c)
        return out

    def lower_arr(self, a):
        return emap(self.o.lower, np.asarray(a, dtype=object) if not isinstance(a, np.ndarray) else a)

    # primitives that need the domain ----------------------------------------
    @staticmethod
    def _custom_name(e):
        """name of the function a custom_jvp_call wraps (JAX keeps it in the debug info of the call jaxpr)"""
        if e.params.get("name"):
            return e.params["name"]
        cj = e.params.get("call_jaxpr")
        di = getattr(getattr(cj, "jaxpr", cj), "debug_info", None)
        s = getattr(di, "func_name", None) or str(getattr(di, "func_src_info", "") or "")
        return s.split(" ")[0] if s else ""

    def p_custom_jvp_call(self, e, *ins):
        if self._custom_name(e) == "logaddexp" and len(ins) == 2:
            self.logaddexp_calls += 1
            return emap(self.o.logaddexp, ins[0], ins[1])
        return super().p_custom_jvp_call(e, *ins)

    def p_ne(self, e, a, b):
        if a is b:
            # `x != x` (NaN test): the domain has no NaN (side conditions exclude 0/0 and inf-inf)
            return emap(lambda x: False, a)
        return super().p_ne(e, a, b)

    def p_integer_pow(self, e, a):
        y = e.params["y"]
        if y < 0:
            return emap(lambda x: self.o.fdiv(Fraction(1), self._ipow(x, -y)), a)
        return emap(lambda x: self._ipow(x, y), a)

    def _ipow(self, x, n):
        r = Fraction(1)
        for _ in range(n):
            r = self.o.mul(r, x)
        return r


# ------------------------------------------------------------------ axioms for lowered values
def log_exp_inverse_axioms(formulas):
    """log and exp are inverse: for every pair of applications log(u), exp(x) occurring in the query,
    u = exp(x) => log(u) = x   (instantiated before Ackermannisation)"""
    from .solve import collect_apps
    logs, exps = [], []
    for t in collect_apps(formulas):
        n = t.decl().name()
        if n == "log":
            logs.append(t)
        elif n == "exp":
            exps.append(t)
    out = []
    for l in logs:
        for x in exps:
            out.append(z3.Implies(l.arg(0) == x, l == x.arg(0)))
    for i in range(len(exps)):
        for j in range(i + 1, len(exps)):
            out.append(z3.Implies(exps[i].arg(0) + exps[j].arg(0) == 0, exps[i] * exps[j] == 1))     # e^a * e^-a = 1
    return out
