"""Harness pieces shared by the distribution / policy checks (C15, C16):

* `UFNet` — a network cut to an uninterpreted function of its input ("arbitrary finite features"); `cut_*` replace the
  MLP / Linear sub-modules of the *real* lerax policies by such cuts (everything between them — flattening, mask
  plumbing, distribution construction, mode/sample selection, log-prob/entropy bookkeeping — stays the real code);
* `replay_real` — run the real traced function on the inputs of a solver model (uninterpreted functions, including the
  stubbed PRNG samplers, bound to the model's interpretation) and hand the concrete outputs to a numeric judge;
* small formula helpers.
"""
import equinox as eqx
import jax
import jax.numpy as jnp
import numpy as np
import z3

from . import concrete, solve
from .ops import isconc
from .uf import uf


class UFNet(eqx.Module):
    """y = NAME(theta, x): an arbitrary function of the input (and of a parameter vector)"""
    theta: jax.Array
    name: str = eqx.field(static=True)
    out: tuple = eqx.field(static=True)

    def __init__(self, name, out):
        self.name = name
        self.out = tuple(out)
        self.theta = jnp.zeros(())

    def __call__(self, x, *, key=None):
        return uf(self.name, [(self.out, "float32")], self.theta, x)[0]


def cut_ac_policy(pol, n_logits, feat=2):
    """MLPActorCriticPolicy with encoder, value head, action-head MLP and the final Linear cut to UFs
    (ENC, VAL, AMLP, ALIN).  ALIN's output are the distribution parameters (logits)."""
    pol = eqx.tree_at(lambda p: p.encoder, pol, UFNet("ENC", (feat,)))
    pol = eqx.tree_at(lambda p: p.value_head, pol, UFNet("VAL", ()))
    if pol.action_head.mlp is not None:
        pol = eqx.tree_at(lambda p: p.action_head.mlp, pol, UFNet("AMLP", (feat,)))
    ad = pol.action_head.action_dist
    field = "mappings" if hasattr(ad, "mappings") else "mapping"
    pol = eqx.tree_at(lambda p: getattr(p.action_head.action_dist, field), pol, UFNet("ALIN", (n_logits,)))
    return pol


def cut_q_policy(pol, n):
    return eqx.tree_at(lambda p: p.q_network, pol, UFNet("QNET", (n,)))


def cut_sac_policy(pol, feat=2):
    out = () if pol.scalar else (int(pol.action_space.flat_size),)
    pol = eqx.tree_at(lambda p: p.encoder, pol, UFNet("ENC", (feat,)))
    pol = eqx.tree_at(lambda p: p.mean_head, pol, UFNet("MEAN", out))
    pol = eqx.tree_at(lambda p: p.log_std_head, pol, UFNet("LSTD", out))
    return pol


def uf_terms(it, name, oi=0):
    """result terms of the applications of uf `name` recorded by the interpreter, in element order"""
    seen, out = set(), []
    for (n, o, idx, ops, t) in it.uf_apps:
        if n == name and o == oi and t.get_id() not in seen:     # a second application to the same operands is the same term
            seen.add(t.get_id())
            out.append(t)
    return out


def primitive_names(jaxpr, acc=None):
    from .trace import primitives
    return primitives(jaxpr)


PRNG_PRIMS = ("random_bits", "random_split", "random_fold_in", "random_seed", "random_wrap", "random_unwrap", "threefry2x32")


def no_prng(tr):
    """(ok, detail): the traced program contains no PRNG primitive and no stubbed sampler"""
    from .trace import primitives
    prims = primitives(tr.jaxpr)
    bad = [p for p in PRNG_PRIMS if p in prims]
    rand = _uf_names(tr.jaxpr, set())
    bad += sorted(n for n in rand if n.startswith("RAND_"))
    return not bad, ("no PRNG primitive / sampler in the IR" if not bad else f"PRNG in a key-less trace: {bad}")


def _uf_names(jaxpr, acc):
    for e in jaxpr.eqns:
        if e.primitive.name == "uf":
            acc.add(e.params["name"])
        for v in e.params.values():
            for sub in (v if isinstance(v, (tuple, list)) else [v]):
                j = getattr(sub, "jaxpr", sub)
                if hasattr(j, "eqns"):
                    _uf_names(j, acc)
    return acc


def replay_real(tr, S, res, uf_apps=(), overrides=None):
    """real outputs of the traced function on the model's inputs.
    overrides: {input name: f(res) -> array} for inputs whose symbols are not plain terms (LOG-mode inputs).
    returns (outputs: {name: float64 array}, inputs: {name: array})"""
    keys = concrete.KeyBinding(res)
    w = concrete.ModelWorld(res, list(uf_apps), keys)
    vals = []
    for n, av in zip(tr.in_names, tr.in_avals):
        if overrides and n in overrides:
            vals.append(jnp.asarray(np.asarray(overrides[n](res)), dtype=av.dtype))
        else:
            vals.append(concrete.model_leaf(res, S[n], av, keys))
    real = concrete.run_real(tr, vals, w)
    outs = {n: np.asarray(concrete.real_to_float(x)) for n, x in zip(tr.out_names, real)}
    ins = {n: (np.asarray(concrete.real_to_float(v)) if hasattr(v, "dtype") else v) for n, v in zip(tr.in_names, vals)}
    return outs, ins


def judge_replay(tr, S, uf_apps, judge, overrides=None):
    """replay callback for ck.prove: judge(outputs, inputs) -> (violated, detail dict)"""
    def rp(res):
        outs, ins = replay_real(tr, S, res, uf_apps, overrides)
        bad, detail = judge(outs, ins)
        info = {"function": tr.label, "inputs": {k: np.asarray(v).reshape(-1)[:12].tolist() for k, v in ins.items()},
                "real_outputs": {k: np.asarray(v).reshape(-1)[:12].tolist() for k, v in outs.items()}}
        info.update(detail or {})
        return bool(bad), info
    return rp


def val(res, t):
    v = solve.num(res.value(t)) if not isconc(t) else t
    return float(v) if v is not None and not isinstance(v, bool) else (float(bool(v)) if v is not None else float("nan"))


def pick(idx, xs, o):
    """xs[idx] for a symbolic integer index (ite chain)"""
    r = xs[-1]
    for j in range(len(xs) - 2, -1, -1):
        r = o.ite(o.eq(idx, j), xs[j], r)
    return r


def softmax_np(logits, mask=None):
    x = np.asarray(logits, dtype=np.float64)
    if mask is not None:
        x = np.where(np.asarray(mask, bool), x, -np.inf)
    x = x - np.max(x)
    e = np.exp(x)
    return e / e.sum()
