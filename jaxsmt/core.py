"""Check driver: obligations, vacuity guards, replay, known findings, evidence, exit codes."""
import fnmatch
import json
import os
import sys
import time
import traceback

import numpy as np
import z3

from . import solve
from .ops import isconc

ROOT = os.path.dirname(os.path.dirname(os.path.abspath(__file__)))
EXIT_OK, EXIT_VIOLATION, EXIT_INCONCLUSIVE = 0, 1, 3


def load_known(pid):
    """known_findings.txt: lines `open: property=<id> obligation=<glob> <what fails>` and
    `fixed: property=<id> <commit> <what failed>` (fixed entries suppress nothing)."""
    path = os.path.join(ROOT, "known_findings.txt")
    out = []
    if not os.path.exists(path):
        return out
    for line in open(path):
        line = line.strip()
        if not line or line.startswith("#"):
            continue
        if line.startswith("open:"):
            parts = line[len("open:"):].split()
            kv = dict(p.split("=", 1) for p in parts[:2] if "=" in p)
            if kv.get("property") == pid and "obligation" in kv:
                out.append((kv["obligation"], " ".join(parts[2:])))
    return out


def conj(xs):
    xs = [x for x in xs if not (isconc(x) and x)]
    if any(isconc(x) and not x for x in xs):
        return False
    if not xs:
        return True
    return z3.And(xs) if len(xs) > 1 else xs[0]


def disj(xs):
    xs = [x for x in xs if not (isconc(x) and not x)]
    if any(isconc(x) and x for x in xs):
        return True
    if not xs:
        return False
    return z3.Or(xs) if len(xs) > 1 else xs[0]


def neg(x):
    return (not x) if isconc(x) else z3.Not(x)


def implies(a, b):
    if isconc(a):
        return b if a else True
    if isconc(b):
        return True if b else z3.Not(a)
    return z3.Implies(a, b)


def abstract(formulas, terms):
    """Replace each of the given (large) terms by a fresh constant in all formulas.  Proving the abstracted query is sound for `unsat`
    (the fresh constants generalise the terms); used when an obligation treats big sub-results as opaque values."""
    subs = []
    seen = set()
    for t in terms:
        if isinstance(t, z3.ExprRef) and t.get_id() not in seen and not (z3.is_const(t) and t.decl().kind() == z3.Z3_OP_UNINTERPRETED) and not z3.is_rational_value(t) and not z3.is_int_value(t):
            seen.add(t.get_id())
            subs.append((t, z3.FreshConst(t.sort(), "abs")))
    if not subs:
        return list(formulas)
    return [z3.substitute(f, *subs) if isinstance(f, z3.ExprRef) else f for f in formulas]


def _real_consts(formulas):
    """free real-sorted input symbols of the formulas (not the INF / NaN symbols)"""
    from .ops import INF, NAN
    seen, out = set(), {}
    stack = [f for f in formulas if isinstance(f, z3.ExprRef)]
    while stack:
        t = stack.pop()
        i = t.get_id()
        if i in seen:
            continue
        seen.add(i)
        if z3.is_app(t):
            if t.num_args() == 0 and t.decl().kind() == z3.Z3_OP_UNINTERPRETED and z3.is_real(t) and not t.eq(INF) and not t.eq(NAN) and not str(t).startswith(("ack_", "lin!", "abs!")):
                out[i] = t
            stack.extend(t.children())
    return [out[k] for k in sorted(out)]


def finite_axioms(formulas):
    """REAL mode: when the symbolic infinity occurs, it is larger than 2^127 and every real input symbol and every real-valued
    uninterpreted application lies strictly between -INF and INF (float32 values are finite or exactly +-inf)"""
    from .ops import INF, NAN
    consts, apps, has_inf = {}, {}, False
    seen = set()
    stack = [f for f in formulas if isinstance(f, z3.ExprRef)]
    while stack:
        t = stack.pop()
        i = t.get_id()
        if i in seen:
            continue
        seen.add(i)
        if z3.is_app(t):
            if t.eq(INF):
                has_inf = True
            elif t.decl().kind() == z3.Z3_OP_UNINTERPRETED and z3.is_real(t) and not t.eq(NAN):
                (consts if t.num_args() == 0 else apps)[i] = t
            stack.extend(t.children())
    if not has_inf:
        return []
    out = [INF >= z3.RealVal(2) ** 127]
    for t in list(consts.values()) + list(apps.values()):
        out += [t > -INF, t < INF]
    return out


def eq_elem(a, b, o=None):
    """equality of two elements; True if syntactically identical"""
    if isconc(a) and isconc(b):
        return bool(a == b)
    if not isconc(a) and not isconc(b):
        if a.eq(b):
            return True
        if z3.is_fp(a) or z3.is_fp(b):
            # IEEE equality except that NaN is required to match NaN
            return z3.Or(z3.fpEQ(a, b), z3.And(z3.fpIsNaN(a), z3.fpIsNaN(b)))
        if a.sort() != b.sort():
            if z3.is_int(a):
                a = z3.ToReal(a)
            if z3.is_int(b):
                b = z3.ToReal(b)
        return a == b
    o = o or _default_ops()
    za, zb = o.z(a), o.z(b)
    if z3.is_fp(za) or z3.is_fp(zb):
        za, zb = o.zf(a), o.zf(b)
        return z3.Or(z3.fpEQ(za, zb), z3.And(z3.fpIsNaN(za), z3.fpIsNaN(zb)))
    if za.sort() != zb.sort():
        if z3.is_int(za):
            za = z3.ToReal(za)
        if z3.is_int(zb):
            zb = z3.ToReal(zb)
    return za == zb


_OPS = []


def _default_ops():
    if not _OPS:
        from .ops import RealOps
        _OPS.append(RealOps())
    return _OPS[0]


def eq_arr(a, b, o=None):
    """conjunction of elementwise equalities (python True when all syntactically identical)"""
    a = np.asarray(a, dtype=object) if not isinstance(a, np.ndarray) else a
    b = np.asarray(b, dtype=object) if not isinstance(b, np.ndarray) else b
    if a.shape != b.shape:
        a, b = np.broadcast_arrays(a, b)
    return conj([eq_elem(x, y, o) for x, y in zip(a.reshape(-1), b.reshape(-1))])


class Obligation:
    def __init__(self, oid):
        self.oid = oid
        self.status = None
        self.time = 0.0
        self.solver = ""
        self.detail = ""
        self.kind = "prove"


class Check:
    def __init__(self, pid, title="", argv=None):
        self.pid = pid
        self.title = title
        argv = sys.argv[1:] if argv is None else argv
        tier = os.environ.get("VERIF_TIER", "quick")
        self.replay_path = None
        i = 0
        while i < len(argv):
            if argv[i] == "--tier":
                tier = argv[i + 1]
                i += 1
            elif argv[i] == "--replay":
                self.replay_path = argv[i + 1]
                i += 1
            i += 1
        self.tier = tier if tier in ("quick", "thorough") else "quick"
        self.thorough = self.tier == "thorough"
        try:
            self.seed = int(os.environ.get("VERIF_SEED", "0"))
        except ValueError:
            self.seed = 0
        self.t0 = time.time()
        self.obls = []
        self.functions = []
        self.bounds = {}
        self.stubs = []
        self.assumptions = []
        self.out_of_claim = []
        self.samples = []
        self.violations = []
        self.known_hits = []
        self.inconclusive = []
        self.validation = {"programs": 0, "points": 0, "mismatches": 0}
        self.solver_time = 0.0
        self.queries = 0
        self.known = load_known(pid)
        self.mode = "REAL"
        self.notes = []
        self.default_timeout = 120 if self.thorough else 60
        self.second = self.thorough
        os.makedirs(os.path.join(ROOT, "replays"), exist_ok=True)
        self.only = None
        if self.replay_path:
            try:
                self.only = json.load(open(self.replay_path))["obligation"]
                self.log(f"replaying obligation {self.only} from {self.replay_path}")
            except Exception as ex:  # noqa: BLE001
                print(f"cannot read replay file: {ex}")
                sys.exit(EXIT_INCONCLUSIVE)
        self.errors = []

    def section(self, name):
        """run a group of obligations; an exception inside (e.g. the code under test no longer traces for the
        harness shapes) makes the group inconclusive instead of aborting the other groups"""
        ck = self

        class _Sec:
            def __enter__(self_):
                ck._sec = name
                return ck

            def __exit__(self_, et, ev, tb):
                if et is None:
                    return False
                if issubclass(et, (KeyboardInterrupt, SystemExit)):
                    return False
                if not issubclass(et, Exception):
                    return False
                ob = ck._new(f"section.{name}", "error")
                ob.status = "harness-error"
                ob.detail = "".join(traceback.format_exception(et, ev, tb))[-1800:]
                ck.inconclusive.append(ob)
                ck.errors.append(name)
                ck.log(f"INCONCLUSIVE section {name}: {et.__name__}: {ev}\n{ob.detail}")
                return True
        return _Sec()

    # ------------------------------------------------------------- bookkeeping
    def encoded(self, *traced):
        for t in traced:
            d = t.describe() if hasattr(t, "describe") else dict(t)
            if d not in self.functions:
                self.functions.append(d)

    def bound(self, **kw):
        self.bounds.update({k: (v if isinstance(v, (int, float, str, bool, list, dict)) else str(v)) for k, v in kw.items()})

    def stub(self, *s):
        for x in s:
            if x not in self.stubs:
                self.stubs.append(x)

    def assume_note(self, *s):
        for x in s:
            if x not in self.assumptions:
                self.assumptions.append(x)

    def out(self, *s):
        for x in s:
            if x not in self.out_of_claim:
                self.out_of_claim.append(x)

    def log(self, msg):
        print(f"[{self.pid} {time.time() - self.t0:6.1f}s] {msg}", flush=True)

    def _new(self, oid, kind="prove"):
        ob = Obligation(oid)
        ob.kind = kind
        self.obls.append(ob)
        return ob

    def _sample(self, ob, assumptions, goal, extra=None):
        if len(self.samples) >= 8:
            return
        if ob.solver in ("syntactic", "trivial") and sum(1 for x in self.samples if x.get("solver") in ("syntactic", "trivial")) >= 2:
            return
        def short(x):
            s = str(x)
            s = " ".join(s.split())
            return s if len(s) <= 600 else s[:600] + " ..."
        d = {"obligation": ob.oid, "kind": ob.kind, "status": ob.status, "solver": ob.solver, "time_s": round(ob.time, 3),
             "assume": [short(a) for a in list(assumptions)[:4]], "assert": short(goal)}
        if extra:
            d.update(extra)
        self.samples.append(d)

    # ------------------------------------------------------------- obligations
    def fact(self, oid, ok, detail="", replay=None):
        """an obligation decided by reading the IR (shapes, dtypes, primitive sets, pass-through wiring)"""
        if self.only is not None and oid != self.only:
            return True
        ob = self._new(oid, "ir-fact")
        ob.status = "holds" if ok else "fails"
        ob.detail = detail
        ob.solver = "ir"
        if not ok:
            self._violation(ob, {"detail": detail}, replay_info={"kind": "ir-fact", "detail": detail}, reproduced=True)
        return ok

    def prove(self, oid, assumptions, goal, *, nonlinear=False, timeout=None, replay=None, margin_goal=None,
              ackermann=None, sample=True, axioms=True, extra_axioms=None, search_hints=None):
        """Decide `assumptions => goal` for all values of the symbols.  `replay(result) -> (bool, info)` runs the
        real code on the counterexample; a counterexample is reported only when it reproduces."""
        if self.only is not None and oid != self.only:
            return True
        ob = self._new(oid)
        assumptions = [a for a in assumptions if not (isconc(a) and a)]
        if isconc(goal) and goal:
            ob.status = "unsat"
            ob.solver = "syntactic"
            ob.detail = "both sides are the same term"
            if sample:
                self._sample(ob, assumptions, "identical terms")
            return True
        fs = list(assumptions) + [neg(goal)]
        fs += finite_axioms(fs)
        if axioms:
            fs += solve.instantiate_axioms(fs, extra_axioms)
        res = solve.decide(fs, timeout_s=timeout or self.default_timeout, nonlinear=nonlinear, ackermann=ackermann, second=self.second)
        self.queries += 1
        self.solver_time += res.time
        if res.status == "unknown" and search_hints:
            # counterexample search in a sub-space (e.g. network parameters instantiated): a `sat` there is a genuine counterexample of the
            # general obligation; anything else leaves the obligation undecided
            fs_h = fs + [h for h in search_hints if not (isconc(h) and h)]
            res_h = solve.decide(fs_h, timeout_s=timeout or self.default_timeout, nonlinear=nonlinear, ackermann=ackermann)
            self.queries += 1
            self.solver_time += res_h.time
            if res_h.status == "sat":
                res = res_h
        if res.status == "unknown" and not nonlinear:
            # second decision procedure: Ackermann-reduce the uninterpreted applications (equisatisfiable; the finiteness predicate FIN is left
            # free, an over-approximation whose models are confirmed by replay like every other) and decide with nlsat
            for extra in ([[]] + ([[h for h in search_hints if not (isconc(h) and h)]] if search_hints else [])):
                res_n = solve.decide(fs + extra, timeout_s=timeout or self.default_timeout, nonlinear=True)
                self.queries += 1
                self.solver_time += res_n.time
                if res_n.status == "sat" or (res_n.status == "unsat" and not extra):
                    res = res_n
                    break
        if res.status == "unknown":
            # fallback: linear over-approximation (UF applications and nonlinear products become opaque constants).  unsat there is a proof;
            # sat there is only a candidate counterexample, which counts if and only if the replay reproduces it on the real code
            import sys as _sys
            _old = _sys.getrecursionlimit()
            _sys.setrecursionlimit(100000)
            try:
                res_l = solve.decide(solve.linear_abstraction(fs), timeout_s=min(30, timeout or self.default_timeout))
            except RecursionError:
                res_l = None
            finally:
                _sys.setrecursionlimit(_old)
            if res_l is not None:
                self.queries += 1
                self.solver_time += res_l.time
                if res_l.status in ("unsat", "sat"):
                    res = res_l
                    res.solver += "/linear-abstraction"
        ob.time = res.time
        ob.solver = res.solver
        ob.status = res.status
        if sample:
            self._sample(ob, assumptions, goal)
        if res.status == "unsat":
            return True
        if res.status == "sat":
            if margin_goal is not None:
                fs2 = list(assumptions) + [neg(margin_goal)]
                if axioms:
                    fs2 += solve.instantiate_axioms(fs2, extra_axioms)
                res2 = solve.decide(fs2, timeout_s=timeout or self.default_timeout, nonlinear=nonlinear, ackermann=ackermann)
                self.queries += 1
                self.solver_time += res2.time
                if res2.status == "sat":
                    res = res2
            info = {}
            reproduced = None

            def _try(r):
                try:
                    return replay(r)
                except Exception as ex:  # noqa: BLE001
                    return None, {"replay_error": repr(ex), "trace": traceback.format_exc()[-1500:]}
            if replay is not None:
                reproduced, info = _try(res)
                # a model sitting where the difference is below float resolution does not reproduce: ask for other models (the real-valued input
                # symbols must move by at least 1/2 from every model tried so far); still only a reproducing counterexample is reported
                base = (fs2 if (margin_goal is not None and res is not None and "fs2" in locals() and res2.status == "sat") else fs)
                tries = 0
                blocks = []
                while not reproduced and tries < 3 and res.model is not None and "linear-abstraction" not in (res.solver or ""):
                    consts = [c for c in _real_consts(base)][:16]
                    vals = []
                    for c in consts:
                        v = res.value(c)
                        if z3.is_rational_value(v) or z3.is_int_value(v) or z3.is_algebraic_value(v):
                            vals.append((c, v))
                    if not vals:
                        break
                    blocks.append(z3.Or([z3.Or(c - v >= z3.Q(1, 2), v - c >= z3.Q(1, 2)) for c, v in vals]))
                    r_n = solve.decide(list(base) + blocks, timeout_s=min(60, timeout or self.default_timeout), nonlinear=nonlinear, ackermann=ackermann)
                    self.queries += 1
                    self.solver_time += r_n.time
                    tries += 1
                    if r_n.status != "sat":
                        break
                    res = r_n
                    reproduced, info2 = _try(res)
                    if reproduced or not info:
                        info = info2
            if reproduced:
                self._violation(ob, info, replay_info=info, reproduced=True)
            else:
                via_abs = "linear-abstraction" in (res.solver or "")
                ob.status = "unknown" if via_abs else "sat-unreproduced"
                ob.detail = json.dumps(info, default=str)[:2000]
                self.inconclusive.append(ob)
                if via_abs:
                    self.log(f"INCONCLUSIVE {oid}: the nonlinear query was not decided within its budget and the candidate found on its linear over-approximation does not reproduce on the real code")
                else:
                    self.log(f"INCONCLUSIVE {oid}: solver found a model but the replay on the real code did not reproduce it: {ob.detail[:500]}")
            return False
        ob.detail = res.reason
        self.inconclusive.append(ob)
        self.log(f"INCONCLUSIVE {oid}: solver answered {res.status} ({res.reason}) after {res.time:.1f}s")
        return False

    def witness(self, oid, formulas, *, nonlinear=False, timeout=None, expect="sat", kind="witness"):
        """vacuity guards / negative controls: the formulas must be satisfiable (or `expect`)"""
        ob = self._new(oid, kind)
        fs = [f for f in formulas if not (isconc(f) and f)]
        if any(isconc(f) and not f for f in fs):
            res_status, t, solver = "unsat", 0.0, "trivial"
        else:
            fs = fs + solve.instantiate_axioms(fs)
            res = solve.decide(fs, timeout_s=timeout or self.default_timeout, nonlinear=nonlinear)
            self.queries += 1
            self.solver_time += res.time
            res_status, t, solver = res.status, res.time, res.solver
        ob.status, ob.time, ob.solver = res_status, t, solver
        if res_status != expect:
            ob.detail = f"expected {expect}"
            self.inconclusive.append(ob)
            self.log(f"INCONCLUSIVE {oid}: {kind} expected {expect}, solver answered {res_status}")
            return False
        ob.status = f"{res_status} (as required)"
        if kind == "control":
            self._sample(ob, [], "negative control: the deliberately wrong reference must be refuted")
        return True

    def require_sat(self, oid, formulas, *, replay=None, timeout=None, nonlinear=False):
        """an existential obligation of the property itself (e.g. 'different keys yield different runs'): the formulas must be satisfiable.
        `unsat` means the property fails for every value; it is reported as a violation when `replay()` confirms it on the real code."""
        if self.only is not None and oid != self.only:
            return True
        ob = self._new(oid, "prove")
        fs = [f for f in formulas if not (isconc(f) and f)]
        if any(isconc(f) and not f for f in fs):
            status, t, solver = "unsat", 0.0, "trivial"
        else:
            fs = fs + solve.instantiate_axioms(fs)
            res = solve.decide(fs, timeout_s=timeout or self.default_timeout, nonlinear=nonlinear)
            self.queries += 1
            self.solver_time += res.time
            status, t, solver = res.status, res.time, res.solver
        ob.time, ob.solver = t, solver
        if status == "sat":
            ob.status = "unsat"      # the negation (for all values: no difference) is refuted
            ob.detail = "existential obligation satisfied"
            self._sample(ob, [], "exists a value of the symbols satisfying the formulas (decided sat)")
            return True
        if status == "unsat":
            reproduced, info = (None, {})
            if replay is not None:
                try:
                    reproduced, info = replay()
                except Exception as ex:  # noqa: BLE001
                    reproduced, info = None, {"replay_error": repr(ex)}
            if reproduced:
                self._violation(ob, info, replay_info=info)
                return False
        ob.status = status if status != "unsat" else "unsat-unreproduced"
        self.inconclusive.append(ob)
        self.log(f"INCONCLUSIVE {oid}: existential obligation: solver answered {status}")
        return False

    def control(self, oid, assumptions, wrong_goal, **kw):
        """negative control: the same query against a deliberately wrong reference must be refuted (sat)"""
        fs = list(assumptions) + [neg(wrong_goal)]
        return self.witness(oid, fs, kind="control", **kw)

    def skip(self, oid, why):
        ob = self._new(oid, "skipped")
        ob.status = "skipped"
        ob.detail = why

    # ------------------------------------------------------------- violations
    def _violation(self, ob, info, replay_info=None, reproduced=True):
        for pat, what in self.known:
            if fnmatch.fnmatchcase(ob.oid, pat):
                ob.status = "known-finding"
                ob.detail = what
                self.known_hits.append((ob.oid, what))
                print(f"KNOWN-FINDING: property={self.pid} {ob.oid}: {what}", flush=True)
                return
        ob.status = "VIOLATION"
        safe = ob.oid.replace("/", "_").replace(" ", "_").replace("@", "_at_").replace("=", "-").replace(",", "_")
        path = os.path.join(ROOT, "replays", f"{self.pid}_{safe}.json")
        rec = {"property": self.pid, "obligation": ob.oid, "tier": self.tier, "info": replay_info or info}
        with open(path, "w") as f:
            json.dump(rec, f, indent=1, default=str)
        ob.detail = path
        self.violations.append((ob.oid, path))
        print(f"VIOLATION property={self.pid} replay={path}", flush=True)
        print(f"  obligation {ob.oid}: {json.dumps(info, default=str)[:1200]}", flush=True)

    # ------------------------------------------------------------- finish
    def finish(self, explanation):
        wall = time.time() - self.t0
        n_ob = len([o for o in self.obls if o.kind in ("prove", "ir-fact")])
        n_dis = len([o for o in self.obls if o.kind in ("prove", "ir-fact") and o.status in ("unsat", "holds")])
        by_status = {}
        for o in self.obls:
            by_status[o.status] = by_status.get(o.status, 0) + 1
        distinct = len({o.oid for o in self.obls if o.kind == "prove" and o.solver not in ("syntactic", "trivial")})
        cov = {
            "explanation": explanation,
            "technique": "bounded symbolic execution of the JAX IR (jaxpr) of the real lerax functions over z3 terms; SMT decides each obligation for all values within the stated bounds",
            "numeric_mode": self.mode,
            "functions_encoded": self.functions,
            "bounds": self.bounds,
            "outside_the_claim": self.out_of_claim,
            "stubs": self.stubs,
            "obligations": n_ob,
            "discharged": n_dis,
            "evaluations": max(1, self.queries),
            "distinct_nontrivial": distinct,
            "rule": "one evaluation = one SMT query; an obligation is non-trivial when it needed a solver query (the two sides were not the same term); distinct by obligation id (static configuration included in the id)",
            "status_counts": by_status,
            "vacuity_and_controls": [{"id": o.oid, "kind": o.kind, "status": o.status} for o in self.obls if o.kind in ("witness", "control")],
            "translator_validation": self.validation,
            "solver_time_s": round(self.solver_time, 3),
            "solvers": sorted({o.solver for o in self.obls if o.solver}),
            "second_solver": "/usr/bin/z3 4.8.12 re-decides every query (thorough tier)" if self.second else "not run in the quick tier",
            "obligation_list": [{"id": o.oid, "kind": o.kind, "status": o.status, "solver": o.solver, "time_s": round(o.time, 3)} for o in self.obls][:400],
            "known_findings_reported": [{"obligation": a, "what": b} for a, b in self.known_hits],
            "inconclusive": [{"id": o.oid, "status": o.status, "detail": o.detail[:300]} for o in self.inconclusive],
            "samples": self.samples or [{"note": "no solver obligations"}],
            "trusted_base": ["JAX tracer (jaxpr is what XLA executes)", "jaxsmt interpreter (validated against JAX each run)", "z3 5.1.0", "stub contracts listed under stubs"],
            "notes": self.notes,
        }
        ev = {"property_id": self.pid, "tier": self.tier, "seed": self.seed, "level": "other", "coverage": cov,
              "assumptions": self.assumptions + [f"stub/contract: {x}" for x in self.stubs] + [f"bound: {k} = {v}" for k, v in self.bounds.items()],
              "wall_s": round(wall, 2), "violations": len(self.violations)}
        # experiments against scratch trees (seeded changes, refactorings) write their evidence elsewhere: /verif/evidence describes /repo only
        evdir = os.environ.get("VERIF_EVIDENCE_DIR") or os.path.join(ROOT, "evidence")
        os.makedirs(evdir, exist_ok=True)
        with open(os.path.join(evdir, f"{self.pid}.json"), "w") as f:
            json.dump(ev, f, indent=1, default=str)
        self.log(f"obligations {n_ob} discharged {n_dis} queries {self.queries} solver {self.solver_time:.1f}s wall {wall:.1f}s "
                 f"violations {len(self.violations)} known {len(self.known_hits)} inconclusive {len(self.inconclusive)}")
        if self.violations:
            sys.exit(EXIT_VIOLATION)
        if self.inconclusive:
            for o in self.inconclusive:
                print(f"INCONCLUSIVE property={self.pid} obligation={o.oid} status={o.status}", flush=True)
            sys.exit(EXIT_INCONCLUSIVE)
        sys.exit(EXIT_OK)
