"""Machine integers.  The REAL-mode interpreter maps JAX integers to mathematical integers; the arrays they model are int32 (JAX's default
without x64) and XLA integer arithmetic wraps modulo 2^32 (two's complement).  `wrap_ops` rebuilds an integer term produced by the interpreter
so that every +, -, * result is reduced into [-2^(w-1), 2^(w-1)) — the value the machine computes when its operands are in range — staying
inside linear integer arithmetic (one `ite` pair per operation for +/-, `mod` for *).  Free integer constants are NOT constrained here: the
caller states their range (`in_range`)."""
import z3


def in_range(x, width=32):
    h = 2 ** (width - 1)
    return z3.And(x >= -h, x < h)


def _wrap_addsub(t, width):
    m, h = 2 ** width, 2 ** (width - 1)
    # operands in range => the exact result lies in (-2^w, 2^w): one correction suffices
    return z3.If(t >= h, t - m, z3.If(t < -h, t + m, t))


def _wrap_any(t, width):
    m, h = 2 ** width, 2 ** (width - 1)
    return (t + h) % m - h


def wrap_ops(t, width=32, _memo=None):
    """the machine value of integer term `t` (z3 Int) under width-bit wrapping arithmetic"""
    memo = {} if _memo is None else _memo
    if not isinstance(t, z3.ExprRef):
        return t
    i = t.get_id()
    if i in memo:
        return memo[i]
    if not z3.is_app(t) or t.num_args() == 0:
        memo[i] = t
        return t
    ch = [wrap_ops(c, width, memo) for c in t.children()]
    k = t.decl().kind()
    if z3.is_int(t):
        if k == z3.Z3_OP_ADD:
            r = ch[0]
            for c in ch[1:]:
                r = _wrap_addsub(r + c, width)
        elif k == z3.Z3_OP_SUB:
            r = ch[0]
            for c in ch[1:]:
                r = _wrap_addsub(r - c, width)
        elif k == z3.Z3_OP_UMINUS:
            r = _wrap_addsub(-ch[0], width)
        elif k == z3.Z3_OP_MUL:
            r = ch[0]
            for c in ch[1:]:
                r = _wrap_any(r * c, width)
        elif k == z3.Z3_OP_ITE:
            r = z3.If(ch[0], ch[1], ch[2])
        elif k in (z3.Z3_OP_MOD, z3.Z3_OP_REM, z3.Z3_OP_IDIV):
            r = t.decl()(*ch)          # results of mod/rem/div of in-range operands are in range (divisor != -1 assumed by the caller)
        elif k == z3.Z3_OP_UNINTERPRETED:
            r = t.decl()(*ch)
        else:
            raise NotImplementedError(f"wrap_ops: integer operator {t.decl().name()}")
    else:
        r = t.decl()(*ch) if t.num_args() else t
    memo[i] = r
    return r
