"""jaxsmt: symbolic execution of JAX intermediate representation (jaxprs) over z3 terms.

The real lerax functions are traced with JAX to jaxprs on every run (tiny static shapes = the bounds)
and the jaxprs are interpreted over SMT terms by `interp.Interp`.  See /verif/DESIGN.md.
"""
