"""Solving: default z3 for linear/ITE/UF queries, Ackermannisation + nlsat for nonlinear ones,
optional second opinion from the system z3 binary (a different major version) on the dumped SMT-LIB2."""
import os
import subprocess
import tempfile
import time

import z3

from .ops import isconc

# axioms instantiated on every application that occurs (before Ackermannisation)
def _ax_exp(t, a):
    return [t > 0, z3.Implies(a[0] == 0, t == 1), z3.Implies(a[0] <= 0, t <= 1), z3.Implies(a[0] >= 0, t >= 1)]


AXIOMS = {
    "exp": _ax_exp,
    "sqrt": lambda t, a: [z3.Implies(a[0] >= 0, z3.And(t >= 0, t * t == a[0]))],
    "rsqrt": lambda t, a: [z3.Implies(a[0] > 0, z3.And(t > 0, t * t * a[0] == 1))],
    "sin": lambda t, a: [t >= -1, t <= 1],
    "cos": lambda t, a: [t >= -1, t <= 1],
    "tanh": lambda t, a: [t > -1, t < 1, z3.Implies(a[0] == 0, t == 0), z3.Implies(a[0] > 0, t > 0), z3.Implies(a[0] < 0, t < 0)],
    # (the last four: brackets of the real logistic at +-9 and +-12 extended by monotonicity -- sigma(9) = 0.99987661, 1 - sigma(12) = 6.14e-6)
    "logistic": lambda t, a: [t > 0, t < 1, z3.Implies(a[0] == 0, t * 2 == 1), z3.Implies(a[0] > 0, t * 2 > 1), z3.Implies(a[0] < 0, t * 2 < 1),
                              z3.Implies(a[0] >= 12, t >= 1 - z3.Q(1, 100000)), z3.Implies(a[0] <= -12, t <= z3.Q(1, 100000)),
                              z3.Implies(a[0] <= 9, t <= z3.Q(99988, 100000)), z3.Implies(a[0] >= -9, t >= z3.Q(12, 100000))],
    "log": lambda t, a: [z3.Implies(a[0] == 1, t == 0), z3.Implies(z3.And(a[0] > 0, a[0] < 1), t < 0), z3.Implies(a[0] > 1, t > 0)],
    "log1p": lambda t, a: [z3.Implies(a[0] == 0, t == 0), z3.Implies(a[0] > 0, t > 0)],
    "softplus": lambda t, a: [t > 0],
}


def collect_apps(exprs):
    """all uninterpreted-function applications (with >=1 argument) occurring in exprs"""
    seen = set()
    apps = []
    stack = [e for e in exprs if isinstance(e, z3.ExprRef)]
    while stack:
        t = stack.pop()
        i = t.get_id()
        if i in seen:
            continue
        seen.add(i)
        if z3.is_app(t):
            if t.num_args() > 0 and t.decl().kind() == z3.Z3_OP_UNINTERPRETED:
                apps.append(t)
            stack.extend(t.children())
        elif z3.is_quantifier(t):
            stack.append(t.body())
    return apps


def instantiate_axioms(exprs, extra=None):
    table = dict(AXIOMS)
    if extra:
        table.update(extra)
    out = []
    for t in collect_apps(exprs):
        f = table.get(t.decl().name())
        if f is not None:
            out += f(t, t.children())
    return out


def monotone_axioms(exprs, names=("exp", "log", "tanh", "logistic", "sqrt")):
    """pairwise strict monotonicity for the occurring applications of increasing functions"""
    by = {}
    for t in collect_apps(exprs):
        if t.decl().name() in names:
            by.setdefault(t.decl().name(), []).append(t)
    out = []
    for n, ts in by.items():
        for i in range(len(ts)):
            for j in range(i + 1, len(ts)):
                a, b = ts[i], ts[j]
                out.append(z3.Implies(a.arg(0) < b.arg(0), a < b))
                out.append(z3.Implies(a.arg(0) > b.arg(0), a > b))
    return out


class Ackermann:
    """embed=True additionally embeds terms of uninterpreted sorts (PRNG keys) into the reals: only = / distinct / ite are
    used on them, so satisfiability is preserved, and qfnra-nlsat can then also produce MODELS for such queries (it
    answers `unknown` on satisfiable queries that still contain an uninterpreted sort)"""

    def __init__(self, embed=False):
        self.memo = {}
        self.cache = {}   # (decl name, arg ids) -> (var, decl, new args, original app)
        self.order = []
        self.embed = embed

    def _sort(self, srt):
        if self.embed and srt.kind() == z3.Z3_UNINTERPRETED_SORT:
            return z3.RealSort()
        return srt

    def walk(self, t):
        k = t.get_id()
        r = self.memo.get(k)
        if r is not None:
            return r
        if z3.is_app(t) and t.num_args() > 0:
            ch = [self.walk(c) for c in t.children()]
            d = t.decl()
            if d.kind() == z3.Z3_OP_UNINTERPRETED:
                key = (d.name(), tuple(c.get_id() for c in ch))
                ent = self.cache.get(key)
                if ent is None:
                    v = z3.FreshConst(self._sort(t.sort()), "ack_" + d.name().replace("#", "_"))
                    ent = (v, d, ch, t)
                    self.cache[key] = ent
                    self.order.append(ent)
                r = ent[0]
            elif self.embed and any(c.sort().kind() == z3.Z3_UNINTERPRETED_SORT for c in t.children()):
                kd = d.kind()
                if kd == z3.Z3_OP_EQ:
                    r = ch[0] == ch[1]
                elif kd == z3.Z3_OP_DISTINCT:
                    r = z3.Distinct(*ch)
                elif kd == z3.Z3_OP_ITE:
                    r = z3.If(ch[0], ch[1], ch[2])
                else:
                    raise ValueError(f"cannot embed {d.name()} over an uninterpreted sort")
            else:
                r = d(*ch)
        elif self.embed and z3.is_const(t) and t.sort().kind() == z3.Z3_UNINTERPRETED_SORT:
            r = z3.FreshConst(z3.RealSort(), "emb_" + t.decl().name())
        else:
            r = t
        self.memo[k] = r
        return r

    def congruence(self):
        cons = []
        items = self.order
        by = {}
        for it in items:
            by.setdefault(it[1].name(), []).append(it)
        for name, its in by.items():
            if name == "FIN":
                # finiteness predicate of REAL-mode terms (ops.FIN): left free per syntactically distinct term.  Fewer constraints = an
                # over-approximation: `unsat` stays a proof; a `sat` model is, as always, only reported when its replay reproduces
                continue
            for i in range(len(its)):
                for j in range(i + 1, len(its)):
                    vi, di, ci, _ = its[i]
                    vj, dj, cj, _ = its[j]
                    if len(ci) != len(cj):
                        continue
                    cons.append(z3.Implies(z3.And([a == b for a, b in zip(ci, cj)]), vi == vj))
        return cons


def linear_abstraction(formulas):
    """Over-approximation: every uninterpreted-function application, every product of two non-numeral factors and every division by a
    non-numeral becomes a fresh constant (the same term always the same constant).  `unsat` of the abstraction implies `unsat` of the
    original; a `sat` is only a candidate and must be confirmed by replay."""
    memo = {}

    def is_num(t):
        return z3.is_rational_value(t) or z3.is_int_value(t) or z3.is_algebraic_value(t)

    def walk(t):
        k = t.get_id()
        r = memo.get(k)
        if r is not None:
            return r
        if not z3.is_app(t) or t.num_args() == 0:
            memo[k] = t
            return t
        d = t.decl()
        kind = d.kind()
        opaque = False
        if kind == z3.Z3_OP_UNINTERPRETED:
            opaque = True
        elif kind == z3.Z3_OP_MUL:
            opaque = sum(1 for c in t.children() if not is_num(c)) >= 2
        elif kind in (z3.Z3_OP_DIV, z3.Z3_OP_IDIV, z3.Z3_OP_MOD, z3.Z3_OP_REM) and not is_num(t.arg(1)):
            opaque = True
        elif kind == z3.Z3_OP_POWER:
            opaque = True
        if opaque and (z3.is_arith(t) or z3.is_bool(t)):
            r = z3.FreshConst(t.sort(), "lin")
        else:
            r = d(*[walk(c) for c in t.children()])
        memo[k] = r
        return r
    return [walk(f) if isinstance(f, z3.ExprRef) else f for f in formulas]


class Result:
    def __init__(self, status, model, t, solver_name, ack=None, reason=""):
        self.status = status
        self.model = model
        self.time = t
        self.solver = solver_name
        self.ack = ack
        self.reason = reason

    def value(self, term):
        """value of a term (over the original vocabulary) in the model"""
        if isconc(term):
            return term
        t = self.ack.walk(term) if self.ack is not None else term
        return self.model.eval(t, model_completion=True)


def _mk_solver(nonlinear, timeout_s):
    if nonlinear:
        s = z3.Tactic("qfnra-nlsat").solver()
    else:
        s = z3.Solver()
    s.set("timeout", int(timeout_s * 1000))
    return s


def decide(formulas, *, timeout_s=60, nonlinear=False, ackermann=None, second=False, seed=0):
    """formulas: list of z3 Bool terms / python bools (conjunction).  Returns Result."""
    fs = []
    for f in formulas:
        if isconc(f):
            if not f:
                return Result("unsat", None, 0.0, "trivial")
            continue
        fs.append(f)
    if not fs:
        s0 = z3.Solver()
        s0.check()
        return Result("sat", s0.model(), 0.0, "trivial")
    ack = None
    if ackermann is None:
        ackermann = nonlinear
    if ackermann:
        ack = Ackermann(embed=nonlinear)
        fs2 = [ack.walk(f) for f in fs]
        fs2 += ack.congruence()
    else:
        fs2 = fs
    s = _mk_solver(nonlinear, timeout_s)
    s.add(fs2)
    t0 = time.time()
    r = s.check()
    dt = time.time() - t0
    status = str(r)
    name = "z3-%s%s" % (z3.get_version_string(), "/ackermann+qfnra-nlsat" if nonlinear else ("/ackermann" if ackermann else ""))
    reason = ""
    model = None
    if status == "sat":
        model = s.model()
    elif status == "unknown":
        reason = s.reason_unknown()
    res = Result(status, model, dt, name, ack, reason)
    if second and status in ("sat", "unsat"):
        st2, t2 = second_opinion(s, timeout_s, nonlinear)
        res.second = (st2, t2)
        if st2 in ("sat", "unsat") and st2 != status:
            res.status = "disagree"
            res.reason = f"z3 {z3.get_version_string()} says {status}, /usr/bin/z3 says {st2}"
    return res


def second_opinion(solver, timeout_s, nonlinear=False):
    txt = solver.to_smt2()
    if nonlinear:
        # the dump does not record the tactic: ask the second solver for the same decision procedure
        txt = txt.replace("(check-sat)", "(check-sat-using qfnra-nlsat)")
    fd, path = tempfile.mkstemp(suffix=".smt2", dir=os.environ.get("VERIF_SCRATCH", tempfile.gettempdir()))
    try:
        with os.fdopen(fd, "w") as f:
            f.write(txt)
        t0 = time.time()
        try:
            p = subprocess.run(["/usr/bin/z3", f"-T:{int(timeout_s)}", path], capture_output=True, text=True, timeout=timeout_s + 10)
            out = p.stdout
        except subprocess.TimeoutExpired:
            return "timeout", time.time() - t0
        dt = time.time() - t0
        if "(error" in out:
            return "error", dt
        first = out.strip().splitlines()[0].strip() if out.strip() else "empty"
        return first, dt
    finally:
        try:
            os.unlink(path)
        except OSError:
            pass


def num(v):
    """z3 numeral / python number -> python float|int|bool"""
    if isconc(v):
        if isinstance(v, bool):
            return v
        return v
    v = z3.simplify(v)
    if z3.is_true(v):
        return True
    if z3.is_false(v):
        return False
    if z3.is_int_value(v):
        return v.as_long()
    if z3.is_rational_value(v):
        return float(v.as_fraction())
    if z3.is_algebraic_value(v):
        return float(v.approx(20).as_fraction())
    if z3.is_fp(v):
        try:
            import math
            if z3.is_fprm_value(v):
                return None
            s = str(v)
            if "NaN" in s:
                return math.nan
            if "oo" in s:
                return -math.inf if "-" in s else math.inf
            if z3.is_fp_value(v) and v.isZero():
                return -0.0 if v.isNegative() else 0.0        # the sign of a floating-point zero is part of the model (bit patterns, 1/x, atan2)
            return float(eval(str(z3.simplify(z3.fpToReal(v)).as_fraction()))) if z3.is_fp_value(v) else None
        except Exception:
            return None
    return None
