"""Physics stubs: `mujoco.mjx.forward` / `mujoco.mjx.step` as uninterpreted functions (DESIGN.md §1.3).

    with MjxStub(model, model_operands=("body_mass", ...)) as stub:
        tr = trace(lambda env, s, a, k: env.transition(s, a, key=k), env, state, action, key)

* `forward(m, d)` returns `d` with every leaf f THAT THE REAL FUNCTION WRITES replaced by
  `FWD_<f>(qpos, qvel, ctrl, <configured model fields>)`; every other leaf is passed through unchanged.
* `step(m, d)` = `forward`, then `STEP(qpos, qvel, ctrl, ...)` for the new qpos, qvel and time and `STEP_<f>(...)` for the
  remaining leaves that the real `step` writes but `forward` does not (e.g. qacc_warmstart).
* The write-set is READ FROM THE IR OF THE REAL FUNCTION on every run: `jax.make_jaxpr(real_fn)(model, data)`; an output
  leaf that IS the corresponding input variable is untouched (e.g. `cfrc_ext` in every MJX model measured so far).
* Operand lists are kept small: the Data operands are (qpos, qvel, ctrl) by default and a model field is an operand only
  when it is named in `model_operands` (the traced values the scenario varies, e.g. the G1 randomisation).  With
  `factor=True` (default) the operands go through one scalar token `PHYS(qpos, qvel, ctrl, ...)` and every written leaf
  is `FWD_<f>(PHYS(...))`: equisatisfiable with `FWD_<f>(qpos, qvel, ctrl, ...)` (any interpretation of the direct form
  factors through an injective token on the finitely many operand tuples of a query, and vice versa) but each of the
  5-30 thousand written elements becomes a one-argument application instead of a 60-300-argument one.

Only functional dependence and the measured write-set are kept: physics is arbitrary.
"""
import contextlib
import time

import jax
import jax.numpy as jnp
import numpy as np
from mujoco import mjx

from .uf import uf

DATA_OPERANDS = ("qpos", "qvel", "ctrl")
_REAL = {"forward": mjx.forward, "step": mjx.step}


def _stage_functions():
    """every other public mjx function (Model, Data) -> Data: the partial pipeline stages (fwd_position, kinematics, euler, ...)"""
    import inspect
    out = {}
    for n in dir(mjx):
        f = getattr(mjx, n)
        if n.startswith("_") or n in _REAL or not inspect.isfunction(f):
            continue
        try:
            sig = inspect.signature(f)
        except (TypeError, ValueError):
            continue
        ps = list(sig.parameters.values())
        if (len(ps) >= 2 and "types.Model" in str(ps[0].annotation) and "types.Data" in str(ps[1].annotation) and all(q.default is not inspect.Parameter.empty for q in ps[2:])
                and str(sig.return_annotation).endswith("types.Data'>")):
            out[n] = f
    return out


_STAGES = _stage_functions()


def _part(k):
    for a in ("name", "key", "idx"):
        if hasattr(k, a):
            return str(getattr(k, a))
    return str(k)


def field_name(path):
    """'.xpos' -> xpos, '._impl.cinert' -> cinert, '._impl.contact.dist' -> contact_dist"""
    return "_".join(p for p in (_part(k) for k in path) if p != "_impl")


def leaf_table(tree):
    """[(field name, leaf)] in flattening order"""
    return [(field_name(p), l) for p, l in jax.tree_util.tree_leaves_with_path(tree)]


def measure_write_set(fn, model, data):
    """Leaves of `data` that `fn(model, data)` writes, read off the jaxpr of the real function: an output leaf that is
    the corresponding input variable is untouched.  Returns (written names, untouched names, #equations, seconds)."""
    t0 = time.time()
    leaves, treedef = jax.tree_util.tree_flatten(data)
    names = [n for n, _ in leaf_table(data)]

    def f(*ls):
        return fn(model, jax.tree_util.tree_unflatten(treedef, list(ls)))
    jp, out_shape = jax.make_jaxpr(f, return_shape=True)(*leaves)
    out_names = [n for n, _ in leaf_table(out_shape)]
    assert out_names == names and len(jp.jaxpr.invars) == len(names) == len(jp.jaxpr.outvars), "Data structure changed by the real function"
    written, untouched = [], []
    for n, iv, ov in zip(names, jp.jaxpr.invars, jp.jaxpr.outvars):
        (untouched if ov is iv else written).append(n)
    return written, untouched, len(jp.jaxpr.eqns), time.time() - t0


class MjxStub:
    """context manager replacing `mujoco.mjx.forward` / `mujoco.mjx.step` (module attributes, as lerax calls them)"""

    def __init__(self, model, data=None, model_operands=(), data_operands=DATA_OPERANDS, factor=True, measure=("forward", "step")):
        self.model_operands = tuple(model_operands)
        self.data_operands = tuple(data_operands)
        self.factor = bool(factor)
        self.written, self.untouched, self.stats = {}, {}, {}
        self.calls = {"forward": 0, "step": 0}    # partial stages are added when they are called
        data = mjx.make_data(model) if data is None else data
        self._model, self._data = model, data
        self.names = [n for n, _ in leaf_table(data)]
        assert len(set(self.names)) == len(self.names), "ambiguous Data leaf names"
        self.avals = [(tuple(np.shape(l)), np.asarray(l).dtype if not hasattr(l, "dtype") else l.dtype) for _, l in leaf_table(data)]
        for which in measure:
            w, u, neq, dt = measure_write_set(_REAL[which], model, data)
            self.written[which], self.untouched[which] = w, u
            self.stats[which] = {"equations": neq, "seconds": round(dt, 2), "written": len(w), "untouched": len(u)}
        self._saved = None

    # ------------------------------------------------------------------ the stubs
    def _operands(self, m, d):
        ops = [getattr(d, n) for n in self.data_operands]
        ops += [getattr(m, n) for n in self.model_operands]
        return [jnp.asarray(x) for x in ops]

    def _apply(self, prefix, fields, m, d, ops, group=None):
        leaves, treedef = jax.tree_util.tree_flatten(d)
        names = [n for n, _ in leaf_table(d)]
        assert names == self.names, "mjx.Data structure differs from the one the write-set was measured on"
        if self.factor:
            ops = [uf("PHYS", [((), "float32")], *ops)[0]]
        fields = set(fields)
        group = group or {}
        gnames = [n for n in names if n in group]
        if gnames:
            outs = uf(prefix, [(tuple(leaves[names.index(n)].shape), leaves[names.index(n)].dtype) for n in gnames], *ops)
            for n, o in zip(gnames, outs):
                leaves[names.index(n)] = o
        for i, n in enumerate(names):
            if n in fields and n not in group and leaves[i].size:
                leaves[i] = uf(f"{prefix}_{n}", [(tuple(leaves[i].shape), leaves[i].dtype)], *ops)[0]
        return jax.tree_util.tree_unflatten(treedef, leaves)

    def forward(self, m, d):
        self.calls["forward"] += 1
        return self._apply("FWD", self.written["forward"], m, d, self._operands(m, d))

    def step(self, m, d):
        self.calls["step"] += 1
        ops = self._operands(m, d)
        d1 = self._apply("FWD", self.written["forward"], m, d, ops)
        rest = [n for n in self.written["step"] if n not in self.written["forward"] or n in ("qpos", "qvel", "time")]
        return self._apply("STEP", rest, m, d1, ops, group={"qpos", "qvel", "time"} & set(self.written["step"]))

    def stage(self, name):
        """a partial pipeline stage (mjx.fwd_position, mjx.kinematics, ...): its own uninterpreted functions STAGE_<name>_<leaf> on the leaves the
        real stage writes (measured lazily from its jaxpr); every other leaf passes through.  A partial stage is NOT forward: a leaf it leaves
        untouched keeps its previous value, and a leaf it writes is not identified with forward's value of that leaf."""
        real = _STAGES[name]

        def stub(m, d, *a, **kw):
            if a or kw:
                return real(m, d, *a, **kw)
            self.calls[name] = self.calls.get(name, 0) + 1
            if name not in self.written:
                w, u, neq, dt = measure_write_set(real, self._model, self._data)
                self.written[name], self.untouched[name] = w, u
                self.stats[name] = {"equations": neq, "seconds": round(dt, 2), "written": len(w), "untouched": len(u)}
            return self._apply(f"STAGE_{name}", self.written[name], m, d, self._operands(m, d))
        return stub

    # ------------------------------------------------------------------ patching
    def __enter__(self):
        self._saved = {n: getattr(mjx, n) for n in ("forward", "step") + tuple(_STAGES)}
        mjx.forward, mjx.step = self.forward, self.step
        for n in _STAGES:
            setattr(mjx, n, self.stage(n))
        return self

    def __exit__(self, *a):
        for n, f in self._saved.items():
            setattr(mjx, n, f)
        return False

    @contextlib.contextmanager
    def active(self):
        with self:
            yield self

    # ------------------------------------------------------------------ oracle side / evidence
    def sym_operands(self, it, data_fields, model_fields=None):
        """flat operand list (z3 terms) in the stub's order from {name: object array}"""
        flat = []
        for n in self.data_operands:
            flat += [it.o.zf(x) for x in np.asarray(data_fields[n], dtype=object).reshape(-1)]
        for n in self.model_operands:
            flat += [it.o.zf(x) for x in np.asarray(model_fields[n], dtype=object).reshape(-1)]
        return flat

    def sym_token(self, it, flat):
        from .harness import UF
        return [UF(it, "PHYS", 0, (), flat)] if self.factor else flat

    def sym_field(self, it, prefix, name, flat, group=None):
        """object array of the terms the interpreter produces for leaf `name` written by `prefix` (FWD / STEP) on operands `flat`"""
        from .harness import UF
        ops = self.sym_token(it, flat)
        i = self.names.index(name)
        shape, dt = self.avals[i]
        out = np.empty(shape, dtype=object)
        if group is not None:
            gn = [n for n in self.names if n in group]
            for idx in np.ndindex(*shape):
                out[idx] = UF(it, prefix, gn.index(name), idx, ops, dt)
            return out
        for idx in np.ndindex(*shape):
            out[idx] = UF(it, f"{prefix}_{name}", 0, idx, ops, dt)
        return out

    def sym_step_state(self, it, flat):
        """(qpos', qvel', time') terms of STEP on operands `flat`"""
        g = {"qpos", "qvel", "time"} & set(self.written["step"])
        return {n: self.sym_field(it, "STEP", n, flat, group=g) for n in g}

    def notes(self, label=""):
        ops = ", ".join(self.data_operands + self.model_operands)
        fw, st = self.written.get("forward", []), self.written.get("step", [])
        out = [f"physics{(' (' + label + ')') if label else ''}: mjx.forward(m,d) -> d with each of the {len(fw)} leaves the real function writes (read from "
               f"jax.make_jaxpr(mjx.forward) on this model: {self.stats.get('forward')}) replaced by FWD_<leaf>({ops}); mjx.step = forward, then STEP({ops}) "
               f"for qpos, qvel, time and STEP_<leaf> for {[n for n in st if n not in fw and n not in ('qpos', 'qvel', 'time')]}; untouched leaves are passed "
               f"through unchanged (among them: {[n for n in self.untouched.get('step', self.untouched.get('forward', [])) if n in ('cfrc_ext', 'cacc', 'cfrc_int', 'xfrc_applied', 'qfrc_applied', 'mocap_pos', 'sensordata')]})"]
        if self.factor:
            out.append("physics operands go through one scalar token PHYS(operands) (FWD_<leaf>(PHYS(...))): equisatisfiable with the direct form, keeps the terms small")
        st_called = [n for n in self.calls if n not in ("forward", "step")]
        if st_called:
            out.append(f"partial pipeline stages called by the code under test: {st_called}: STAGE_<name>_<leaf> on their measured write-sets {({n: self.stats.get(n) for n in st_called})}")
        out.append("physics is arbitrary: only the functional dependence on the operands and the measured write-set are kept; dependence of the real "
                   "functions on other inputs (warm start, applied forces, mocap, time) is not modelled")
        return out
