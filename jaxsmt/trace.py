"""Front end: trace the real lerax callables to jaxprs (regenerated from /repo's working tree each run)."""
import re

import equinox as eqx
import jax
import numpy as np
from jax._src import core as _core

from .interp import Interp, arr0, kind
from .ops import isconc


def _clean(path):
    s = jax.tree_util.keystr(path)
    s = s.replace("'", "").replace('"', "")
    s = re.sub(r"[\[\]\.]+", "_", s).strip("_")
    return s


def _isleaf(l):
    return eqx.is_array(l) or isinstance(l, jax.ShapeDtypeStruct)


def leaf_names(tree, prefix=""):
    return [(prefix + _clean(p)).rstrip("_") or "x" for p, l in jax.tree_util.tree_leaves_with_path(tree) if _isleaf(l)]


class Traced:
    def __init__(self, fn, args, argnames=None, label=None):
        self.fn = fn
        self.args = args
        self.label = label or getattr(fn, "__qualname__", str(fn))
        cj, out_dyn, out_static = eqx.filter_make_jaxpr(fn)(*args)
        self.closed = cj
        self.jaxpr = cj.jaxpr
        self.consts = cj.consts
        if argnames is None:
            argnames = [f"a{i}" for i in range(len(args))]
        names = []
        for an, a in zip(argnames, args):
            names += leaf_names(a, prefix=an + ("_" if an else ""))
        names = [n.rstrip("_") for n in names]
        assert len(names) == len(self.jaxpr.invars), (self.label, len(names), len(self.jaxpr.invars))
        # make names unique
        seen = {}
        for i, n in enumerate(names):
            if n in seen:
                seen[n] += 1
                names[i] = f"{n}__{seen[n]}"
            else:
                seen[n] = 0
        self.in_names = names
        self.in_avals = [v.aval for v in self.jaxpr.invars]
        self.out_struct = out_dyn
        self.out_static = out_static
        self.out_names = leaf_names(out_dyn)
        if len(self.out_names) != len(self.jaxpr.outvars):
            self.out_names = [f"out{i}" for i in range(len(self.jaxpr.outvars))]
        self.out_avals = [v.aval for v in self.jaxpr.outvars]

    @property
    def neqns(self):
        return count_eqns(self.jaxpr)

    def symbols(self, interp, prefix="", given=None):
        """fresh symbolic inputs; `given` maps input names to arrays to use instead"""
        given = given or {}
        d = {}
        for n, av in zip(self.in_names, self.in_avals):
            if n in given:
                d[n] = arr0(given[n])
            else:
                d[n] = interp.sym(prefix + n, av.shape, av.dtype)
        return d

    def run(self, interp, inputs):
        """inputs: dict name -> array (all names) ; returns dict out_name -> array"""
        args = [inputs[n] for n in self.in_names]
        outs = interp.run(self.jaxpr, self.consts, args)
        return dict(zip(self.out_names, outs))

    def passthrough(self):
        """names of outputs that are literally an input variable: {out_name: in_name}"""
        inv = {id(v): n for v, n in zip(self.jaxpr.invars, self.in_names)}
        res = {}
        for v, n in zip(self.jaxpr.outvars, self.out_names):
            if id(v) in inv:
                res[n] = inv[id(v)]
        return res

    def describe(self):
        return {"function": self.label, "equations": self.neqns, "inputs": len(self.in_names), "outputs": len(self.out_names)}


def count_eqns(jaxpr):
    n = 0
    for e in jaxpr.eqns:
        n += 1
        for v in e.params.values():
            for sub in (v if isinstance(v, (tuple, list)) else [v]):
                j = getattr(sub, "jaxpr", sub)
                if hasattr(j, "eqns"):
                    n += count_eqns(j)
    return n


def primitives(jaxpr, acc=None):
    """primitive histogram; equinox.error_if (pjit `branched_error_if_impl`, identity on its value operands plus a raise-on-predicate host
    callback) is counted as one `error_if` and not descended into"""
    acc = {} if acc is None else acc
    for e in jaxpr.eqns:
        if e.primitive.name in ("pjit", "jit") and e.params.get("name") == "branched_error_if_impl":
            acc["error_if"] = acc.get("error_if", 0) + 1
            continue
        acc[e.primitive.name] = acc.get(e.primitive.name, 0) + 1
        for v in e.params.values():
            for sub in (v if isinstance(v, (tuple, list)) else [v]):
                j = getattr(sub, "jaxpr", sub)
                if hasattr(j, "eqns"):
                    primitives(j, acc)
    return acc


def trace(fn, *args, argnames=None, label=None):
    return Traced(fn, args, argnames=argnames, label=label)


# ---------------------------------------------------------------- path forking on bool(tracer)
class _Fork:
    decisions = []
    pos = 0
    conds = []
    active = False


_orig_bool = _core.ShapedArray._bool


def _fork_bool(aval, tr):
    if not _Fork.active:
        return _orig_bool(aval, tr)
    if _Fork.pos < len(_Fork.decisions):
        d = _Fork.decisions[_Fork.pos]
    else:
        d = True
        _Fork.decisions.append(d)
    _Fork.pos += 1
    _Fork.conds.append((tr, d))
    return d


class TooManyPaths(Exception):
    pass


def explore(fn, *args, max_paths=64, argnames=None, label=None):
    """Trace `fn` once per decision vector of `bool(traced array)`.
    Returns a list of (decisions, Traced | None, exception | None).  The traced function of a path returns
    (result, [branch conditions]) so the path condition is available to the solver."""
    _core.ShapedArray._bool = _fork_bool
    paths = []
    stack = [[]]
    try:
        while stack:
            dec = stack.pop()
            _Fork.decisions = list(dec)
            _Fork.pos = 0
            _Fork.conds = []
            _Fork.active = True
            exc = None
            tr = None

            def wrapped(*a):
                r = fn(*a)
                return r, [c for c, d in _Fork.conds]
            try:
                tr = Traced(wrapped, args, argnames=argnames, label=label)
            except (AssertionError, ValueError, TypeError) as ex:
                exc = ex
                conds = list(_Fork.conds)

                def wrapped2(*a):
                    # re-trace only up to the raising point to obtain the path condition
                    _Fork.pos = 0
                    _Fork.conds = []
                    try:
                        fn(*a)
                    except (AssertionError, ValueError, TypeError):
                        pass
                    return [c for c, d in _Fork.conds]
                try:
                    tr = Traced(wrapped2, args, argnames=argnames, label=label)
                except Exception:
                    tr = None
            finally:
                _Fork.active = False
            taken = list(_Fork.decisions)
            paths.append((taken, tr, exc))
            if len(paths) > max_paths:
                raise TooManyPaths(label or str(fn))
            for i in range(len(dec), len(taken)):
                stack.append(taken[:i] + [not taken[i]])
    finally:
        _Fork.active = False
        _core.ShapedArray._bool = _orig_bool
    return paths
