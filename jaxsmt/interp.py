"""jaxpr -> SMT interpreter (partial evaluator).

Arrays are numpy object arrays (concrete shape) whose elements are concrete Python numbers or z3 terms.
`scan` is unrolled (length is static in the IR), `cond`/`select_n` become ite, `while` is unrolled to a
stated bound with an unwinding obligation, gather/scatter with symbolic indices become ite chains,
PRNG keys are terms of a free key algebra, the `uf` primitive becomes z3 uninterpreted functions.
"""
import math
from fractions import Fraction

import numpy as np
import z3
from jax.extend import core as jcore

from .ops import FPOps, KeyS, RealOps, UFun, Unsupported, isconc, isz


def arr0(x):
    if isinstance(x, np.ndarray) and x.dtype == object:
        return x
    o = np.empty((), dtype=object)
    o[()] = x
    return o


def full(shape, v):
    o = np.empty(tuple(shape), dtype=object)
    for i in np.ndindex(*o.shape):
        o[i] = v
    return o


def emap(f, *arrs):
    if len(arrs) > 1:
        arrs = np.broadcast_arrays(*arrs)
    out = np.empty(arrs[0].shape, dtype=object)
    if out.ndim == 0:
        out[()] = f(*(a[()] for a in arrs))
        return out
    fo = out.reshape(-1)
    fl = [a.reshape(-1) for a in arrs]
    for i in range(fo.shape[0]):
        fo[i] = f(*(a[i] for a in fl))
    return fo.reshape(out.shape)


def kind(aval):
    dt = aval.dtype
    s = str(dt)
    if "key" in s:
        return "k"
    dt = np.dtype(dt)
    if dt == np.bool_:
        return "b"
    if np.issubdtype(dt, np.integer):
        return "i"
    return "f"


def ksplit(n):
    return UFun(f"ksplit{n}", [KeyS, z3.IntSort()], KeyS)


kfold = UFun("kfold", [KeyS, z3.IntSort()], KeyS)
kseed = UFun("kseed", [z3.IntSort()], KeyS)
kwrap = UFun("kwrap", [z3.IntSort(), z3.IntSort()], KeyS)          # key built from raw (symbolic) key data


krbg = UFun("krbg", [z3.IntSort()] * 4, KeyS)                     # key of the "rbg" / "unsafe_rbg" implementations built from four raw words


def kdata(i):
    """i-th 32-bit word of a key's raw data (uninterpreted; jointly injective, see concrete.key_injectivity)"""
    return UFun(f"kdata{i}", [KeyS], z3.IntSort())

UNARY_T = ("exp log log1p expm1 sin cos tan tanh sqrt rsqrt erf erf_inv logistic exp2 asin acos atan sinh cosh "
           "cbrt lgamma digamma").split()


class Interp:
    def __init__(self, mode="real", while_bound=4, fold_transcendentals=False, uf_impl=None, nonfinite_terms=False):
        self.o = RealOps() if mode == "real" else FPOps()
        if nonfinite_terms and mode == "real":
            self.o.nonfinite_terms = True
        self.o.fold_transcendentals = fold_transcendentals
        self.mode = mode
        self.side = []         # (kind, data) records: error_if predicates, unwinding conditions
        self.callbacks = []    # debug callbacks in program order: (callback repr, operands)
        self.assumptions = []  # facts introduced by the interpreter (definitions of fresh symbols)
        self.while_bound = while_bound
        self.io_seq = 0
        self.guards = []       # path conditions of the enclosing symbolic cond branches / while iterations
        self.effects = []      # host effects in program order: {"kind", "seq", "ordered", "params", "ins", "outs", "guard"}
        self.uf_impl = uf_impl  # optional concrete implementation of `uf` (validation runs)
        self.uf_apps = []       # (name, out index, element index, operand terms, result term)
        self.prim_count = {}
        self.neqns = 0

    # ------------------------------------------------------------------ values
    def lift(self, a, dtype=None):
        a = np.asarray(a)
        dt = a.dtype if dtype is None else dtype
        out = np.empty(a.shape, dtype=object)
        for i in np.ndindex(a.shape):
            out[i] = self.o.lift(a[i], dt)
        return out

    def sym(self, name, shape, dtype):
        out = np.empty(tuple(shape), dtype=object)
        if "key" in str(dtype):
            for i in np.ndindex(*out.shape):
                out[i] = z3.Const(name + "".join(f"_{j}" for j in i), KeyS)
            return out
        for i in np.ndindex(*out.shape):
            out[i] = self.o.sym(name + "".join(f"_{j}" for j in i), dtype)
        return out

    # ------------------------------------------------------------------ driver
    def run(self, jaxpr, consts, args):
        env = {}

        def read(v):
            if isinstance(v, jcore.Literal):
                return self.lift(v.val, v.aval.dtype)
            return env[v]

        for v, c in zip(jaxpr.constvars, consts):
            env[v] = c if (isinstance(c, np.ndarray) and c.dtype == object) else self._lift_const(c, v.aval)
        assert len(jaxpr.invars) == len(args), (len(jaxpr.invars), len(args))
        for v, a in zip(jaxpr.invars, args):
            a = arr0(a)
            assert tuple(a.shape) == tuple(v.aval.shape), (v, a.shape, v.aval.shape)
            env[v] = a
        for e in jaxpr.eqns:
            ins = [read(v) for v in e.invars]
            name = e.primitive.name
            self.prim_count[name] = self.prim_count.get(name, 0) + 1
            self.neqns += 1
            f = getattr(self, "p_" + name.replace("-", "_"), None)
            if f is None:
                if name in UNARY_T:
                    outs = emap(lambda x: self.o.unary(name, x), ins[0])
                else:
                    raise Unsupported(f"primitive {name}")
            else:
                outs = f(e, *ins)
            if not isinstance(outs, (list, tuple)):
                outs = [outs]
            assert len(outs) == len(e.outvars), (name, len(outs), len(e.outvars))
            for v, o in zip(e.outvars, outs):
                o = arr0(o)
                if not isinstance(v, jcore.DropVar) and tuple(o.shape) != tuple(v.aval.shape):
                    raise AssertionError(f"{name}: shape {o.shape} != aval {v.aval.shape}")
                env[v] = o
        return [read(v) for v in jaxpr.outvars]

    def _lift_const(self, c, aval):
        if "key" in str(aval.dtype):
            import jax
            data = np.asarray(jax.random.key_data(c))
            out = np.empty(aval.shape, dtype=object)
            for i in np.ndindex(*aval.shape):
                out[i] = kseed(z3.IntVal(int(data[i][-1]) + (int(data[i][0]) << 32)))
            return out
        return self.lift(np.asarray(c), aval.dtype)

    def run_closed(self, cj, args):
        return self.run(cj.jaxpr, cj.consts, args)

    # ------------------------------------------------------------------ structural
    def p_broadcast_in_dim(self, e, x, *dyn):
        shape = e.params["shape"]
        bd = e.params["broadcast_dimensions"]
        xs = [1] * len(shape)
        for i, d in enumerate(bd):
            xs[d] = x.shape[i]
        return np.broadcast_to(x.reshape(xs), shape).copy()

    def p_reshape(self, e, x, *dyn):
        return x.reshape(e.params["new_sizes"])

    def p_squeeze(self, e, x):
        return np.squeeze(x, axis=tuple(e.params["dimensions"]))

    def p_expand_dims(self, e, x):
        return np.expand_dims(x, tuple(e.params["dimensions"]))

    def p_transpose(self, e, x):
        return np.transpose(x, e.params["permutation"])

    def p_slice(self, e, x):
        P = e.params
        st = P["strides"] or (1,) * x.ndim
        return x[tuple(slice(a, b, s) for a, b, s in zip(P["start_indices"], P["limit_indices"], st))]

    def p_concatenate(self, e, *xs):
        return np.concatenate(xs, axis=e.params["dimension"])

    def p_stack(self, e, *xs):
        return np.stack(xs, axis=e.params["axis"])

    def p_pad(self, e, x, pv):
        """lax.pad: interior padding first (i fill elements between neighbours), then low / high edge padding; negative edge padding crops"""
        cfg = e.params["padding_config"]
        cur = x
        for ax, (lo, hi, i) in enumerate(cfg):
            n = cur.shape[ax]
            if i > 0:
                m = n + max(n - 1, 0) * i
                shp = list(cur.shape)
                shp[ax] = m
                spread = full(shp, pv[()])
                idx = [slice(None)] * cur.ndim
                idx[ax] = slice(0, m, i + 1)
                spread[tuple(idx)] = cur
                cur = spread
            n = cur.shape[ax]
            # negative low / high padding removes elements
            a, b = max(-lo, 0), n - max(-hi, 0)
            idx = [slice(None)] * cur.ndim
            idx[ax] = slice(a, max(b, a))
            cur = cur[tuple(idx)]
            plo, phi = max(lo, 0), max(hi, 0)
            if plo or phi:
                shp = list(cur.shape)
                shp[ax] = plo + cur.shape[ax] + phi
                out = full(shp, pv[()])
                idx = [slice(None)] * cur.ndim
                idx[ax] = slice(plo, plo + cur.shape[ax])
                out[tuple(idx)] = cur
                cur = out
        return cur.copy()

    def p_sort(self, e, *xs):
        """lax.sort: the operands are sorted together along `dimension` by the first `num_keys` operands (lexicographic, ascending, stable): an
        insertion network of compare-exchange steps over symbolic keys (n <= 16 per lane)"""
        dim = e.params["dimension"]
        nk = e.params.get("num_keys", 1)
        xs = [np.moveaxis(np.array(x, dtype=object), dim, -1) for x in xs]
        n = xs[0].shape[-1]
        if n > 16:
            raise Unsupported(f"sort of {n} elements")
        o = self.o
        outs = [np.empty(x.shape, dtype=object) for x in xs]
        for idx in np.ndindex(*xs[0].shape[:-1]):
            rows = [list(x[idx]) for x in xs]

            def less(i, j):
                # row j's key tuple strictly below row i's
                r = False
                eq_prefix = True
                for k in range(nk):
                    r = o.lor(r, o.land(eq_prefix, o.lt(rows[k][j], rows[k][i])))
                    eq_prefix = o.land(eq_prefix, o.eq(rows[k][j], rows[k][i]))
                return r
            for p_ in range(n):
                for i in range(n - 1 - p_):
                    c = less(i, i + 1)          # swap iff the later element is strictly smaller (stable)
                    for r_ in rows:
                        a, b = r_[i], r_[i + 1]
                        r_[i], r_[i + 1] = o.ite(c, b, a), o.ite(c, a, b)
            for out_, r_ in zip(outs, rows):
                for k, v in enumerate(r_):
                    out_[idx + (k,)] = v
        return [np.moveaxis(o_, -1, dim) for o_ in outs]

    def p_tile(self, e, x):
        return np.tile(x, tuple(e.params["reps"]))

    def p_rev(self, e, x):
        return np.flip(x, axis=tuple(e.params["dimensions"]))

    def p_unstack(self, e, x):
        ax = e.params["axis"]
        return [np.take(x, i, axis=ax) for i in range(x.shape[ax])]

    def p_split(self, e, x):
        ax = e.params["axis"]
        sizes = e.params["sizes"]
        idx = np.cumsum(sizes)[:-1]
        return list(np.split(x, idx, axis=ax))

    def p_iota(self, e, *dyn):
        P = e.params
        out = np.empty(tuple(P["shape"]), dtype=object)
        d = P["dimension"]
        isf = np.issubdtype(np.dtype(P["dtype"]), np.floating)
        for i in np.ndindex(*out.shape):
            out[i] = self.o.lift(i[d], P["dtype"]) if isf else int(i[d])
        return out

    def p_empty(self, e, *dyn):
        # jnp.empty: uninitialised memory = arbitrary values (fresh symbols); a result that is claimed must not depend on them
        self.n_empty = getattr(self, "n_empty", 0) + 1
        av = e.outvars[0].aval
        return self.sym(f"empty{self.n_empty}", av.shape, av.dtype)

    def p_stage(self, e, x):
        return x                   # host value staged to the device (eager-mode recordings)

    def p_device_put(self, e, *xs):
        return list(xs) if len(xs) != 1 else xs[0]

    def p_copy(self, e, x):
        return x

    p_copy_p = p_copy
    p_stop_gradient = p_copy
    p_optimization_barrier = lambda self, e, *xs: list(xs)
    p_device_put = lambda self, e, *xs: list(xs)
    p_reduce_precision = p_copy
    p_real = p_copy

    def p_convert_element_type(self, e, x):
        ok, nk = kind(e.invars[0].aval), kind(e.outvars[0].aval)
        o = self.o
        if ok == nk:
            return x
        f = {("b", "i"): o.b2i, ("b", "f"): o.b2f, ("i", "f"): o.i2f, ("f", "i"): o.f2i, ("i", "b"): o.n2b, ("f", "b"): o.n2b}[(ok, nk)]
        return emap(f, x)

    # ------------------------------------------------------------------ arithmetic
    def _isint(self, e, i=0):
        return kind(e.invars[i].aval) == "i"

    def p_add(self, e, a, b):
        return emap(self.o.add, a, b)

    p_add_any = p_add

    def p_sub(self, e, a, b):
        return emap(self.o.sub, a, b)

    def p_mul(self, e, a, b):
        return emap(self.o.mul, a, b)

    def p_neg(self, e, a):
        return emap(self.o.neg, a)

    def p_div(self, e, a, b):
        return emap(self.o.idiv if self._isint(e) else self.o.fdiv, a, b)

    def p_rem(self, e, a, b):
        return emap(self.o.irem if self._isint(e) else self.o.frem, a, b)

    def p_integer_pow(self, e, a):
        y = e.params["y"]

        def f(x):
            n = abs(y)
            r = Fraction(1) if not self._isint(e) else 1
            if self.mode != "real" and not self._isint(e):
                r = np.float32(1)
            for _ in range(n):
                r = self.o.mul(r, x)
            return r if y >= 0 else self.o.fdiv(Fraction(1) if self.mode == "real" else np.float32(1), r)
        return emap(f, a)

    def p_square(self, e, a):
        return emap(lambda x: self.o.mul(x, x), a)

    def p_one_minus_square(self, e, a):
        one = self.o.lift(1.0, e.outvars[0].aval.dtype)
        return emap(lambda x: self.o.sub(one, self.o.mul(x, x)), a)

    def p_pow(self, e, a, b):
        return emap(lambda x, y: self.o.binary("pow", x, y), a, b)

    def p_atan2(self, e, a, b):
        return emap(lambda x, y: self.o.binary("atan2", x, y), a, b)

    def p_nextafter(self, e, a, b):
        raise Unsupported("nextafter")

    def p_abs(self, e, a):
        return emap(self.o.abs, a)

    def p_sign(self, e, a):
        isint = self._isint(e)
        return emap(lambda x: self.o.sign(x, isint), a)

    def p_floor(self, e, a):
        return emap(self.o.floor, a)

    def p_ceil(self, e, a):
        return emap(self.o.ceil, a)

    def p_round(self, e, a):
        to_even = "EVEN" in str(e.params["rounding_method"])
        return emap(lambda x: self.o.round(x, to_even), a)

    def p_is_finite(self, e, a):
        return emap(self.o.is_finite, a)

    def p_min(self, e, a, b):
        return emap(self.o.min, a, b)

    def p_max(self, e, a, b):
        return emap(self.o.max, a, b)

    def p_clamp(self, e, lo, x, hi):
        return emap(lambda l, v, h: self.o.min(self.o.max(v, l), h), lo, x, hi)

    def p_lt(self, e, a, b):
        return emap(self.o.lt, a, b)

    def p_le(self, e, a, b):
        return emap(self.o.le, a, b)

    # total-order comparisons (lax.le_to / lt_to, used by searchsorted / sort): identical to <= / < on non-NaN values; NaN operands are not modelled
    # differently (REAL / XREAL obligations that reach them state non-NaN inputs)
    p_le_to = p_le
    p_lt_to = p_lt

    def p_gt(self, e, a, b):
        return emap(self.o.gt, a, b)

    def p_ge(self, e, a, b):
        return emap(self.o.ge, a, b)

    def p_eq(self, e, a, b):
        if kind(e.invars[0].aval) == "k":
            return emap(lambda x, y: x == y, a, b)
        return emap(self.o.eq, a, b)

    def p_ne(self, e, a, b):
        return emap(self.o.ne, a, b)

    def _bitwise(self, e, a, b, fb, name):
        if kind(e.invars[0].aval) == "b":
            return emap(fb, a, b)
        def f(x, y):
            if isconc(x) and isconc(y):
                return {"and": x & y, "or": x | y, "xor": x ^ y}[name]
            raise Unsupported(f"bitwise {name} on symbolic integers")
        return emap(f, a, b)

    def p_and(self, e, a, b):
        return self._bitwise(e, a, b, self.o.land, "and")

    def p_or(self, e, a, b):
        return self._bitwise(e, a, b, self.o.lor, "or")

    def p_xor(self, e, a, b):
        return self._bitwise(e, a, b, self.o.lxor, "xor")

    def p_not(self, e, a):
        if kind(e.invars[0].aval) == "b":
            return emap(self.o.lnot, a)
        return emap(lambda x: (~x if isconc(x) else -x - 1), a)

    def p_select_n(self, e, c, *cases):
        o = self.o
        if kind(e.invars[0].aval) == "b":
            f, t = cases
            return emap(lambda cc, ff, tt: o.ite(cc, tt, ff), c, f, t)

        def sel(cc, *cs):
            if isconc(cc):
                return cs[int(cc)]
            r = cs[-1]
            for j in range(len(cs) - 2, -1, -1):
                r = o.ite(cc == j, cs[j], r)
            return r
        return emap(sel, c, *cases)

    # ------------------------------------------------------------------ reductions
    def _reduce(self, e, a, f, unit):
        axes = tuple(e.params["axes"])
        if not axes:
            return a
        keep = [d for d in range(a.ndim) if d not in axes]
        at = np.transpose(a, keep + list(axes))
        oshape = tuple(a.shape[d] for d in keep)
        out = np.empty(oshape, dtype=object)
        for i in np.ndindex(*oshape):
            vals = list(at[i].reshape(-1))
            if not vals:
                out[i] = unit
                continue
            r = vals[0]
            for v in vals[1:]:
                r = f(r, v)
            out[i] = r
        return out

    def _zero(self, e):
        return self.o.lift(0, e.outvars[0].aval.dtype)

    def p_reduce_sum(self, e, a):
        return self._reduce(e, a, self.o.add, self._zero(e))

    def p_psum(self, e, *ins):
        # a collective over a vmapped named axis reaches the IR as psum over POSITIONAL axes (the batch dimension): a plain sum over those axes
        axes = tuple(e.params["axes"])
        if not all(isinstance(a, int) for a in axes) or e.params.get("axis_index_groups") is not None:
            raise Unsupported(f"psum over named axes {axes} (not under a vmap that binds them)")
        outs = []
        for a, ov in zip(ins, e.outvars):
            keep = [d for d in range(a.ndim) if d not in axes]
            at = np.transpose(a, keep + list(axes))
            out = np.empty(tuple(a.shape[d] for d in keep), dtype=object)
            for i in np.ndindex(*out.shape):
                vals = list(np.asarray(at[i], dtype=object).reshape(-1))
                r = vals[0]
                for v in vals[1:]:
                    r = self.o.add(r, v)
                out[i] = r
            outs.append(out)
        return outs

    def p_reduce_prod(self, e, a):
        return self._reduce(e, a, self.o.mul, self.o.lift(1, e.outvars[0].aval.dtype))

    def p_reduce_max(self, e, a):
        return self._reduce(e, a, self.o.max, self.o.lift(-np.inf, np.float32) if kind(e.outvars[0].aval) == "f" else None)

    def p_reduce_min(self, e, a):
        return self._reduce(e, a, self.o.min, self.o.lift(np.inf, np.float32) if kind(e.outvars[0].aval) == "f" else None)

    def p_reduce_and(self, e, a):
        return self._reduce(e, a, self.o.land, True)

    def p_reduce_or(self, e, a):
        return self._reduce(e, a, self.o.lor, False)

    def _argm(self, e, a, better):
        ax, = e.params["axes"]
        at = np.moveaxis(a, ax, -1)
        out = np.empty(at.shape[:-1], dtype=object)
        for i in np.ndindex(*out.shape):
            v = at[i]
            best, bv = 0, v[0]
            for j in range(1, len(v)):
                c = better(v[j], bv)
                best = self.o.ite(c, j, best)
                bv = self.o.ite(c, v[j], bv)
            out[i] = best
        return out

    def _nan_first(self, cmp):
        """XLA's argmax/argmin reducer: a NaN beats every non-NaN value (modes that have NaN provide `o.isnan`)"""
        isnan = getattr(self.o, "isnan", None)
        if isnan is None:
            return cmp
        o = self.o
        return lambda x, y: o.lor(cmp(x, y), o.land(isnan(x), o.lnot(isnan(y))))

    def p_argmax(self, e, a):
        return self._argm(e, a, self._nan_first(self.o.gt))

    def p_argmin(self, e, a):
        return self._argm(e, a, self._nan_first(self.o.lt))

    def _cum(self, e, a, f):
        ax = e.params["axis"]
        rev = e.params.get("reverse", False)
        at = np.moveaxis(a, ax, 0).copy()
        n = at.shape[0]
        order = range(n - 1, -1, -1) if rev else range(n)
        prev = None
        for k in order:
            if prev is not None:
                at[k] = emap(f, at[prev], at[k])
            prev = k
        return np.moveaxis(at, 0, ax)

    def p_cumsum(self, e, a):
        return self._cum(e, a, self.o.add)

    def p_cumprod(self, e, a):
        return self._cum(e, a, self.o.mul)

    def p_cummax(self, e, a):
        return self._cum(e, a, self.o.max)

    def p_cummin(self, e, a):
        return self._cum(e, a, self.o.min)

    def p_dot_general(self, e, a, b):
        (lc, rc), (lb, rb) = e.params["dimension_numbers"]
        lc, rc, lb, rb = map(tuple, (lc, rc, lb, rb))
        lfree = [d for d in range(a.ndim) if d not in lc and d not in lb]
        rfree = [d for d in range(b.ndim) if d not in rc and d not in rb]
        at = np.transpose(a, list(lb) + lfree + list(lc))
        bt = np.transpose(b, list(rb) + rfree + list(rc))
        bshape = tuple(a.shape[d] for d in lb)
        lshape = tuple(a.shape[d] for d in lfree)
        rshape = tuple(b.shape[d] for d in rfree)
        cshape = tuple(a.shape[d] for d in lc)
        out = np.empty(bshape + lshape + rshape, dtype=object)
        zero = self._zero(e)
        for bi in np.ndindex(*bshape):
            for li in np.ndindex(*lshape):
                for ri in np.ndindex(*rshape):
                    acc = zero
                    av = at[bi + li].reshape(-1) if cshape else [at[bi + li]]
                    bv = bt[bi + ri].reshape(-1) if cshape else [bt[bi + ri]]
                    for x, y in zip(av, bv):
                        acc = self.o.add(acc, self.o.mul(x, y))
                    out[bi + li + ri] = acc
        return out

    # ------------------------------------------------------------------ indexing
    def _clipidx(self, s, mx):
        if isconc(s):
            return min(max(int(s), 0), mx)
        return z3.If(s < 0, 0, z3.If(s > mx, mx, s))

    def _sel(self, operand, idx, ranges):
        o = self.o

        def rec(d, prefix):
            if d == operand.ndim:
                return operand[tuple(prefix)]
            t = idx[d]
            if isconc(t):
                return rec(d + 1, prefix + [int(t)])
            lo, hi = ranges[d]
            r = rec(d + 1, prefix + [hi])
            for v in range(hi - 1, lo - 1, -1):
                r = o.ite(t == v, rec(d + 1, prefix + [v]), r)
            return r
        return rec(0, [])

    def _iadd(self, s, k):
        if isconc(s):
            return int(s) + k
        return s + k if k else s

    def p_gather(self, e, operand, indices):
        P = e.params
        dn = P["dimension_numbers"]
        slice_sizes = P["slice_sizes"]
        mode = str(P["mode"])
        fv = P["fill_value"]
        dt = np.dtype(e.invars[0].aval.dtype) if kind(e.invars[0].aval) != "k" else None
        if fv is None and dt is not None:
            fv = np.nan if np.issubdtype(dt, np.floating) else (True if dt == np.bool_ else (np.iinfo(dt).min if np.issubdtype(dt, np.signedinteger) else np.iinfo(dt).max))
        fill = self.o.lift(fv, dt) if dt is not None else None
        offset_dims = tuple(dn.offset_dims)
        collapsed = tuple(dn.collapsed_slice_dims)
        sim = tuple(dn.start_index_map)
        obd = tuple(dn.operand_batching_dims)
        sibd = tuple(dn.start_indices_batching_dims)
        batch_shape = indices.shape[:-1]
        off_operand_dims = [d for d in range(operand.ndim) if d not in collapsed and d not in obd]
        off_shape = [slice_sizes[d] for d in off_operand_dims]
        out_rank = len(batch_shape) + len(off_shape)
        bpos = [i for i in range(out_rank) if i not in offset_dims]
        out_shape = [None] * out_rank
        for p, n in zip(bpos, batch_shape):
            out_shape[p] = n
        for p, n in zip(offset_dims, off_shape):
            out_shape[p] = n
        out = np.empty(tuple(out_shape), dtype=object)
        clip = "CLIP" in mode or "PROMISE" in mode
        for oi in np.ndindex(*out_shape):
            b = tuple(oi[p] for p in bpos)
            off = [oi[p] for p in offset_dims]
            ivec = indices[b]
            start = [0] * operand.ndim
            for k, d in enumerate(sim):
                start[d] = ivec[k]
            for bd, sd in zip(obd, sibd):
                start[bd] = b[sd]
            inb = True
            idx, ranges = [], []
            for d in range(operand.ndim):
                mx = operand.shape[d] - slice_sizes[d]
                s = start[d]
                if clip:
                    s = self._clipidx(s, mx)
                else:
                    c = self.o.land(self.o.ge(s, 0), self.o.le(s, mx))
                    inb = self.o.land(inb, c)
                    s = self._clipidx(s, mx)
                k = off[off_operand_dims.index(d)] if d in off_operand_dims else 0
                idx.append(self._iadd(s, k))
                ranges.append((k, mx + k))
            val = self._sel(operand, idx, ranges)
            out[oi] = val if clip else self.o.ite(inb, val, fill)
        return out

    def _scatter(self, e, operand, indices, updates, combine):
        P = e.params
        dn = P["dimension_numbers"]
        mode = str(P["mode"])
        uwd = tuple(dn.update_window_dims)
        iwd = tuple(dn.inserted_window_dims)
        sdod = tuple(dn.scatter_dims_to_operand_dims)
        obd = tuple(dn.operand_batching_dims)
        sibd = tuple(dn.scatter_indices_batching_dims)
        win_operand_dims = [d for d in range(operand.ndim) if d not in iwd and d not in obd]
        spos = [i for i in range(updates.ndim) if i not in uwd]
        wshape = [updates.shape[p] for p in uwd]
        clip = "CLIP" in mode
        out = operand.copy()
        o = self.o
        for ui in np.ndindex(*updates.shape):
            b = tuple(ui[p] for p in spos)
            w = [ui[p] for p in uwd]
            ivec = indices[b]
            start = [0] * operand.ndim
            for k, d in enumerate(sdod):
                start[d] = ivec[k]
            for bd, sd in zip(obd, sibd):
                start[bd] = b[sd]
            tgt = []
            inb = True
            for d in range(operand.ndim):
                k = w[win_operand_dims.index(d)] if d in win_operand_dims else 0
                wsz = wshape[win_operand_dims.index(d)] if d in win_operand_dims else 1
                s = start[d]
                mx = operand.shape[d] - wsz
                if clip:
                    s = self._clipidx(s, mx)
                else:
                    inb = o.land(inb, o.land(o.ge(s, 0), o.le(s, mx)))
                tgt.append(self._iadd(s, k))
            if inb is False:
                continue
            if all(isconc(t) for t in tgt):
                p = tuple(int(t) for t in tgt)
                if all(0 <= pp < n for pp, n in zip(p, operand.shape)):
                    out[p] = o.ite(inb, combine(out[p], updates[ui]), out[p])
                continue
            for p in np.ndindex(*operand.shape):
                c = inb
                for t, v in zip(tgt, p):
                    c = o.land(c, o.eq(t, v))
                    if c is False:
                        break
                if c is False:
                    continue
                out[p] = o.ite(c, combine(out[p], updates[ui]), out[p])
        return out

    def p_scatter(self, e, operand, indices, updates):
        return self._scatter(e, operand, indices, updates, lambda old, new: new)

    def p_scatter_add(self, e, operand, indices, updates):
        return self._scatter(e, operand, indices, updates, self.o.add)

    def p_scatter_mul(self, e, operand, indices, updates):
        return self._scatter(e, operand, indices, updates, self.o.mul)

    def p_scatter_min(self, e, operand, indices, updates):
        return self._scatter(e, operand, indices, updates, self.o.min)

    def p_scatter_max(self, e, operand, indices, updates):
        return self._scatter(e, operand, indices, updates, self.o.max)

    def p_dynamic_slice(self, e, operand, *starts):
        sizes = e.params["slice_sizes"]
        out = np.empty(tuple(sizes), dtype=object)
        st = [self._clipidx(s[()], operand.shape[d] - sizes[d]) for d, s in enumerate(starts)]
        for oi in np.ndindex(*sizes):
            idx = [self._iadd(st[d], oi[d]) for d in range(operand.ndim)]
            out[oi] = self._sel(operand, idx, [(oi[d], operand.shape[d] - sizes[d] + oi[d]) for d in range(operand.ndim)])
        return out

    def p_dynamic_update_slice(self, e, operand, update, *starts):
        st = [self._clipidx(s[()], operand.shape[d] - update.shape[d]) for d, s in enumerate(starts)]
        out = operand.copy()
        o = self.o
        if all(isconc(s) for s in st):
            out[tuple(slice(int(s), int(s) + n) for s, n in zip(st, update.shape))] = update
            return out
        for p in np.ndindex(*operand.shape):
            val = operand[p]
            for ui in np.ndindex(*update.shape):
                c = True
                for d in range(operand.ndim):
                    c = o.land(c, o.eq(self._iadd(st[d], ui[d]), p[d]))
                    if c is False:
                        break
                if c is False:
                    continue
                val = o.ite(c, update[ui], val)
            out[p] = val
        return out

    # ------------------------------------------------------------------ control flow / calls
    def _sub(self, e, ins):
        for k in ("jaxpr", "call_jaxpr", "fun_jaxpr"):
            cj = e.params.get(k)
            if cj is not None:
                if hasattr(cj, "jaxpr"):
                    return self.run(cj.jaxpr, cj.consts, ins)
                return self.run(cj, [], ins)
        raise Unsupported(f"call primitive {e.primitive.name} without jaxpr param")

    def p_pjit(self, e, *ins):
        if e.params.get("name") == "branched_error_if_impl":
            # equinox.error_if: identity on the value operands, the predicate is recorded
            preds = [i for i, v in zip(ins, e.invars) if kind(v.aval) == "b"]
            self.side.append(("error_if", preds))
            vals = [i for i, v in zip(ins, e.invars) if kind(v.aval) != "b"]
            n_out = len(e.outvars)
            # outputs mirror the trailing value operands
            cands = list(ins)
            outs = []
            used = set()    # several value operands of the same shape (error_if((high, low), ...)) map to the outputs in order
            for ov in e.outvars:
                for k, (c, iv) in enumerate(zip(cands, e.invars)):
                    if k not in used and tuple(iv.aval.shape) == tuple(ov.aval.shape) and iv.aval.dtype == ov.aval.dtype and kind(iv.aval) != "b":
                        outs.append(c)
                        used.add(k)
                        break
                else:
                    outs.append(self.lift(np.zeros(ov.aval.shape, ov.aval.dtype)))
            return outs
        return self._sub(e, ins)

    p_jit = p_pjit

    def p_closed_call(self, e, *ins):
        return self._sub(e, ins)

    p_core_call = p_closed_call
    p_remat = p_closed_call
    p_checkpoint = p_closed_call
    p_custom_lin = p_closed_call

    def p_custom_jvp_call(self, e, *ins):
        return self._sub(e, ins)

    def p_custom_vjp_call(self, e, *ins):
        return self._sub(e, ins)

    p_custom_vjp_call_jaxpr = p_custom_vjp_call

    def p_scan(self, e, *ins):
        P = e.params
        L = P["length"]
        cj = P["jaxpr"]
        if "ft_in" in P:
            consts, carry, xs = [list(t) for t in P["ft_in"].update(list(ins)).unpack()]
        else:
            nc, nk = P["num_consts"], P["num_carry"]
            consts, carry, xs = list(ins[:nc]), list(ins[nc:nc + nk]), list(ins[nc + nk:])
        nk = len(carry)
        jaxpr = cj.jaxpr if hasattr(cj, "jaxpr") else cj
        jconsts = cj.consts if hasattr(cj, "consts") else []
        order = range(L - 1, -1, -1) if P["reverse"] else range(L)
        outs = {}
        for i in order:
            r = self.run(jaxpr, jconsts, consts + carry + [arr0(x[i]) for x in xs])
            carry = r[:nk]
            outs[i] = r[nk:]
        ny = len(jaxpr.outvars) - nk
        ys = []
        for j in range(ny):
            if L:
                ys.append(np.stack([outs[i][j] for i in range(L)]))
            else:
                ov = e.outvars[nk + j]
                ys.append(np.empty(ov.aval.shape, dtype=object))
        return carry + ys

    def p_cond(self, e, idx, *ops):
        brs = e.params["branches"]
        c = idx[()]
        if isconc(c):
            b = brs[int(c)]
            return self.run(b.jaxpr, b.consts, list(ops))
        isb = z3.is_bool(c)
        res = []
        for j, b in enumerate(brs):
            self.guards.append((z3.Not(c) if j == 0 else c) if isb else (c <= 0 if j == 0 else (c >= j if j == len(brs) - 1 else c == j)))
            try:
                res.append(self.run(b.jaxpr, b.consts, list(ops)))
            finally:
                self.guards.pop()
        outs = []
        for k in range(len(res[0])):
            acc = res[-1][k]
            for j in range(len(brs) - 2, -1, -1):
                cj = (z3.Not(c) if j == 0 else c) if isb else (c == j if j > 0 else c <= 0)
                acc = emap(lambda t, f, cj=cj: self.o.ite(cj, t, f), res[j][k], acc)
            outs.append(acc)
        return outs

    def p_while(self, e, *ins):
        P = e.params
        cn, bn = P["cond_nconsts"], P["body_nconsts"]
        cconsts, bconsts, carry = list(ins[:cn]), list(ins[cn:cn + bn]), list(ins[cn + bn:])
        cj, bj = P["cond_jaxpr"], P["body_jaxpr"]
        active = True
        for it in range(self.while_bound + 1):
            c = self.run(cj.jaxpr, cj.consts, cconsts + carry)[0]
            if getattr(c, "ndim", 0) > 0:
                # vmapped while_loop with a batched predicate (JAX keeps the predicate batched; the lowering reduces it with `or`, and
                # the batched body already selects per lane): the loop runs while ANY lane's predicate holds
                anyc = False
                for x in c.reshape(-1):
                    anyc = self.o.lor(anyc, x)
                c = anyc
            else:
                c = c[()]
            active = self.o.land(active, c)
            if active is False:
                return carry
            if it == self.while_bound:
                break
            self.guards.append(active)
            try:
                new = self.run(bj.jaxpr, bj.consts, bconsts + carry)
            finally:
                self.guards.pop()
            carry = [emap(lambda n, o_, a=active: self.o.ite(a, n, o_), n, o_) for n, o_ in zip(new, carry)]
        # unwinding obligation: the loop condition must be false here on every feasible path
        self.side.append(("unwind", active))
        return carry

    # ------------------------------------------------------------------ PRNG key algebra
    def p_random_split(self, e, k):
        shape = tuple(e.params["shape"])
        n = int(np.prod(shape))
        out = np.empty(k.shape + shape, dtype=object)
        f = ksplit(n)
        for idx in np.ndindex(*k.shape):
            for j, sub in enumerate(np.ndindex(*shape)):
                out[idx + sub] = f(k[idx], z3.IntVal(j))
        return out

    def p_random_fold_in(self, e, k, d):
        return emap(lambda kk, dd: kfold(kk, self.o.z(dd)), k, d)

    def p_random_seed(self, e, s):
        return emap(lambda v: kseed(self.o.z(v)), s)

    def p_random_wrap(self, e, x):
        # raw key data -> key
        out = np.empty(x.shape[:-1], dtype=object)
        impl = str(getattr(e.params.get("impl"), "name", e.params.get("impl")))
        for i in np.ndindex(*out.shape):
            d = x[i]
            if "rbg" in impl:
                if len(d) != 4:
                    raise Unsupported(f"random_wrap[{impl}] of {len(d)} words")
                out[i] = krbg(*[self.o.z(v) for v in d])      # a key of another implementation: a different key, whatever its words
                continue
            if not all(isconc(v) for v in d):
                if len(d) != 2:
                    raise Unsupported("random_wrap of symbolic data of a non-default key implementation")
                out[i] = kwrap(self.o.z(d[0]), self.o.z(d[1]))
                continue
            out[i] = kseed(z3.IntVal(int(d[-1]) + (int(d[0]) << 32)))
        return out

    def p_random_unwrap(self, e, k):
        # key -> raw key data: concrete words for a concrete key, uninterpreted words otherwise
        shp = tuple(e.outvars[0].aval.shape)
        nw = shp[-1]
        out = np.empty(shp, dtype=object)
        for i in np.ndindex(*k.shape):
            t = k[i]
            conc = z3.is_app(t) and t.decl().name() == "kseed" and z3.is_int_value(t.arg(0)) and nw == 2
            rbg = z3.is_app(t) and t.decl().name() == "krbg" and nw == 4
            for w in range(nw):
                out[i + (w,)] = t.arg(w) if rbg else (((t.arg(0).as_long() >> 32, t.arg(0).as_long() & 0xFFFFFFFF)[w]) if conc else kdata(w)(t))
        return out

    def p_random_bits(self, e, k):
        raise Unsupported("random_bits reached: a jax.random sampler is not stubbed")

    p_threefry2x32 = p_random_bits

    # ------------------------------------------------------------------ uninterpreted functions
    def p_uf(self, e, *ins):
        name, out, nb = e.params["name"], e.params["out"], e.params["nb"]
        bshape = tuple(ins[0].shape[:nb]) if nb else ()
        res = [np.empty(tuple(s), dtype=object) for s, d in out]
        for b in np.ndindex(*bshape):
            flat = []
            for a, v in zip(ins, e.invars):
                sub = a[b] if nb else a
                k = kind(v.aval)
                for x in (sub.reshape(-1) if isinstance(sub, np.ndarray) else [sub]):
                    flat.append(x if k == "k" else (self.o.zf(x) if k == "f" else self.o.z(x)))
            sorts = [x.sort() for x in flat]
            for oi, (s, d) in enumerate(out):
                es = tuple(s)[nb:]
                for idx in np.ndindex(*es):
                    fname = f"{name}#{oi}" + "".join(f"_{i}" for i in idx)
                    t = UFun(fname, sorts, self.o.sort_of(d))(*flat)
                    res[oi][b + idx] = t
                    self.uf_apps.append((name, oi, idx, flat, t))
        return res

    # ------------------------------------------------------------------ host callbacks
    def p_debug_callback(self, e, *ins):
        self.callbacks.append((str(e.params.get("callback")), list(ins)))
        self._effect(e, ins, [])
        return []

    def _effect(self, e, ins, outs):
        g = True
        for c in self.guards:
            g = self.o.land(g, c)
        ordered = any("Ordered" in type(x).__name__ or "ordered" in str(x).lower() for x in (getattr(e, "effects", None) or ())) or bool(e.params.get("ordered", False))
        self.effects.append({"kind": e.primitive.name, "seq": len(self.effects), "ordered": ordered, "params": e.params, "ins": list(ins), "outs": list(outs), "guard": g,
                             "out_avals": [(tuple(v.aval.shape), str(v.aval.dtype)) for v in e.outvars]})

    p_debug_print = p_debug_callback

    def p_io_callback(self, e, *ins):
        self.io_seq += 1
        outs = []
        flat = []
        for a, v in zip(ins, e.invars):
            k = kind(v.aval)
            for x in a.reshape(-1):
                flat.append(x if k == "k" else (self.o.zf(x) if k == "f" else self.o.z(x)))
        for oi, ov in enumerate(e.outvars):
            o = np.empty(ov.aval.shape, dtype=object)
            for idx in np.ndindex(*o.shape):
                fname = f"IO{self.io_seq}#{oi}" + "".join(f"_{i}" for i in idx)
                o[idx] = UFun(fname, [x.sort() for x in flat], self.o.sort_of(ov.aval.dtype))(*flat) if flat else z3.Const(fname, self.o.sort_of(ov.aval.dtype))
            outs.append(o)
        self.callbacks.append(("io_callback", list(ins)))
        self._effect(e, ins, outs)
        return outs

    p_pure_callback = p_io_callback

    def p_unvmap_any(self, e, a):
        r = False
        for x in a.reshape(-1):
            r = self.o.lor(r, x)
        return arr0(r)

    def p_unvmap_all(self, e, a):
        r = True
        for x in a.reshape(-1):
            r = self.o.land(r, x)
        return arr0(r)

    def p_unvmap_max(self, e, a):
        vals = list(a.reshape(-1))
        r = vals[0]
        for v in vals[1:]:
            r = self.o.max(r, v)
        return arr0(r)
