"""Scalar operations on *elements*.

An element is either a concrete Python value (bool / int / Fraction / float-special in REAL mode,
numpy.float32 in FP32 mode) or a z3 term.  Concrete operands are folded (partial evaluation): a jaxpr
run on all-concrete inputs is therefore an exact rational (REAL) or float32 (FP32) execution, which is
what the per-run translator validation compares with JAX.
"""
import math
from fractions import Fraction

import numpy as np
import z3

F32 = z3.Float32()
RNE = z3.RNE()
KeyS = z3.DeclareSort("Key")
NAN = z3.Real("NaN")   # one shared poison symbol (REAL mode)
INF = z3.Real("INF")   # symbolic +infinity (REAL mode); assumption INF >= 2^127 available as inf_axioms()

_ufs = {}


def UFun(name, arg_sorts, out_sort):
    key = (name, tuple(str(s) for s in arg_sorts), str(out_sort))
    f = _ufs.get(key)
    if f is None:
        f = z3.Function(name, *arg_sorts, out_sort)
        _ufs[key] = f
    return f


def isz(x):
    return isinstance(x, z3.ExprRef)


def isconc(x):
    return not isinstance(x, z3.ExprRef)


def inf_axioms():
    return [INF >= z3.RealVal(2) ** 127]


class Unsupported(Exception):
    pass


FIN = z3.Function("FIN", z3.RealSort(), z3.BoolSort())


class RealOps:
    """floats are mathematical reals, ints mathematical integers"""

    mode = "real"
    fold_transcendentals = False

    # ---- construction
    def lift(self, v, dtype):
        dtype = np.dtype(dtype)
        if dtype == np.bool_:
            return bool(v)
        if np.issubdtype(dtype, np.integer):
            return int(v)
        with np.errstate(all="ignore"):
            f = float(np.asarray(v).astype(dtype)) if np.issubdtype(dtype, np.floating) else float(v)
        if f != f or f in (math.inf, -math.inf):
            return f
        return Fraction(f)

    def sym(self, name, dtype):
        dtype = np.dtype(dtype)
        if dtype == np.bool_:
            return z3.Bool(name)
        if np.issubdtype(dtype, np.integer):
            return z3.Int(name)
        return z3.Real(name)

    def sort_of(self, dtype):
        dtype = np.dtype(dtype)
        if dtype == np.bool_:
            return z3.BoolSort()
        if np.issubdtype(dtype, np.integer):
            return z3.IntSort()
        return z3.RealSort()

    def z(self, x):
        if isinstance(x, z3.ExprRef):
            return x
        if isinstance(x, (bool, np.bool_)):
            return z3.BoolVal(bool(x))
        if isinstance(x, (int, np.integer)):
            return z3.IntVal(int(x))
        if isinstance(x, Fraction):
            return z3.RealVal(x)
        if isinstance(x, (float, np.floating)):
            x = float(x)
            if x != x:
                return NAN
            if x == math.inf:
                return INF
            if x == -math.inf:
                return -INF
            return z3.RealVal(Fraction(x))
        raise TypeError(type(x))

    def zf(self, x):
        """as a z3 *real* term"""
        x = self.z(x)
        return z3.ToReal(x) if z3.is_int(x) else x

    # ---- arithmetic
    def add(self, x, y):
        if isconc(x) and isconc(y):
            return x + y
        if isconc(x) and x == 0:
            return y
        if isconc(y) and y == 0:
            return x
        return self.z(x) + self.z(y)

    def sub(self, x, y):
        if isconc(x) and isconc(y):
            return x - y
        if isconc(y) and y == 0:
            return x
        return self.z(x) - self.z(y)

    def mul(self, x, y):
        if isconc(x) and isconc(y):
            return x * y
        for a, b in ((x, y), (y, x)):
            if isconc(a):
                if a == 1:
                    return b
                if a == 0:
                    return a
        return self.z(x) * self.z(y)

    def neg(self, x):
        return -x if isconc(x) else -x

    def fdiv(self, x, y):
        if isconc(x) and isconc(y):
            if y == 0:
                if x == 0 or x != x:
                    return math.nan
                return math.copysign(math.inf, x) if not isinstance(x, Fraction) else (math.inf if x > 0 else -math.inf)
            if isinstance(x, float) or isinstance(y, float):
                return float(x) / float(y) if not (isinstance(x, float) and isinstance(y, float) and abs(x) == math.inf and abs(y) == math.inf) else math.nan
            return Fraction(x) / Fraction(y)
        if isconc(y) and y == 1:
            return x
        return self.zf(x) / self.zf(y)

    def idiv(self, x, y):
        """integer division truncating toward zero (lax.div on ints)"""
        if isconc(x) and isconc(y):
            if y == 0:
                return -1
            q = abs(x) // abs(y)
            return q if (x >= 0) == (y >= 0) else -q
        x, y = self.z(x), self.z(y)
        ay = z3.If(y >= 0, y, -y)
        q = z3.If(x >= 0, x / ay, -((-x) / ay))
        return z3.If(y >= 0, q, -q)

    def irem(self, x, y):
        if isconc(x) and isconc(y):
            if y == 0:
                return x
            r = abs(x) % abs(y)
            return r if x >= 0 else -r
        if isconc(y) and y > 0:
            x = self.z(x)
            return z3.If(x >= 0, x % y, -((-x) % y))
        return self.sub(x, self.mul(y, self.idiv(x, y)))

    def frem(self, x, y):
        """C fmod: x - y*trunc(x/y)"""
        if isconc(x) and isconc(y):
            return Fraction(math.fmod(x, y)) if isinstance(x, float) or isinstance(y, float) else (x - y * self._trunc(Fraction(x) / Fraction(y)) if y != 0 else math.nan)
        q = self.fdiv(x, y)
        return self.sub(x, self.mul(y, self.trunc(q)))

    @staticmethod
    def _trunc(q):
        return Fraction(math.trunc(q))

    def trunc(self, x):
        if isconc(x):
            return x if isinstance(x, float) else Fraction(math.trunc(x))
        x = self.zf(x)
        return z3.If(x >= 0, z3.ToReal(z3.ToInt(x)), -z3.ToReal(z3.ToInt(-x)))

    def floor(self, x):
        if isconc(x):
            return x if isinstance(x, float) else Fraction(math.floor(x))
        return z3.ToReal(z3.ToInt(self.zf(x)))

    def ceil(self, x):
        if isconc(x):
            return x if isinstance(x, float) else Fraction(math.ceil(x))
        return -z3.ToReal(z3.ToInt(-self.zf(x)))

    def round(self, x, to_even):
        if isconc(x):
            if isinstance(x, float):
                return x
            if to_even:
                return Fraction(round(x))
            return Fraction(math.floor(x + Fraction(1, 2))) if x >= 0 else -Fraction(math.floor(-x + Fraction(1, 2)))
        x = self.zf(x)
        if to_even:
            fl = z3.ToInt(x)
            d = x - z3.ToReal(fl)
            return z3.ToReal(z3.If(d < 0.5, fl, z3.If(d > 0.5, fl + 1, z3.If(fl % 2 == 0, fl, fl + 1))))
        return z3.If(x >= 0, z3.ToReal(z3.ToInt(x + 0.5)), -z3.ToReal(z3.ToInt(-x + 0.5)))

    def f2i(self, x):
        if isconc(x):
            return int(math.trunc(x)) if not isinstance(x, float) else 0
        x = self.zf(x)
        return z3.If(x >= 0, z3.ToInt(x), -z3.ToInt(-x))

    def i2f(self, x):
        if isinstance(x, np.ndarray) and x.ndim == 0:
            x = x[()]                      # an element that arrived boxed in a 0-d object array
        if isconc(x):
            return Fraction(int(x))
        return z3.ToReal(x)

    def b2i(self, x):
        if isconc(x):
            return int(x)
        return z3.If(x, z3.IntVal(1), z3.IntVal(0))

    def b2f(self, x):
        if isconc(x):
            return Fraction(int(x))
        return z3.If(x, z3.RealVal(1), z3.RealVal(0))

    def n2b(self, x):
        if isconc(x):
            return x != 0
        return x != 0

    # ---- comparisons
    def lt(self, x, y):
        return (x < y) if isconc(x) and isconc(y) else self.z(x) < self.z(y)

    def le(self, x, y):
        return (x <= y) if isconc(x) and isconc(y) else self.z(x) <= self.z(y)

    def gt(self, x, y):
        return self.lt(y, x)

    def ge(self, x, y):
        return self.le(y, x)

    def eq(self, x, y):
        if isconc(x) and isconc(y):
            return bool(x == y)
        x, y = self.z(x), self.z(y)
        if z3.is_bool(x):
            return x == y
        if x.eq(y):
            return True
        return x == y

    def ne(self, x, y):
        if self.nonfinite_terms and isinstance(x, z3.ExprRef) and isinstance(y, z3.ExprRef) and z3.is_real(x) and x.eq(y):
            return self.lnot(self.is_finite(x))       # x != x: the isnan idiom (NaN and inf are not told apart by the taint model)
        return self.lnot(self.eq(x, y))

    # ---- logic
    def land(self, x, y):
        if isconc(x):
            return y if x else False
        if isconc(y):
            return x if y else False
        return z3.And(x, y)

    def lor(self, x, y):
        if isconc(x):
            return True if x else y
        if isconc(y):
            return True if y else x
        return z3.Or(x, y)

    def lxor(self, x, y):
        if isconc(x) and isconc(y):
            return bool(x) != bool(y)
        return z3.Xor(self.z(x), self.z(y))

    def lnot(self, x):
        if isconc(x):
            return not x
        return z3.Not(x)

    def ite(self, c, t, f):
        if isconc(c):
            return t if c else f
        if isconc(t) and isconc(f):
            if type(t) is type(f) and t == f:
                return t
        elif isz(t) and isz(f) and t.eq(f):
            return t
        t, f = self.z(t), self.z(f)
        if t.sort() != f.sort():
            if z3.is_int(t):
                t = z3.ToReal(t)
            if z3.is_int(f):
                f = z3.ToReal(f)
        return z3.If(c, t, f)

    def min(self, x, y):
        return self.ite(self.le(x, y), x, y)

    def max(self, x, y):
        return self.ite(self.ge(x, y), x, y)

    def abs(self, x):
        return self.ite(self.ge(x, 0), x, self.neg(x))

    def sign(self, x, isint):
        one, zero = (1, 0) if isint else (Fraction(1), Fraction(0))
        return self.ite(self.gt(x, 0), one, self.ite(self.lt(x, 0), -one, zero))

    # REAL mode has no non-finite values; with `nonfinite_terms` set (C11 observers) is_finite of a symbolic term is an uninterpreted predicate
    # FIN(term): the program may then branch on the finiteness of a symbolic input (a NaN sentinel in a carried state), which the reals alone
    # would fold away.  Concrete finite constants are finite.
    nonfinite_terms = False

    def is_finite(self, x):
        if isconc(x):
            return not isinstance(x, float)
        if self.nonfinite_terms and z3.is_real(x):
            return self._fin(x)
        return True

    def _fin(self, t):
        """finiteness of a REAL-mode term under the NaN-taint model: input symbols carry a free predicate FIN(symbol); an arithmetic term or an
        uninterpreted application is finite iff all its operands are; a select is as finite as the branch it selects"""
        memo = self.__dict__.setdefault("_fin_memo", {})
        stack = [t]
        while stack:
            u = stack[-1]
            k = u.get_id()
            if k in memo:
                stack.pop()
                continue
            if not z3.is_app(u) or z3.is_rational_value(u) or z3.is_int_value(u) or z3.is_algebraic_value(u) or z3.is_true(u) or z3.is_false(u):
                memo[k] = True
                stack.pop()
                continue
            if u.num_args() == 0:
                memo[k] = FIN(u) if z3.is_real(u) else True
                stack.pop()
                continue
            ch = u.children()
            if u.decl().kind() == z3.Z3_OP_ITE:
                ch = ch[1:]
            todo = [c for c in ch if c.get_id() not in memo]
            if todo:
                stack.extend(todo)
                continue
            if u.decl().kind() == z3.Z3_OP_ITE:
                a, b = memo[ch[0].get_id()], memo[ch[1].get_id()]
                memo[k] = a if (a is True and b is True) else z3.If(u.arg(0), z3.BoolVal(True) if a is True else a, z3.BoolVal(True) if b is True else b)
            else:
                parts = [memo[c.get_id()] for c in ch if memo[c.get_id()] is not True]
                memo[k] = True if not parts else (parts[0] if len(parts) == 1 else z3.And(parts))
            stack.pop()
        return memo[t.get_id()]

    # ---- transcendentals: uninterpreted functions
    _pyf = dict(exp=math.exp, log=math.log, log1p=math.log1p, expm1=math.expm1, sin=math.sin, cos=math.cos, tan=math.tan,
                tanh=math.tanh, sqrt=math.sqrt, erf=math.erf, logistic=lambda v: 1 / (1 + math.exp(-v)), exp2=lambda v: 2.0 ** v,
                asin=math.asin, acos=math.acos, atan=math.atan, sinh=math.sinh, cosh=math.cosh, cbrt=lambda v: math.copysign(abs(v) ** (1 / 3), v),
                rsqrt=lambda v: 1 / math.sqrt(v))

    def unary(self, name, x):
        if isconc(x) and self.fold_transcendentals:
            try:
                return Fraction(self._pyf[name](float(x)))
            except (ValueError, OverflowError, ZeroDivisionError):
                return math.nan
            except KeyError:
                raise Unsupported(name)
        return UFun(name, [z3.RealSort()], z3.RealSort())(self.zf(x))

    def binary(self, name, x, y):
        if isconc(x) and isconc(y) and self.fold_transcendentals:
            pf = dict(pow=math.pow, atan2=math.atan2)[name]
            try:
                return Fraction(pf(float(x), float(y)))
            except (ValueError, OverflowError, ZeroDivisionError):
                return math.nan
        return UFun(name, [z3.RealSort(), z3.RealSort()], z3.RealSort())(self.zf(x), self.zf(y))


class FPOps(RealOps):
    """floats are IEEE float32 (z3 FloatingPoint theory); ints mathematical integers"""

    mode = "fp32"

    def lift(self, v, dtype):
        dtype = np.dtype(dtype)
        if dtype == np.bool_:
            return bool(v)
        if np.issubdtype(dtype, np.integer):
            return int(v)
        return np.float32(v)

    def sym(self, name, dtype):
        dtype = np.dtype(dtype)
        if dtype == np.bool_:
            return z3.Bool(name)
        if np.issubdtype(dtype, np.integer):
            return z3.Int(name)
        return z3.FP(name, F32)

    def sort_of(self, dtype):
        dtype = np.dtype(dtype)
        if dtype == np.bool_:
            return z3.BoolSort()
        if np.issubdtype(dtype, np.integer):
            return z3.IntSort()
        return F32

    def z(self, x):
        if isinstance(x, z3.ExprRef):
            return x
        if isinstance(x, (bool, np.bool_)):
            return z3.BoolVal(bool(x))
        if isinstance(x, (int, np.integer)):
            return z3.IntVal(int(x))
        if isinstance(x, (float, np.floating, Fraction)):
            f = float(x)
            if f != f:
                return z3.fpNaN(F32)
            if f == math.inf:
                return z3.fpPlusInfinity(F32)
            if f == -math.inf:
                return z3.fpMinusInfinity(F32)
            return z3.FPVal(float(np.float32(f)), F32)
        raise TypeError(type(x))

    def zf(self, x):
        x = self.z(x)
        if z3.is_int(x):
            return z3.fpToFP(RNE, z3.ToReal(x), F32)
        return x

    @staticmethod
    def _isf(x):
        return isinstance(x, (np.floating, float)) or z3.is_fp(x)

    def _fl(self, x, y):
        return self._isf(x) or self._isf(y)

    def add(self, x, y):
        if isconc(x) and isconc(y):
            with np.errstate(all="ignore"):
                return x + y
        if self._fl(x, y):
            return z3.fpAdd(RNE, self.zf(x), self.zf(y))
        return RealOps.add(self, x, y)

    def sub(self, x, y):
        if isconc(x) and isconc(y):
            with np.errstate(all="ignore"):
                return x - y
        if self._fl(x, y):
            return z3.fpSub(RNE, self.zf(x), self.zf(y))
        return RealOps.sub(self, x, y)

    def mul(self, x, y):
        if isconc(x) and isconc(y):
            with np.errstate(all="ignore"):
                return x * y
        if self._fl(x, y):
            return z3.fpMul(RNE, self.zf(x), self.zf(y))
        return RealOps.mul(self, x, y)

    def neg(self, x):
        if isconc(x):
            return -x
        return z3.fpNeg(x) if z3.is_fp(x) else -x

    def fdiv(self, x, y):
        if isconc(x) and isconc(y):
            with np.errstate(all="ignore"):
                return np.float32(x) / np.float32(y)
        return z3.fpDiv(RNE, self.zf(x), self.zf(y))

    def frem(self, x, y):
        """C fmod in IEEE arithmetic (exact, sign of x): from the IEEE remainder r = x - y*rne(x/y) (z3 fp.rem), corrected by one |y| when r has the
        wrong sign; both r and the corrected value are exactly representable, so the rounding mode of the correction is irrelevant"""
        if isconc(x) and isconc(y):
            with np.errstate(all="ignore"):
                return np.float32(np.fmod(np.float32(x), np.float32(y)))
        xs, ys = self.zf(x), self.zf(y)
        zero = z3.FPVal(0.0, xs.sort())
        ay = z3.fpAbs(ys)
        r = z3.fpRem(xs, ys)
        return z3.If(z3.And(z3.fpLT(r, zero), z3.fpGT(xs, zero)), z3.fpAdd(RNE, r, ay),
                     z3.If(z3.And(z3.fpGT(r, zero), z3.fpLT(xs, zero)), z3.fpSub(RNE, r, ay), r))

    def trunc(self, x):
        if isconc(x):
            return np.float32(np.trunc(x))
        return z3.fpRoundToIntegral(z3.RTZ(), self.zf(x))

    def floor(self, x):
        if isconc(x):
            return np.float32(np.floor(x))
        return z3.fpRoundToIntegral(z3.RTN(), self.zf(x))

    def ceil(self, x):
        if isconc(x):
            return np.float32(np.ceil(x))
        return z3.fpRoundToIntegral(z3.RTP(), self.zf(x))

    def round(self, x, to_even):
        if isconc(x):
            return np.float32(np.round(x)) if to_even else np.float32(np.trunc(x + np.copysign(np.float32(0.5), x)))
        return z3.fpRoundToIntegral(z3.RNE() if to_even else z3.RNA(), self.zf(x))

    def f2i(self, x):
        if isconc(x):
            return int(np.trunc(x)) if np.isfinite(x) else 0
        r = z3.fpToReal(z3.fpRoundToIntegral(z3.RTZ(), x))
        return z3.ToInt(r)

    def i2f(self, x):
        if isconc(x):
            return np.float32(int(x))
        return z3.fpToFP(RNE, z3.ToReal(x), F32)

    def b2f(self, x):
        if isconc(x):
            return np.float32(int(x))
        return z3.If(x, z3.FPVal(1.0, F32), z3.FPVal(0.0, F32))

    def n2b(self, x):
        if isconc(x):
            return bool(x != 0)
        if z3.is_fp(x):
            return z3.Not(z3.fpIsZero(x))
        return x != 0

    def lt(self, x, y):
        if isconc(x) and isconc(y):
            return bool(x < y)
        if self._fl(x, y):
            return z3.fpLT(self.zf(x), self.zf(y))
        return self.z(x) < self.z(y)

    def le(self, x, y):
        if isconc(x) and isconc(y):
            return bool(x <= y)
        if self._fl(x, y):
            return z3.fpLEQ(self.zf(x), self.zf(y))
        return self.z(x) <= self.z(y)

    def eq(self, x, y):
        if isconc(x) and isconc(y):
            return bool(x == y)
        if self._fl(x, y):
            return z3.fpEQ(self.zf(x), self.zf(y))
        return RealOps.eq(self, x, y)

    def ite(self, c, t, f):
        if isconc(c):
            return t if c else f
        if self._fl(t, f):
            return z3.If(c, self.zf(t), self.zf(f))
        return RealOps.ite(self, c, t, f)

    def min(self, x, y):
        # lax.min propagates NaN
        if isconc(x) and isconc(y):
            with np.errstate(all="ignore"):
                return np.minimum(x, y) if self._fl(x, y) else min(x, y)
        if self._fl(x, y):
            x, y = self.zf(x), self.zf(y)
            return z3.If(z3.fpIsNaN(x), x, z3.If(z3.fpIsNaN(y), y, z3.If(z3.fpLEQ(x, y), x, y)))
        return RealOps.min(self, x, y)

    def max(self, x, y):
        if isconc(x) and isconc(y):
            with np.errstate(all="ignore"):
                return np.maximum(x, y) if self._fl(x, y) else max(x, y)
        if self._fl(x, y):
            x, y = self.zf(x), self.zf(y)
            return z3.If(z3.fpIsNaN(x), x, z3.If(z3.fpIsNaN(y), y, z3.If(z3.fpGEQ(x, y), x, y)))
        return RealOps.max(self, x, y)

    def abs(self, x):
        if isconc(x):
            return abs(x)
        return z3.fpAbs(x) if z3.is_fp(x) else RealOps.abs(self, x)

    def sign(self, x, isint):
        if isint:
            return RealOps.sign(self, x, True)
        if isconc(x):
            return np.float32(np.sign(x))
        return z3.If(z3.fpIsNaN(x), x, z3.If(z3.fpGT(x, z3.FPVal(0.0, F32)), z3.FPVal(1.0, F32), z3.If(z3.fpLT(x, z3.FPVal(0.0, F32)), z3.FPVal(-1.0, F32), x)))

    def is_finite(self, x):
        if isconc(x):
            return bool(np.isfinite(x))
        return z3.And(z3.Not(z3.fpIsNaN(x)), z3.Not(z3.fpIsInf(x)))

    def isnan(self, x):
        if isconc(x):
            return bool(x != x)
        return z3.fpIsNaN(x) if z3.is_fp(x) else False

    def unary(self, name, x):
        if name == "sqrt":
            if isconc(x):
                with np.errstate(all="ignore"):
                    return np.float32(np.sqrt(x))
            return z3.fpSqrt(RNE, self.zf(x))
        if isconc(x) and self.fold_transcendentals:
            with np.errstate(all="ignore"):
                return np.float32(RealOps._pyf[name](float(x)))
        return UFun(name + "_f32", [F32], F32)(self.zf(x))

    def binary(self, name, x, y):
        return UFun(name + "_f32", [F32, F32], F32)(self.zf(x), self.zf(y))
