"""Eager-mode recorder: the program a real lerax callable executes when it is called EAGERLY (no jit / vmap / make_jaxpr around it).

`eqx.filter_make_jaxpr` shows what a function does when its arguments are tracers; code that behaves differently when nothing is traced
(`isinstance(x, Tracer)` tests, module-level caches of compiled functions, host-side state) is invisible there.  Here the function is
CALLED on concrete arrays under `jax.disable_jit()` (every jit-wrapped helper then runs its Python body op by op, like the surrounding
eager code) while `EvalTrace.process_primitive` is intercepted: every primitive application is logged with the identity of its operand
and result arrays.  The log is turned into a jaxpr-shaped program

    * inputs   : the array leaves of the explicit arguments (matched by object identity),
    * constants: literals (Python / NumPy scalars) and HIDDEN inputs -- jax arrays that are neither explicit arguments nor results of a
                 logged primitive (e.g. the leaves of ANOTHER object captured by a cache); they are reported in `.hidden`,
    * equations: the logged primitive applications in execution order,

which `Interp.run` executes symbolically like any traced jaxpr.  Control flow is resolved on the concrete recording inputs (lax.cond /
while under disable_jit are Python control flow): the recorded program is the path those inputs take, so callers only use it for
components whose traced program has no control-flow primitive (stated by the check).
"""
import equinox as eqx
import jax
import numpy as np
from jax._src import core as _core

from .trace import Traced, leaf_names


class _Var:
    __slots__ = ("aval",)

    def __init__(self, aval):
        self.aval = aval


class _Eqn:
    __slots__ = ("primitive", "params", "invars", "outvars")

    def __init__(self, primitive, params, invars, outvars):
        self.primitive, self.params, self.invars, self.outvars = primitive, params, invars, outvars


class _Jaxpr:
    def __init__(self, constvars, invars, eqns, outvars):
        self.constvars, self.invars, self.eqns, self.outvars = constvars, invars, eqns, outvars


class _Rec:
    active = None


_orig = _core.EvalTrace.process_primitive


def _process(self, primitive, args, params, /):
    rec = _Rec.active
    if rec is None or rec["depth"] > 0:
        return _orig(self, primitive, args, params)
    rec["depth"] += 1
    try:
        outs = _orig(self, primitive, args, params)
    finally:
        rec["depth"] -= 1
    rec["log"].append((primitive, dict(params), list(args), list(outs) if primitive.multiple_results else [outs]))
    return outs


_core.EvalTrace.process_primitive = _process


def _aval(x):
    if hasattr(x, "aval"):
        return x.aval
    try:
        return jax.typeof(x)
    except Exception:  # noqa: BLE001
        a = np.asarray(x)
        return _core.ShapedArray(a.shape, a.dtype)


class EagerTraced(Traced):
    """same interface as trace.Traced (in_names, in_avals, out_names, run, symbols), built from an eager execution"""

    def __init__(self, fn, args, argnames=None, label=None, before=None):
        self.fn = fn
        self.args = args
        self.label = label or ("eager " + getattr(fn, "__qualname__", str(fn)))
        if argnames is None:
            argnames = [f"a{i}" for i in range(len(args))]
        # every array leaf of the explicit arguments becomes its own object (two fields holding the SAME array object -- dt0 = dt -- would otherwise be
        # one input of the recording but two inputs of the traced program)
        def fresh(l):
            if eqx.is_array(l) and not jax.dtypes.issubdtype(l.dtype, jax.dtypes.prng_key):
                return jax.numpy.array(l, copy=True)
            return l
        args = jax.tree_util.tree_map(fresh, args)
        self.args = args
        in_leaves = [l for l in jax.tree_util.tree_leaves(args) if eqx.is_array(l)]
        ids = {}
        self.aliases = []
        names = []
        for an, a in zip(argnames, args):
            names += leaf_names(a, prefix=an + ("_" if an else ""))
        names = [n.rstrip("_") for n in names]
        assert len(names) == len(in_leaves), (self.label, len(names), len(in_leaves))
        seen = {}
        for i, n in enumerate(names):
            if n in seen:
                seen[n] += 1
                names[i] = f"{n}__{seen[n]}"
            else:
                seen[n] = 0
        rec = {"depth": 0, "log": []}
        with jax.disable_jit():
            if before is not None:
                before()             # process history that is NOT part of the recorded call (e.g. an eager call on another instance)
            _Rec.active = rec
            try:
                result = fn(*args)
            finally:
                _Rec.active = None
        out_dyn, out_static = eqx.partition(result, eqx.is_array)
        out_leaves = jax.tree_util.tree_leaves(out_dyn)
        var = {}
        keep = []          # keep every array alive so that ids stay unique
        invars = []
        for n_, l in zip(names, in_leaves):
            v = _Var(_aval(l))
            invars.append(v)
            if id(l) in ids:
                self.aliases.append((ids[id(l)], n_))      # still the same object (key leaves): the caller assumes the two inputs equal
            ids.setdefault(id(l), n_)
            var.setdefault(id(l), v)
            keep.append(l)
        constvars, consts, eqns = [], [], []
        self.hidden = []

        def use(x):
            v = var.get(id(x))
            if v is not None:
                return v
            v = _Var(_aval(x))
            constvars.append(v)
            consts.append(x)
            keep.append(x)
            var[id(x)] = v
            if isinstance(x, jax.Array):
                self.hidden.append({"shape": tuple(x.shape), "dtype": str(x.dtype), "first_values": np.asarray(jax.random.key_data(x) if jax.dtypes.issubdtype(x.dtype, jax.dtypes.prng_key) else x).reshape(-1)[:4].tolist()})
            return v
        for prim, params, ins, outs in rec["log"]:
            iv = [use(x) for x in ins]
            ov = []
            for o in outs:
                v = _Var(_aval(o))
                var[id(o)] = v
                keep.append(o)
                ov.append(v)
            eqns.append(_Eqn(prim, params, iv, ov))
        outvars = [use(o) for o in out_leaves]
        self._keep = keep
        self.jaxpr = _Jaxpr(constvars, invars, eqns, outvars)
        self.consts = consts
        self.closed = None
        self.in_names = names
        self.in_avals = [v.aval for v in invars]
        self.out_struct = out_dyn
        self.out_static = out_static
        self.out_names = leaf_names(out_dyn)
        if len(self.out_names) != len(outvars):
            self.out_names = [f"out{i}" for i in range(len(outvars))]
        self.out_avals = [v.aval for v in outvars]

    @property
    def neqns(self):
        return len(self.jaxpr.eqns)

    def primitives(self):
        acc = {}
        for e in self.jaxpr.eqns:
            acc[e.primitive.name] = acc.get(e.primitive.name, 0) + 1
        return acc


def record_eager(fn, *args, argnames=None, label=None, before=None):
    return EagerTraced(fn, args, argnames=argnames, label=label, before=before)
