"""Environment-of-the-code stubs, active only inside `with prng_stubs():` (tracing) — see DESIGN.md §1.3.

PRNG samplers become uninterpreted functions of the key (and, where the contract needs them, of the
parameters); `contracts(interp)` turns the recorded applications into the documented range contracts.
Same key + same arguments => same draw (UF congruence).  Independence / uniformity is NOT modelled.
"""
import contextlib

import jax
import jax._src.random as jsr
import jax.numpy as jnp
import numpy as np
import z3

from .ops import INF, isconc
from .uf import uf

GUMBEL_LO, GUMBEL_HI = -5.0, 90.0   # range of -log(-log(u)) for float32 u in (tiny, 1-eps)


def _shape(shape):
    if shape is None:
        return ()
    if isinstance(shape, (int, np.integer)):
        return (int(shape),)
    return tuple(int(s) for s in shape)


def s_uniform(key, shape=(), dtype=float, minval=0.0, maxval=1.0, **kw):
    minval = jnp.asarray(minval, jnp.float32)
    maxval = jnp.asarray(maxval, jnp.float32)
    shape = _shape(shape) or jnp.broadcast_shapes(minval.shape, maxval.shape)
    u = uf("RAND_u01", [(shape, "float32")], key)[0]
    # mirrors jax.random.uniform's own post-processing
    return jnp.maximum(minval, u * (maxval - minval) + minval)


def s_normal(key, shape=(), dtype=float, **kw):
    return uf("RAND_normal", [(_shape(shape), "float32")], key)[0]


def s_exponential(key, shape=(), dtype=float, **kw):
    return uf("RAND_exponential", [(_shape(shape), "float32")], key)[0]


def s_gumbel(key, shape=(), dtype=float, **kw):
    return uf("RAND_gumbel", [(_shape(shape), "float32")], key)[0]


def s_bernoulli(key, p=0.5, shape=None, **kw):
    p = jnp.asarray(p, jnp.float32)
    shape = _shape(shape) if shape is not None else p.shape
    u = uf("RAND_u01", [(shape, "float32")], key)[0]
    return u < p


def s_randint(key, shape, minval, maxval, dtype=int, **kw):
    shape = _shape(shape)
    lo = jnp.broadcast_to(jnp.asarray(minval, jnp.int32), shape)
    hi = jnp.broadcast_to(jnp.asarray(maxval, jnp.int32), shape)
    return uf("RAND_randint", [(shape, "int32")], key, lo, hi)[0]


def s_choice(key, a, shape=(), replace=True, p=None, axis=0, **kw):
    if not isinstance(a, (int, np.integer)):
        raise NotImplementedError("choice over an array")
    n = int(a)
    shape = _shape(shape)
    pp = jnp.full((n,), 1.0 / n, jnp.float32) if p is None else jnp.asarray(p, jnp.float32)
    return uf(f"RAND_choice_{'repl' if replace else 'norepl'}", [(shape, "int32")], key, pp, int_mod=n)[0]


def s_permutation(key, x, axis=0, independent=False, **kw):
    if not isinstance(x, (int, np.integer)):
        raise NotImplementedError("permutation of an array")
    return uf("RAND_permutation", [((int(x),), "int32")], key, int_mod=int(x))[0]


TABLE = dict(uniform=s_uniform, normal=s_normal, exponential=s_exponential, gumbel=s_gumbel, bernoulli=s_bernoulli, randint=s_randint,
             choice=s_choice, permutation=s_permutation)

STUB_NOTES = [
    "jax.random.uniform -> max(minval, u*(maxval-minval)+minval) with u = RAND_u01(key), contract 0 <= u < 1 (mirrors JAX's own post-processing)",
    "jax.random.bernoulli(key,p) -> RAND_u01(key) < p (as JAX implements it)",
    "jax.random.normal -> arbitrary finite real; exponential -> arbitrary real >= 0; gumbel -> real in [-5, 90]",
    "jax.random.randint -> integer in [minval, maxval)",
    "jax.random.choice(n, replace=False, p) -> distinct indices in [0,n) with p[i] > 0; replace=True -> indices with p[i] > 0",
    "jax.random.permutation(n) -> a permutation of 0..n-1",
    "jax.random.categorical is NOT stubbed: it runs its own argmax(logits + gumbel) on the stubbed gumbel",
    "same key and same arguments give the same draw (UF congruence); independence and uniformity of draws are not modelled",
]


@contextlib.contextmanager
def prng_stubs(only=None):
    saved = {}
    mods = [jax.random, jsr]
    try:  # JAX >= 0.11: the samplers live in jax._src.random.core; internal calls (categorical -> gumbel) resolve there
        import jax._src.random.core as jsrc
        mods.append(jsrc)
    except ImportError:
        pass
    for mod in mods:
        for n, f in TABLE.items():
            if only is not None and n not in only:
                continue
            saved[(mod, n)] = getattr(mod, n)
            setattr(mod, n, f)
    try:
        yield
    finally:
        for (mod, n), f in saved.items():
            setattr(mod, n, f)


def contracts(interp):
    """range contracts for every RAND_* application recorded by the interpreter"""
    o = interp.o
    out = []
    groups = {}
    for name, oi, idx, operands, t in interp.uf_apps:
        if not name.startswith("RAND_"):
            continue
        if name == "RAND_u01":
            out += [o.ge(t, o.lift(0.0, np.float32)), o.lt(t, o.lift(1.0, np.float32))]
        elif name == "RAND_normal":
            out += _finite(o, t)
        elif name == "RAND_exponential":
            out += [o.ge(t, o.lift(0.0, np.float32))] + _finite(o, t)
        elif name == "RAND_gumbel":
            out += [o.ge(t, o.lift(GUMBEL_LO, np.float32)), o.le(t, o.lift(GUMBEL_HI, np.float32))]
        elif name == "RAND_randint":
            n = (len(operands) - 1) // 2
            # flat position of idx inside the output: operands are [key, lo(flat n), hi(flat n)]
            groups.setdefault((name, tuple(x.get_id() for x in operands)), []).append((idx, t, operands))
        elif name.startswith("RAND_choice") or name == "RAND_permutation":
            groups.setdefault((name, tuple(x.get_id() for x in operands)), []).append((idx, t, operands))
    for (name, _), items in groups.items():
        items.sort(key=lambda it: it[0])
        # the same application may be recorded several times (the code draws twice with the same key and arguments):
        # it is ONE draw (UF congruence) -- listing its terms twice would make Distinct(...) below unsatisfiable
        seen_ids = set()
        items = [x for x in items if not (x[1].get_id() in seen_ids or seen_ids.add(x[1].get_id()))]
        ts = [t for _, t, _ in items]
        operands = items[0][2]
        if name == "RAND_randint":
            n = (len(operands) - 1) // 2
            for p, t in enumerate(ts):
                out += [t >= operands[1 + p], t < operands[1 + n + p]]
        elif name == "RAND_permutation":
            n = len(ts)
            out += [z3.And(t >= 0, t < n) for t in ts]
            if n > 1:
                out.append(z3.Distinct(ts))
        else:
            probs = operands[1:]
            n = len(probs)
            for t in ts:
                out += [t >= 0, t < n]
                # the chosen index has positive probability
                out.append(z3.Or([z3.And(t == i, o.gt(probs[i], o.lift(0.0, np.float32))) for i in range(n)]))
            if name.endswith("norepl") and len(ts) > 1:
                out.append(z3.Distinct(ts))
    return [c for c in out if not (isconc(c) and c)]


def _finite(o, t):
    if z3.is_fp(t):
        return [z3.Not(z3.fpIsNaN(t)), z3.Not(z3.fpIsInf(t))]
    return [t > -INF, t < INF]


# ------------------------------------------------------------------ ODE integrator (diffrax.diffeqsolve)
class _Sol:
    def __init__(self, ys):
        self.ys = ys
        self.ts = None


def s_diffeqsolve(terms, solver=None, t0=None, t1=None, dt0=None, y0=None, args=None, saveat=None, stepsize_controller=None, **kw):
    """Euler + ConstantStepSize + dt0 == t1 - t0 (what lerax passes): exactly one explicit Euler step of the REAL vector
    field; any other solver: FLOW(t0, t1, y0, args) — an arbitrary function (finite by contract)."""
    import diffrax
    if isinstance(solver, diffrax.Euler) and isinstance(stepsize_controller, diffrax.ConstantStepSize) and dt0 is not None:
        y1 = y0 + dt0 * terms.vf(t0, y0, args)
    else:
        leaves = [l for l in jax.tree_util.tree_leaves(args) if hasattr(l, "dtype")]
        y1 = uf("FLOW", [(tuple(y0.shape), "float32")], t0, t1, y0, *leaves)[0]
    return _Sol(jnp.asarray(y1)[None])


ODE_NOTES = [
    "diffrax.diffeqsolve (824-956 equations with while/nextafter/pure_callback) is stubbed: Euler+ConstantStepSize+dt0 -> one explicit Euler step "
    "y0 + dt0*f(t0,y0,a) of the REAL vector field; any other solver -> FLOW(t0,t1,y0,action), an arbitrary finite function",
]


@contextlib.contextmanager
def ode_stub():
    import diffrax
    saved = diffrax.diffeqsolve
    diffrax.diffeqsolve = s_diffeqsolve
    try:
        yield
    finally:
        diffrax.diffeqsolve = saved
