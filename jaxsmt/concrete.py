"""Concrete execution: translator validation (interpreter vs JAX on the same inputs) and replay of solver
models against the real code (uninterpreted functions bound to the interpretation the model assigns)."""
import math
from fractions import Fraction

import equinox as eqx
import jax
import jax.numpy as jnp
import numpy as np
import z3

from . import solve
from .interp import Interp, arr0, kdata, kind
from .ops import KeyS, isconc
from .trace import _isleaf
from .uf import GenericWorld, world


def is_keyaval(av):
    return "key" in str(av.dtype)


def rebuild_args(traced, leaf_values):
    leaves, treedef = jax.tree_util.tree_flatten(traced.args)
    it = iter(leaf_values)
    new = []
    for l in leaves:
        if _isleaf(l):
            new.append(next(it))
        else:
            new.append(l)
    return jax.tree_util.tree_unflatten(treedef, new)


def random_leaf(av, rng, name="", gen=None):
    if gen is not None:
        v = gen(name, av, rng)
        if v is not None:
            return v
    if is_keyaval(av):
        ks = jax.random.split(jax.random.key(int(rng.integers(1 << 30))), int(np.prod(av.shape)) or 1)
        return ks.reshape(av.shape) if av.shape else ks[0]
    dt = np.dtype(av.dtype)
    if dt == np.bool_:
        return jnp.asarray(rng.random(av.shape) < 0.5)
    if np.issubdtype(dt, np.integer):
        return jnp.asarray(rng.integers(0, 3, size=av.shape), dtype=dt)
    # dyadic rationals keep float32 arithmetic close to exact
    mag = np.round(rng.uniform(0.25, 2.0, size=av.shape) * 8) / 8
    return jnp.asarray(mag * rng.choice([-1.0, 1.0], size=av.shape), dtype=dt)


def run_real(traced, leaf_values, w=None, jit=False):
    args = rebuild_args(traced, leaf_values)
    fn = traced.fn
    # `uf` behaves differently in symbolic and concrete worlds: never reuse a jit/tracing cache entry across them
    jax.clear_caches()
    try:
        if w is not None:
            with world(w):
                out = fn(*args)
                out = jax.block_until_ready(out)
        else:
            out = fn(*args)
    finally:
        jax.clear_caches()
    leaves = [l for l in jax.tree_util.tree_leaves(out) if eqx.is_array(l)]
    return leaves


def lift_leaf(interp, v, av):
    if is_keyaval(av):
        out = np.empty(av.shape, dtype=object)
        for i in np.ndindex(*av.shape):
            out[i] = ConcKey(v[i] if av.shape else v)
        return out
    return interp.lift(np.asarray(v), av.dtype)


class ConcKey:
    """a concrete PRNG key as an interpreter element"""
    __slots__ = ("key",)

    def __init__(self, key):
        self.key = key

    def data(self):
        return np.asarray(jax.random.key_data(self.key))


class ConcInterp(Interp):
    """interpreter on all-concrete inputs: keys are real JAX keys, `uf` is evaluated by a world"""

    def __init__(self, mode="real", w=None, **kw):
        super().__init__(mode=mode, fold_transcendentals=True, **kw)
        self.w = w

    def p_random_split(self, e, k):
        shape = tuple(e.params["shape"])
        n = int(np.prod(shape))
        out = np.empty(k.shape + shape, dtype=object)
        for idx in np.ndindex(*k.shape):
            ks = jax.random.split(k[idx].key, n)
            for j, sub in enumerate(np.ndindex(*shape)):
                out[idx + sub] = ConcKey(ks[j])
        return out

    def p_random_fold_in(self, e, k, d):
        out = np.empty(k.shape, dtype=object)
        k, d = np.broadcast_arrays(k, d)
        out = np.empty(k.shape, dtype=object)
        for i in np.ndindex(*k.shape):
            out[i] = ConcKey(jax.random.fold_in(k[i].key, int(d[i])))
        return out

    def p_uf(self, e, *ins):
        name, out, nb = e.params["name"], e.params["out"], e.params["nb"]
        bshape = tuple(ins[0].shape[:nb]) if nb else ()
        res = [np.empty(tuple(s), dtype=object) for s, d in out]
        keypos = [kind(v.aval) == "k" for v in e.invars]
        base_out = tuple((tuple(s)[nb:], d) for s, d in out)
        for b in np.ndindex(*bshape):
            ops = []
            for a, v, kp in zip(ins, e.invars, keypos):
                sub = a[b] if nb else a
                sub = arr0(sub) if not isinstance(sub, np.ndarray) else sub
                if kp:
                    ops.append(np.stack([x.data() for x in sub.reshape(-1)]).reshape(sub.shape + (-1,)) if sub.shape else sub[()].data())
                else:
                    dt = np.dtype(v.aval.dtype)
                    ops.append(np.asarray([float(x) if kind(v.aval) == "f" else x for x in sub.reshape(-1)], dtype=dt).reshape(sub.shape))
            r = self.w.apply(name, base_out, ops, keypos, e.params.get("int_mod"))
            for oi, (s, d) in enumerate(base_out):
                rr = np.asarray(r[oi]).reshape(s)
                for idx in np.ndindex(*s):
                    res[oi][b + idx] = self.o.lift(rr[idx], d)
        return res


def to_float(x):
    if isinstance(x, bool):
        return float(x)
    if isinstance(x, (int, Fraction, float, np.floating, np.integer)):
        return float(x)
    if isinstance(x, ConcKey):
        return float(int(x.data()[-1]))
    if isinstance(x, z3.ExprRef):
        v = solve.num(x)
        return float(v) if v is not None else math.nan
    return float(x)


def arr_to_float(a):
    out = np.empty(a.shape, dtype=np.float64)
    for i in np.ndindex(*a.shape):
        out[i] = to_float(a[i])
    return out


def real_to_float(l):
    if jax.dtypes.issubdtype(l.dtype, jax.dtypes.prng_key):
        d = np.asarray(jax.random.key_data(l))
        return d[..., -1].astype(np.float64)
    return np.asarray(l, dtype=np.float64)


def validate(check, traced, n=2, seed=0, mode="real", gen=None, rtol=2e-3, atol=2e-4, use_world=True, label=None):
    """translator validation: the real function run by JAX vs the interpreter on the traced jaxpr, same concrete inputs"""
    rng = np.random.default_rng(seed + 17)
    bad = 0
    for t in range(n):
        vals = [random_leaf(av, rng, nm, gen) for nm, av in zip(traced.in_names, traced.in_avals)]
        w1 = GenericWorld(seed=seed + t) if use_world else None
        w2 = GenericWorld(seed=seed + t) if use_world else None
        real = run_real(traced, vals, w1)
        it = ConcInterp(mode=mode, w=w2)
        sym = it.run(traced.jaxpr, traced.consts, [lift_leaf(it, v, av) for v, av in zip(vals, traced.in_avals)])
        got = [arr_to_float(a) for a in sym]
        want = [real_to_float(l) for l in real]
        if len(got) != len(want):
            # outputs with non-array leaves: compare the common prefix by shape
            want = want[:len(got)]
        for g, wv, nm in zip(got, want, traced.out_names):
            if g.shape != wv.shape or not np.allclose(g, wv, rtol=rtol, atol=atol, equal_nan=True):
                bad += 1
                check.log(f"translator validation MISMATCH in {label or traced.label} output {nm}: jax={wv.reshape(-1)[:6]} interp={g.reshape(-1)[:6]}")
        check.validation["points"] += 1
    check.validation["programs"] += 1
    check.validation["mismatches"] += bad
    if bad:
        ob = check._new(f"translator.{label or traced.label}", "witness")
        ob.status = "mismatch"
        check.inconclusive.append(ob)
    return bad == 0


# ------------------------------------------------------------------------- replay of solver models
def key_terms(exprs):
    """all Key-sorted subterms"""
    seen, out = set(), []
    stack = [e for e in exprs if isinstance(e, z3.ExprRef)]
    while stack:
        t = stack.pop()
        i = t.get_id()
        if i in seen:
            continue
        seen.add(i)
        if t.sort() == KeyS and z3.is_app(t) and t.decl().kind() == z3.Z3_OP_UNINTERPRETED:
            # constants and ksplit/kfold/kseed applications only (an ite of keys denotes one of its branches)
            out.append(t)
        if z3.is_app(t):
            stack.extend(t.children())
    return out


def key_injectivity(pairs):
    """instances of the free-algebra (idealised PRNG) injectivity of the key constructors along the given pairs of key terms:
    ksplit_n(k, j), kfold(k, d), kseed(n), kwrap(d0, d1) are injective in their arguments; a key is determined by ALL of its data words
    (kdata0(k) = kdata0(k') and kdata1(k) = kdata1(k') => k = k') but not by one of them"""
    out, seen = [], set()
    stack = list(pairs)
    while stack:
        a, b = stack.pop()
        if not (isinstance(a, z3.ExprRef) and isinstance(b, z3.ExprRef)) or (a.get_id(), b.get_id()) in seen or a.get_id() == b.get_id():
            continue
        seen.add((a.get_id(), b.get_id()))
        if z3.is_app(a) and z3.is_app(b) and a.decl().get_id() == b.decl().get_id() and a.num_args() == b.num_args() and a.num_args() > 0:
            d = a.decl().name()
            if d.startswith("ksplit") or d in ("kfold", "kseed", "kwrap"):
                out.append(z3.Implies(a == b, z3.And([a.arg(i) == b.arg(i) for i in range(a.num_args())])))
            elif d.startswith("kdata"):
                ka, kb = a.arg(0), b.arg(0)
                out.append(z3.Implies(z3.And(kdata(0)(ka) == kdata(0)(kb), kdata(1)(ka) == kdata(1)(kb)), ka == kb))
            for i in range(a.num_args()):
                stack.append((a.arg(i), b.arg(i)))
    return out


def key_axioms(exprs):
    """idealised PRNG: syntactically distinct key terms denote distinct keys"""
    ks = key_terms(exprs)
    uniq = {}
    for k in ks:
        uniq[k.get_id()] = k
    ks = list(uniq.values())
    return [z3.Distinct(ks)] if len(ks) > 1 else []


class KeyBinding:
    """concrete keys for the Key-sorted terms of a query"""

    def __init__(self, res, seed=1000):
        self.res = res
        self.conc = {}   # term id -> jax key
        self.seed = seed
        self.n = 0
        self.by_data = {}

    def concrete(self, t):
        i = t.get_id()
        if i in self.conc:
            return self.conc[i]
        d = t.decl().name() if z3.is_app(t) else ""
        if z3.is_app(t) and t.num_args() == 2 and d.startswith("ksplit"):
            n = int(d[len("ksplit"):])
            base = self.concrete(t.arg(0))
            j = solve.num(self.res.value(t.arg(1)))
            k = jax.random.split(base, n)[int(j)]
        elif z3.is_app(t) and t.num_args() == 2 and d == "kfold":
            base = self.concrete(t.arg(0))
            k = jax.random.fold_in(base, int(solve.num(self.res.value(t.arg(1)))))
        elif z3.is_app(t) and t.num_args() == 1 and d == "kseed":
            k = jax.random.key(int(solve.num(self.res.value(t.arg(0)))) & 0xFFFFFFFF)
        elif z3.is_app(t) and d in ("krbg", "kwrap"):
            # keys rebuilt from raw words: a word that is `kdata_w(k')` takes the real word of the concrete key chosen for k' (the model's integer for it is
            # arbitrary: key data is uninterpreted), any other word the model's value
            words = []
            for a in t.children():
                if z3.is_app(a) and a.decl().name().startswith("kdata") and a.num_args() == 1:
                    words.append(int(np.asarray(jax.random.key_data(self.concrete(a.arg(0)))).reshape(-1)[int(a.decl().name()[5:])]))
                else:
                    words.append(int(solve.num(self.res.value(a))) & 0xFFFFFFFF)
            k = jax.random.wrap_key_data(jnp.asarray(words, jnp.uint32), impl="rbg" if d == "krbg" else None)
        else:
            self.n += 1
            k = jax.random.key(self.seed + self.n)
        self.conc[i] = k
        self.by_data[bytes(np.asarray(jax.random.key_data(k)).tobytes())] = str(self.res.value(t)) if self.res is not None else str(t)
        return k

    def elem_of(self, data):
        return self.by_data.get(bytes(np.asarray(data).tobytes()))


class ModelWorld:
    """interpretation of the uninterpreted functions given by a solver model: the applications that occur in
    the query get the model's values (matched on operands, floats approximately), everything else a generic value"""

    def __init__(self, res, uf_apps, keys, fallback=None, tol=1e-4):
        self.res = res
        self.keys = keys
        self.fallback = fallback or GenericWorld(seed=4242)
        self.tol = tol
        self.table = {}
        self.hits = 0
        self.misses = 0
        self.missed = []
        self.ambiguous = 0
        for name, oi, idx, operands, result in uf_apps:
            ops = []
            for x in operands:
                if isinstance(x, z3.ExprRef) and x.sort() == KeyS:
                    keys.concrete(x)
                    ops.append(("k", str(res.value(x))))
                else:
                    ops.append(("v", solve.num(res.value(x))))
            val = solve.num(res.value(result))
            self.table.setdefault(name, []).append((ops, oi, tuple(idx), val))

    def _match(self, ent_ops, flat):
        if len(ent_ops) != len(flat):
            return False
        for (k, v), (k2, v2) in zip(ent_ops, flat):
            if k != k2:
                return False
            if k == "k":
                if v != v2:
                    return False
            else:
                if v is None or v2 is None:
                    return False
                if isinstance(v, bool) or isinstance(v2, (bool, np.bool_)):
                    if bool(v) != bool(v2):
                        return False
                elif abs(float(v) - float(v2)) > self.tol * (1 + abs(float(v))):
                    return False
        return True

    def apply(self, name, out, ops, keypos, int_mod):
        flat = []
        for o, k in zip(ops, keypos):
            o = np.asarray(o)
            if k:
                kd = o.reshape(-1, o.shape[-1]) if o.ndim > 1 else o.reshape(1, -1)
                for row in kd:
                    flat.append(("k", self.keys.elem_of(row)))
            else:
                for v in o.reshape(-1):
                    flat.append(("v", v.item()))
        # (np.array: scalar draws come back as NumPy scalars, which do not support item assignment)
        res = [np.array(r) for r in self.fallback.apply(name, out, ops, keypos, int_mod)]
        seen = {}
        had_entries = bool(self.table.get(name))
        for ent_ops, oi, idx, val in self.table.get(name, []):
            if val is not None and self._match(ent_ops, flat):
                if oi >= len(res) or len(idx) != res[oi].ndim or any(i >= n for i, n in zip(idx, res[oi].shape)):
                    continue    # same uf name and operands applied with another output shape (e.g. one key drawn for vectors of two sizes)
                prev = seen.get((oi, idx))
                if prev is not None and not (abs(float(prev) - float(val)) <= 1e-6 * (1 + abs(float(val)))):
                    # two applications whose operands differ only at rounding level but whose model values differ:
                    # the counterexample hinges on float rounding, it is not a reproducible violation
                    self.ambiguous += 1
                seen[(oi, idx)] = val
                res[oi][idx] = val
                self.hits += 1
        if had_entries and not seen:
            # the real code applied this function to operands that match no application of the symbolic execution: the concrete run has left
            # the execution the model describes (float rounding, or an artefact of the encoding) — the replay is not faithful
            self.misses += 1
            self.missed.append(name)
        return res


def model_leaf(res, sym_arr, av, keys):
    """concrete value of an input leaf under the model"""
    if is_keyaval(av):
        ks = [keys.concrete(sym_arr[i]) for i in np.ndindex(*av.shape)]
        if not av.shape:
            return ks[0]
        return jnp.stack(ks).reshape(av.shape)
    dt = np.dtype(av.dtype)
    out = np.zeros(av.shape, dtype=np.float64)
    for i in np.ndindex(*av.shape):
        v = solve.num(res.value(sym_arr[i])) if not isconc(sym_arr[i]) else sym_arr[i]
        out[i] = float(v) if v is not None else 0.0
    if dt == np.bool_:
        return jnp.asarray(out != 0)
    return jnp.asarray(out.astype(dt))


def nonfinite_mask(res, sym_arr):
    """elements of a symbolic (REAL-mode) input leaf that the model makes non-finite: FIN(x) is false in the model AND the query actually
    mentioned FIN(x) (Interp(nonfinite_terms=True)); None when there is none"""
    from .ops import FIN
    arr = arr0(sym_arr)
    mask = np.zeros(arr.shape, dtype=bool)
    for i in np.ndindex(*arr.shape):
        x = arr[i]
        if isconc(x) or not z3.is_real(x):
            continue
        t = FIN(x)
        ack = getattr(res, "ack", None)
        if ack is not None:
            key = ("FIN", (ack.walk(x).get_id(),))
            if key not in ack.cache:
                continue
            v = res.model.eval(ack.cache[key][0], model_completion=True)
        else:
            v = res.model.eval(t, model_completion=False)
        if z3.is_false(v):
            mask[i] = True
    return mask if mask.any() else None


def with_nonfinite(res, sym_arr, val):
    """the model's value of a float input leaf, with NaN where the model makes the element non-finite"""
    m = nonfinite_mask(res, sym_arr)
    if m is None or not jnp.issubdtype(jnp.asarray(val).dtype, jnp.floating):
        return val
    return jnp.where(jnp.asarray(m), jnp.nan, jnp.asarray(val))


def replay_outputs(traced, syms, res, uf_apps=(), oracle=None, rtol=1e-3, atol=1e-3, names=None, compare=None):
    """Run the real function on the model's inputs (uninterpreted functions bound to the model's
    interpretation) and compare the outputs named in `oracle` ({out_name: array of terms}) with the values the
    model gives to the oracle terms.  Returns (reproduced, info)."""
    keys = KeyBinding(res)
    w = ModelWorld(res, uf_apps, keys)
    vals = [model_leaf(res, syms[n], av, keys) for n, av in zip(traced.in_names, traced.in_avals)]
    real = run_real(traced, vals, w)
    realmap = dict(zip(traced.out_names, real))
    diffs = []
    for name, terms in (oracle or {}).items():
        if name not in realmap:
            continue
        got = real_to_float(realmap[name])
        terms = arr0(terms)
        want = np.empty(terms.shape, dtype=np.float64)
        for i in np.ndindex(*terms.shape):
            t = terms[i]
            if isinstance(t, z3.ExprRef) and t.sort() == KeyS:
                want[i] = float(int(np.asarray(jax.random.key_data(keys.concrete(t)))[-1]))
            else:
                v = solve.num(res.value(t)) if not isconc(t) else t
                want[i] = float(v) if v is not None else math.nan
        if got.shape != want.shape:
            got = np.broadcast_to(got, want.shape) if got.size == want.size or got.ndim <= want.ndim else got
        ok = np.isclose(got, want, rtol=rtol, atol=atol, equal_nan=True)
        if not np.all(ok):
            diffs.append({"output": name, "real_code": got.reshape(-1)[:8].tolist(), "expected_by_property": want.reshape(-1)[:8].tolist()})
    info = {"inputs": {n: np.asarray(real_to_float(v) if hasattr(v, "dtype") else v).reshape(-1)[:12].tolist() for n, v in zip(traced.in_names, vals)},
            "uf_table_hits": w.hits, "differences": diffs, "function": traced.label}
    if w.ambiguous:
        info["rounding_level_ambiguity"] = w.ambiguous
        return False, info
    if w.misses and diffs:
        info["unfaithful_replay"] = f"{w.misses} uninterpreted-function applications of the real run match no application of the symbolic execution: {sorted(set(w.missed))}"
        return False, info
    return bool(diffs), info
