"""Harness objects: an *arbitrary* environment and *arbitrary* policies, expressed as real lerax subclasses whose
methods are uninterpreted functions (`uf`) of all their operands.  One `unsat` over them covers every MDP and every
policy at once."""
from typing import ClassVar

import equinox as eqx
import jax
import jax.numpy as jnp
import numpy as np

from lerax.env import AbstractEnv, AbstractEnvState
from lerax.policy import AbstractActorCriticPolicy, AbstractPolicyState
from lerax.space import Box, Discrete

from .uf import uf


class UFState(AbstractEnvState):
    s: jax.Array


class UFEnv(AbstractEnv):
    """arbitrary environment: state in R^n, observation in R^m"""
    name: ClassVar[str] = "UF"
    action_space: Box | Discrete
    observation_space: Box
    theta: jax.Array
    n: int = eqx.field(static=True)
    m: int = eqx.field(static=True)
    masked: bool = eqx.field(static=True)
    tag: str = eqx.field(static=True)

    def __init__(self, action_space, n=2, m=2, masked=False, tag=""):
        self.action_space = action_space
        self.n = n
        self.m = m
        self.masked = masked
        self.tag = tag
        self.observation_space = Box(-jnp.inf, jnp.inf, shape=(m,))
        self.theta = jnp.zeros(())

    def _nact(self):
        return self.action_space.n if isinstance(self.action_space, Discrete) else None

    def initial(self, *, key):
        return UFState(uf(self.tag + "Init", [((self.n,), "float32")], self.theta, key)[0])

    def action_mask(self, state, *, key):
        if not self.masked:
            return None
        return uf(self.tag + "Mask", [((self.action_space.n,), "bool")], self.theta, state.s, key)[0]

    def transition(self, state, action, *, key):
        return UFState(uf(self.tag + "T", [((self.n,), "float32")], self.theta, state.s, action, key)[0])

    def observation(self, state, *, key):
        return uf(self.tag + "O", [((self.m,), "float32")], self.theta, state.s, key)[0]

    def reward(self, state, action, next_state, *, key):
        return uf(self.tag + "R", [((), "float32")], self.theta, state.s, action, next_state.s, key)[0]

    def terminal(self, state, *, key):
        return uf(self.tag + "Term", [((), "bool")], self.theta, state.s, key)[0]

    def truncate(self, state):
        return uf(self.tag + "Trunc", [((), "bool")], self.theta, state.s)[0]

    def state_info(self, state):
        return {"sinfo": uf(self.tag + "SInfo", [((), "float32")], self.theta, state.s)[0]}

    def transition_info(self, state, action, next_state):
        return {"tinfo": uf(self.tag + "TInfo", [((), "float32")], self.theta, state.s, action, next_state.s)[0]}

    def default_renderer(self):
        raise NotImplementedError

    def render(self, state, renderer):
        raise NotImplementedError


class UFPolState(AbstractPolicyState):
    h: jax.Array


class UFACPolicy(AbstractActorCriticPolicy):
    """arbitrary (stateful) actor-critic policy"""
    name: ClassVar[str] = "UFAC"
    action_space: Box | Discrete
    observation_space: Box
    theta: jax.Array
    stateful: bool = eqx.field(static=True)

    def __init__(self, env, stateful=True):
        self.action_space = env.action_space
        self.observation_space = env.observation_space
        self.theta = jnp.zeros(())
        self.stateful = stateful

    def _aaval(self):
        sp = self.action_space
        return ((), "int32") if isinstance(sp, Discrete) else (sp.shape, "float32")

    def _imod(self):
        return self.action_space.n if isinstance(self.action_space, Discrete) else None

    def _h(self, state):
        return [state.h] if self.stateful else []

    def _st(self, h):
        return UFPolState(h) if self.stateful else None

    def reset(self, *, key):
        if not self.stateful:
            return None
        return UFPolState(uf("PReset", [((1,), "float32")], self.theta, key)[0])

    def __call__(self, state, observation, *, key=None, action_mask=None):
        m = [] if action_mask is None else [action_mask]
        if key is None:
            h, a = uf("PI_mode", [((1,), "float32"), self._aaval()], self.theta, *self._h(state), observation, *m, int_mod=self._imod())
        else:
            h, a = uf("PI", [((1,), "float32"), self._aaval()], self.theta, *self._h(state), observation, key, *m, int_mod=self._imod())
        return self._st(h), a

    def action_and_value(self, state, observation, *, key, action_mask=None):
        m = [] if action_mask is None else [action_mask]
        h, a, v, lp = uf("AV", [((1,), "float32"), self._aaval(), ((), "float32"), ((), "float32")], self.theta, *self._h(state), observation, key, *m,
                         int_mod=self._imod())
        return self._st(h), a, v, lp

    def value(self, state, observation):
        h, v = uf("V", [((1,), "float32"), ((), "float32")], self.theta, *self._h(state), observation)
        return self._st(h), v

    def evaluate_action(self, state, observation, action, *, action_mask=None):
        m = [] if action_mask is None else [action_mask]
        h, v, lp, ent = uf("EV", [((1,), "float32")] + [((), "float32")] * 3, self.theta, *self._h(state), observation, action, *m)
        return self._st(h), v, lp, ent


def UF(interp, name, oi, idx, args, dtype="float32"):
    """the z3 term the interpreter produces for output element (oi, idx) of uf `name` applied to `args`
    (args: flat list of elements in operand order)"""
    from .ops import KeyS, UFun
    import z3
    flat = []
    for x in args:
        if isinstance(x, z3.ExprRef) and x.sort() == KeyS:
            flat.append(x)
        else:
            flat.append(x)
    fname = f"{name}#{oi}" + "".join(f"_{i}" for i in idx)
    return UFun(fname, [x.sort() for x in flat], interp.o.sort_of(dtype))(*flat)


class UFCall:
    """helper to write oracles over the same uninterpreted functions the harness objects bind"""

    def __init__(self, interp):
        self.it = interp

    def __call__(self, name, out, *operands):
        """operands: arrays (object arrays of elements) with their kinds inferred from z3 sorts / python types.
        out: list of (shape, dtype).  Returns list of object arrays."""
        import z3
        from .ops import KeyS, UFun
        o = self.it.o
        flat = []
        for a in operands:
            a = np.asarray(a, dtype=object) if not isinstance(a, np.ndarray) else a
            for x in a.reshape(-1):
                if isinstance(x, z3.ExprRef):
                    if x.sort() == KeyS or z3.is_bool(x) or z3.is_int(x):
                        flat.append(x)
                    else:
                        flat.append(o.zf(x))
                else:
                    flat.append(o.z(x))
        sorts = [x.sort() for x in flat]
        res = []
        for oi, (s, d) in enumerate(out):
            arr = np.empty(tuple(s), dtype=object)
            for idx in np.ndindex(*arr.shape):
                fname = f"{name}#{oi}" + "".join(f"_{i}" for i in idx)
                arr[idx] = UFun(fname, sorts, o.sort_of(d))(*flat)
            res.append(arr)
        return res
