#!/bin/sh
# Offline construction of the overlay virtualenv the checks run in.
# /venv (the repository's own environment, lerax installed editable from /repo/src) is left untouched;
# the overlay only adds z3-solver, crosshair-tool and jsonschema from the local wheelhouse.
set -e
HERE="$(cd "$(dirname "$0")" && pwd)"
VENV="$HERE/.venv"
if [ -x "$VENV/bin/python" ] && "$VENV/bin/python" -c "import z3, crosshair, jax, lerax, jsonschema" >/dev/null 2>&1; then
    exit 0
fi
rm -rf "$VENV"
/venv/bin/python -m venv "$VENV"
PYVER=$("$VENV/bin/python" -c "import sys; print('python%d.%d' % sys.version_info[:2])")
echo "import site; site.addsitedir('/venv/lib/$PYVER/site-packages')" > "$VENV/lib/$PYVER/site-packages/_venv_overlay.pth"
PIP_NO_INDEX=1 "$VENV/bin/python" -m pip install -q --no-index --find-links /opt/veriftools/wheels z3-solver crosshair-tool jsonschema 2>&1 | grep -v -i warning || true
"$VENV/bin/python" -c "import z3, crosshair, jax, lerax, jsonschema; print('overlay venv ready: z3', z3.get_version_string())"
