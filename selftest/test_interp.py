"""self-test of the interpreter on indexing patterns and control flow (concrete differential vs JAX)"""
import sys, numpy as np, jax, jax.numpy as jnp
from jaxsmt.trace import trace
from jaxsmt.concrete import ConcInterp, lift_leaf, arr_to_float, real_to_float
rng = np.random.default_rng(0)
f32 = lambda *s: rng.normal(size=s).astype(np.float32)
i32 = lambda *v: np.array(v, np.int32)
tests = [
 ('take rows', lambda x, i: jnp.take(x, i, axis=0), (f32(4,3), np.array([3,0,-1,2], np.int32))),
 ('fancy 2d', lambda x, i, j: x[i, j], (f32(4,3), np.array([3,0], np.int32), np.array([1,2], np.int32))),
 ('x[arange,a]', lambda x, a: x[jnp.arange(3), a], (f32(3,4), np.array([3,0,1], np.int32))),
 ('at set row', lambda x, i, v: x.at[i].set(v), (f32(4,3), np.array(2, np.int32), f32(3))),
 ('at set oob', lambda x, i, v: x.at[i].set(v), (f32(4,3), np.array(7, np.int32), f32(3))),
 ('at add', lambda x, i, v: x.at[i].add(v), (f32(5), np.array([1,1,4], np.int32), f32(3))),
 ('at slice set', lambda x, v: x.at[0:2, 0:2].set(v), (f32(4,3), np.array(0.5, np.float32))),
 ('at[2:] set', lambda x, v: x.at[2:].set(v), (f32(5), f32(3))),
 ('dyn idx', lambda x, i: x[i], (f32(4,3), np.array(2, np.int32))),
 ('vmap take', lambda x, i: jax.vmap(lambda r, k: r[k])(x, i), (f32(3,4), np.array([3,0,1], np.int32))),
 ('grad gather', lambda x, i: jax.grad(lambda x: jnp.sum(x[i] ** 2))(x), (f32(4), np.array([3,0,3], np.int32))),
 ('dynamic_slice', lambda x, i: jax.lax.dynamic_slice(x, (i, 1), (2, 2)), (f32(4,3), np.array(3, np.int32))),
 ('dus', lambda x, u, i: jax.lax.dynamic_update_slice(x, u, (i, 0)), (f32(4,3), f32(2,3), np.array(1, np.int32))),
 ('scan cumsum rev', lambda x: jax.lax.scan(lambda c, v: (c * 0.5 + v, c), 0.0, x, reverse=True), (f32(5),)),
 ('cond', lambda p, x: jax.lax.cond(p > 0, lambda v: v + 1, lambda v: v * 2, x), (np.float32(-1.0), f32(3))),
 ('switch', lambda i, x: jax.lax.switch(i, [lambda v: v + 1, lambda v: v * 2, lambda v: -v], x), (np.array(2, np.int32), f32(3))),
 ('while', lambda x: jax.lax.while_loop(lambda c: c[0] < 3, lambda c: (c[0] + 1, c[1] * 2), (0, x)), (f32(2),)),
 ('softmax', lambda x: jax.nn.softmax(x), (f32(4),)),
 ('logsumexp', lambda x: jax.nn.logsumexp(x), (f32(4),)),
 ('matmul', lambda a, b: jnp.tanh(a @ b), (f32(2,3), f32(3,2))),
 ('einsum batch', lambda a, b: jnp.einsum('bij,bjk->bik', a, b), (f32(2,2,3), f32(2,3,2))),
 ('argmax', lambda a: jnp.argmax(a, axis=-1), (f32(3,4),)),
 ('mean std', lambda a: (a - a.mean()) / (a.std() + 1e-8), (f32(5),)),
 ('clip', lambda a: jnp.clip(a, -0.5, 0.5), (f32(5),)),
 ('fmod', lambda a: jnp.fmod(a * 5 + 3.14, 6.28) - 3.14, (f32(5),)),
 ('mod int', lambda a: a % 3, (np.array([5, -5, 7, 0], np.int32),)),
 ('floor div', lambda a: a // 3, (np.array([5, -5, 7, 0], np.int32),)),
 ('where', lambda a: jnp.where(a > 0, a, jnp.nan), (f32(5),)),
 ('cumsum', lambda a: jnp.cumsum(a), (f32(5),)),
 ('round', lambda a: jnp.round(a * 3), (f32(6),)),
 ('vmap cond', lambda p, x: jax.vmap(lambda pp, xx: jax.lax.cond(pp > 0, lambda v: v + 1, lambda v: v * 2, xx))(p, x), (f32(3), f32(3))),
 ('minmax', lambda a: (a.min(), a.max(), jnp.abs(a), jnp.sign(a)), (f32(5),)),
 ('pad interior', lambda x: jax.lax.pad(x, jnp.float32(0.5), ((1, 2, 1),)), (f32(4),)),
 ('pad negative', lambda x: jax.lax.pad(x, jnp.float32(0.5), ((-1, -1, 2), (1, 0, 1))), (f32(5, 3),)),
 ('sort', lambda x: jnp.sort(x), (i32(3, 1, 2, 1, 0),)),
 ('argsort stable', lambda x: jnp.argsort(x), (i32(2, 1, 2, 1, 0),)),
 ('sort axis0', lambda x: jnp.sort(x, axis=0), (f32(4, 3),)),
]
bad = 0
for name, f, args in tests:
    args = tuple(jnp.asarray(a) for a in args)
    tr = trace(f, *args)
    want = [real_to_float(l) for l in jax.tree_util.tree_leaves(f(*args))]
    it = ConcInterp()
    got = [arr_to_float(a) for a in it.run(tr.jaxpr, tr.consts, [lift_leaf(it, a, av) for a, av in zip(args, tr.in_avals)])]
    ok = all(np.allclose(w, g, atol=1e-4, rtol=1e-4, equal_nan=True) for w, g in zip(want, got))
    print(('OK   ' if ok else 'FAIL ') + name, '' if ok else f'\n  want {want}\n  got {got}')
    bad += not ok
sys.exit(1 if bad else 0)
