"""CrossHair driver for C14 (space __eq__ / __hash__: pure Python, decided by symbolic execution of the source).

A harness module is generated under $VERIF_SCRATCH, every condition (one function with a `pre:`/`post:` contract) is
checked by its own `crosshair check --report_all` subprocess (they run in parallel), and the machine-readable output
is parsed: "Confirmed over all paths" = discharged; a counterexample is re-run on the real classes (the harness
function called with the concrete arguments in a fresh interpreter without CrossHair) and reported only if the
contract really fails there; anything else is inconclusive."""
import ast
import json
import os
import re
import subprocess
import sys
import time

ROOT = os.path.dirname(os.path.dirname(os.path.abspath(__file__)))

PLUGIN = os.path.join(os.path.dirname(os.path.abspath(__file__)), "c14_xhair_plugin.py")
TEMPLATE = os.path.join(os.path.dirname(os.path.abspath(__file__)), "c14_contracts_template.py")

# condition -> obligation id (the <space>.eq_iff_same / <space>.hash_consistent ids of DESIGN Appendix A)
CONDITIONS = {
    "discrete_eq": "Discrete.eq_iff_same",
    "discrete_hash": "Discrete.hash_consistent",
    "multidiscrete_eq": "MultiDiscrete.eq_iff_same",
    "multidiscrete_hash": "MultiDiscrete.hash_consistent",
    "multibinary_eq": "MultiBinary.eq_iff_same",
    "multibinary_hash": "MultiBinary.hash_consistent",
    "multibinary_int_form": "MultiBinary.eq_iff_same@int_vs_tuple",
    "multibinary_int_form_hash": "MultiBinary.hash_consistent@int_vs_tuple",
    "leaf_kinds_eq": "leaves.eq_iff_same@across_kinds",
    "leaf_vs_non_space": "leaves.eq_iff_same@vs_non_space",
    "tuple_eq": "Tuple.eq_iff_same",
    "tuple_hash": "Tuple.hash_consistent",
    "tuple_mixed_eq": "Tuple.eq_iff_same@mixed_leaves",
    "tuple_mixed_hash": "Tuple.hash_consistent@mixed_leaves",
    "tuple_vs_non_space": "Tuple.eq_iff_same@vs_non_space",
    "dict_eq": "Dict.eq_iff_same",
    "dict_hash": "Dict.hash_consistent",
    "dict_eq_implies_hash": "Dict.hash_consistent@any_key_order",
    "dict_vs_non_space": "Dict.eq_iff_same@vs_non_space",
    "nested_tuple_of_dict": "Tuple[Dict].eq_iff_same",
    "nested_dict_of_tuple": "Dict[Tuple].eq_iff_same",
    "nested_tuple_of_tuple": "Tuple[Tuple].eq_iff_same",
    "nested_hash": "nested.hash_consistent",
    "control_discrete_eq_ignores_size": "control.crosshair.Discrete_eq_ignores_size",
    "control_tuple_hash_distinguishes_nothing": "control.crosshair.Tuple_hash_constant",
}

REPLAY = r'''
import json, sys, traceback
sys.path.insert(0, {dir!r})
import {mod} as H
fn = getattr(H, {fn!r})
kwargs = json.loads({kwargs!r})
post = {post!r}
try:
    r = fn(**kwargs)
    ok = bool(eval(post, dict(H.__dict__), dict(kwargs, __return__=r)))
    print(json.dumps({{"returned": repr(r), "contract_holds": ok}}))
except Exception as ex:
    print(json.dumps({{"raised": repr(ex), "contract_holds": False, "where": traceback.format_exc()[-600:]}}))
'''


def _env():
    env = dict(os.environ)
    env.setdefault("JAX_PLATFORMS", "cpu")
    env["PYTHONDONTWRITEBYTECODE"] = "1"
    return env


class Runner:
    """starts one crosshair process per condition (in parallel) and collects the verdicts later"""

    def __init__(self, scratch, per_condition_timeout, tag="c14", L=2, NH=3):
        self.dir = os.path.join(scratch, f"{tag}_xhair_{os.getpid()}")
        os.makedirs(self.dir, exist_ok=True)
        self.mod = "c14_space_contracts"
        self.bounds = {"max_arity": L, "sizes_for_hash": f"1..{NH - 1}", "sizes_for_eq": "all positive integers (symbolic)"}
        self.text = open(TEMPLATE).read().replace("@L@", str(L)).replace("@NH@", str(NH))
        self.path = os.path.join(self.dir, self.mod + ".py")
        with open(self.path, "w") as f:
            f.write(self.text)
        self.timeout = per_condition_timeout
        self.crosshair = os.path.join(os.path.dirname(sys.executable), "crosshair")
        self.procs = {}
        self.t0 = time.time()
        tree = ast.parse(self.text)
        self.fn = {n.name: n for n in tree.body if isinstance(n, ast.FunctionDef)}

    def start(self, names=None):
        from concurrent.futures import ThreadPoolExecutor
        names = list(CONDITIONS) if names is None else list(names)
        self.pool = ThreadPoolExecutor(max_workers=max(1, len(names)))
        for name in names:
            self.procs[name] = self.pool.submit(self._run, name)

    def _run(self, name):
        node = self.fn[name]
        cmd = [self.crosshair, "check", "--report_all", "--per_condition_timeout", str(self.timeout),
               "--per_path_timeout", str(max(5, self.timeout // 4)), f"{self.path}:{node.lineno}", "--extra_plugin", PLUGIN]
        t0 = time.time()
        try:
            p = subprocess.run(cmd, capture_output=True, text=True, env=_env(), cwd=self.dir, timeout=self.timeout * 2 + 120)
            out, err, rc = p.stdout, p.stderr, p.returncode
        except subprocess.TimeoutExpired:
            return "inconclusive", {"reason": "crosshair process did not finish"}, time.time() - t0
        verdict, info = self._judge(name, out, err, rc)
        return verdict, info, time.time() - t0

    def post_of(self, name):
        doc = ast.get_docstring(self.fn[name]) or ""
        posts = [l.split("post:", 1)[1].strip() for l in doc.splitlines() if l.strip().startswith("post:")]
        return " and ".join(f"({p})" for p in posts)

    def replay(self, name, kwargs):
        """the counterexample on the real classes, in a plain interpreter (no CrossHair)"""
        code = REPLAY.format(dir=self.dir, mod=self.mod, fn=name, kwargs=json.dumps(kwargs), post=self.post_of(name))
        p = subprocess.run([sys.executable, "-W", "ignore", "-c", code], capture_output=True, text=True, env=_env(), timeout=300)
        last = [l for l in p.stdout.strip().splitlines() if l.startswith("{")]
        if not last:
            return None, {"replay_error": (p.stderr or p.stdout)[-800:]}
        d = json.loads(last[-1])
        return (not d["contract_holds"]), d

    def collect(self, name):
        """-> (verdict, info, seconds) with verdict in confirmed | counterexample | unreproduced | inconclusive"""
        return self.procs[name].result()

    def _judge(self, name, out, err, rc):
        lines = [l for l in out.splitlines() if re.match(r".*:\d+: (error|info|warning): ", l)]
        info = {"crosshair_output": lines[:6], "exit": rc}
        errors = [l for l in lines if ": error: " in l]
        if errors:
            msg = errors[0].split(": error: ", 1)[1]
            info["message"] = msg
            m = re.search(r"when calling (\w+)\((.*?)\)(?: \(which (?:returns|raises).*)?$", msg)
            kwargs = None
            if m:
                try:
                    call = ast.parse(f"f({m.group(2)})", mode="eval").body
                    kwargs = {k.arg: ast.literal_eval(k.value) for k in call.keywords}
                    if call.args:
                        params = [a.arg for a in self.fn[name].args.args]
                        kwargs.update({p: ast.literal_eval(a) for p, a in zip(params, call.args)})
                except Exception as ex:  # noqa: BLE001
                    info["parse_error"] = repr(ex)
                    kwargs = None
            if kwargs is None:
                return "inconclusive", info
            info["counterexample"] = kwargs
            rep, rinfo = self.replay(name, kwargs)
            info["replay_on_real_classes"] = rinfo
            return ("counterexample" if rep else "unreproduced"), info
        if any("Confirmed over all paths" in l for l in lines) and rc == 0:
            return "confirmed", info
        info["stderr"] = err[-600:]
        return "inconclusive", info

    def cleanup(self):
        import shutil
        self.pool.shutdown(wait=False)
        shutil.rmtree(self.dir, ignore_errors=True)
