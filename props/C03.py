"""C03 — advantages and returns equal the GAE definition, cut at episode ends."""
import equinox as eqx
import jax
import jax.numpy as jnp
import numpy as np
import z3
from jax import random as jr

from jaxsmt import concrete, core, solve
from jaxsmt.core import Check, conj, eq_arr
from jaxsmt.harness import UFACPolicy, UFCall, UFEnv
from jaxsmt.interp import Interp, arr0
from jaxsmt.trace import trace

from lerax.buffer import RolloutBuffer
from lerax.space import Discrete


def mkbuf(T, lead=()):
    sh = tuple(lead) + (T,)
    return RolloutBuffer(observations=jnp.zeros(sh + (2,)), actions=jnp.zeros(sh, int), rewards=jnp.zeros(sh), dones=jnp.zeros(sh, bool),
                         log_probs=jnp.zeros(sh), values=jnp.zeros(sh), states=None, returns=jnp.zeros(sh), advantages=jnp.zeros(sh))


def gae_fn(buf, last_value, lam, gamma):
    out = buf.compute_returns_and_advantages(last_value, lam, gamma)
    return {"returns": out.returns, "advantages": out.advantages, "rewards": out.rewards, "values": out.values, "dones": out.dones}


def ref_gae(o, r, v, d, last, gamma, lam):
    """the recursion of the statement, written independently (forward definition, explicit ite on done)"""
    T = len(r)
    A = [None] * T
    nxtA = 0
    for t in range(T - 1, -1, -1):
        nv = last if t == T - 1 else v[t + 1]
        nd = o.ite(d[t], 0, 1)   # 1 - done_t
        delta = o.sub(o.add(r[t], o.mul(o.mul(gamma, nd), nv)), v[t])
        A[t] = o.add(delta, o.mul(o.mul(o.mul(gamma, lam), nd), nxtA))
        nxtA = A[t]
    R = [o.add(A[t], v[t]) for t in range(T)]
    return A, R


def sec_T(ck, T, Ts, Trec):
    it = Interp()
    tr = trace(gae_fn, mkbuf(T), jnp.array(0.0), jnp.array(0.9), jnp.array(0.9), argnames=["buf", "last", "lam", "gamma"])
    if T == Ts[0]:
        ck.encoded(tr)
        concrete.validate(ck, tr, n=2, seed=ck.seed)
    if T == 3:
        ck.encoded(tr)
        concrete.validate(ck, tr, n=2, seed=ck.seed + 1)
    S = tr.symbols(it)
    out = tr.run(it, S)
    r, v, d = list(S["buf_rewards"]), list(S["buf_values"]), list(S["buf_dones"])
    last, lam, gamma = S["last"][()], S["lam"][()], S["gamma"][()]
    A, R = ref_gae(it.o, r, v, d, last, gamma, lam)
    goal = conj([eq_arr(out["advantages"], np.array(A, dtype=object)), eq_arr(out["returns"], np.array(R, dtype=object)),
                 eq_arr(out["rewards"], S["buf_rewards"]), eq_arr(out["values"], S["buf_values"]), eq_arr(out["dones"], S["buf_dones"])])
    bounded = [z3.And(x >= -10, x <= 10) for x in r + v + [last]] + [gamma >= 0, gamma <= 1, lam >= 0, lam <= 1]
    margin = conj([z3.And(a - b <= 0.01, b - a <= 0.01) for a, b in zip(list(out["advantages"]) + list(out["returns"]), A + R)])
    oracle = {"advantages": np.array(A, dtype=object), "returns": np.array(R, dtype=object)}

    def rp(res, tr=tr, S=S, oracle=oracle):
        return concrete.replay_outputs(tr, S, res, oracle=oracle)
    if T in Trec:
        # the statement's recurrence, stated on the implementation's own A_{t+1}
        oa, orr = list(out["advantages"]), list(out["returns"])
        gs = []
        for t in range(T):
            nd = it.o.ite(d[t], 0, 1)
            nv = last if t == T - 1 else v[t + 1]
            nx = 0 if t == T - 1 else oa[t + 1]
            gs.append(core.eq_elem(oa[t], r[t] + gamma * nd * nv - v[t] + gamma * lam * nd * nx))
            gs.append(core.eq_elem(orr[t], oa[t] + v[t]))
        ck.prove(f"gae.recurrence@T={T}", [], conj(gs), replay=rp, timeout=240)
    if T in Ts:
        ck.prove(f"gae.closed_form@T={T}", [], goal, replay=rp, margin_goal=core.implies(conj(bounded), margin), timeout=240, nonlinear=True)

    if T == 3:
        # negative controls: plausible wrong estimators must be refuted
        def wrong(kind):
            o = it.o
            Aw = [None] * T
            nx = 0
            for t in range(T - 1, -1, -1):
                nv = last if t == T - 1 else v[t + 1]
                nd = o.ite(d[t], 0, 1)
                if kind == "mask_only_bootstrap":
                    Aw[t] = (r[t] + gamma * nd * nv - v[t]) + gamma * lam * nx
                elif kind == "next_done":
                    nd2 = o.ite(d[t + 1], 0, 1) if t + 1 < T else 1
                    Aw[t] = (r[t] + gamma * nd2 * nv - v[t]) + gamma * lam * nd2 * nx
                nx = Aw[t]
            return conj([eq_arr(out["advantages"], np.array(Aw, dtype=object))])
        ck.control("control.mask_only_bootstrap", [], wrong("mask_only_bootstrap"), nonlinear=True)
        ck.control("control.uses_next_done", [], wrong("next_done"), nonlinear=True)

        # T-independent part: the traced scan body and its direction
        scans = [e for e in tr.jaxpr.eqns if e.primitive.name == "scan"]
        ok = len(scans) == 1 and scans[0].params["reverse"] and scans[0].params["length"] == T
        ck.fact("gae.scan_is_reverse_over_T", ok, f"scan eqns={len(scans)} reverse={scans[0].params['reverse'] if scans else None}")
        if scans:
            body = scans[0].params["jaxpr"]
            bj = body.jaxpr if hasattr(body, "jaxpr") else body
            itb = Interp()
            ins = [itb.sym(f"b{i}", vv.aval.shape, vv.aval.dtype) for i, vv in enumerate(bj.invars)]
            outs = itb.run(bj, getattr(body, "consts", []), ins)
            # inputs are (carry, delta, discount) in some order: the property needs out = delta + discount*carry
            import itertools
            found = False
            for perm in itertools.permutations(range(len(ins))):
                if len(ins) != 3:
                    break
                c, dl, dc = (ins[p][()] for p in perm)
                g = conj([o_[()] == dl + dc * c for o_ in outs])
                res = solve.decide([z3.Not(g)] if not isinstance(g, bool) else [not g], timeout_s=20)
                if res.status == "unsat":
                    found = True
                    break
            ck.fact("gae.body_inductive", found, "scan body computes A = delta + discount*carry for some role assignment of its three inputs")


def sec_corollaries(ck):
    # ---- corollaries at T=4
    T = 4
    it = Interp()
    tr = trace(gae_fn, mkbuf(T), jnp.array(0.0), jnp.array(0.9), jnp.array(0.9), argnames=["buf", "last", "lam", "gamma"])
    S = tr.symbols(it)
    out = tr.run(it, S)
    r, v, d = list(S["buf_rewards"]), list(S["buf_values"]), list(S["buf_dones"])
    last, lam, gamma = S["last"][()], S["lam"][()], S["gamma"][()]
    # lambda = 1: discounted Monte-Carlo return with bootstrap, cut at dones
    G = [None] * T
    nx = last
    for t in range(T - 1, -1, -1):
        G[t] = r[t] + gamma * z3.If(d[t], 0, 1) * nx
        nx = G[t]
    ck.prove("gae.lambda1_mc@T=4", [lam == 1], eq_arr(out["returns"], np.array(G, dtype=object)),
             replay=lambda res: concrete.replay_outputs(tr, S, res, oracle={"returns": np.array(G, dtype=object)}), nonlinear=True)
    D = [r[t] + gamma * z3.If(d[t], 0, 1) * (last if t == T - 1 else v[t + 1]) - v[t] for t in range(T)]
    ck.prove("gae.lambda0_td@T=4", [lam == 0], eq_arr(out["advantages"], np.array(D, dtype=object)),
             replay=lambda res: concrete.replay_outputs(tr, S, res, oracle={"advantages": np.array(D, dtype=object)}), nonlinear=True)
    ck.witness("witness.done_pattern_reachable", [d[1], z3.Not(d[2]), lam == 1])

    # ---- nothing recorded after an episode end influences the estimates before it (2-safety)
    it2 = Interp()
    S2 = tr.symbols(it2, prefix="alt_")
    out2 = tr.run(it2, S2)
    for k in range(T - 1):
        same = [S["buf_dones"][k]]
        for t in range(k + 1):
            same += [S["buf_rewards"][t] == S2["buf_rewards"][t], S["buf_values"][t] == S2["buf_values"][t], S["buf_dones"][t] == S2["buf_dones"][t]]
        same += [S["lam"][()] == S2["lam"][()], S["gamma"][()] == S2["gamma"][()]]
        goal = conj([eq_arr(out["advantages"][:k + 1], out2["advantages"][:k + 1]), eq_arr(out["returns"][:k + 1], out2["returns"][:k + 1])])

        def rp2(res, k=k):
            # replay both runs on the real code and compare the prefix
            keys = concrete.KeyBinding(res)
            a = concrete.run_real(tr, [concrete.model_leaf(res, S[n], av, keys) for n, av in zip(tr.in_names, tr.in_avals)])
            b = concrete.run_real(tr, [concrete.model_leaf(res, S2[n], av, keys) for n, av in zip(tr.in_names, tr.in_avals)])
            ma, mb = dict(zip(tr.out_names, a)), dict(zip(tr.out_names, b))
            diff = float(np.max(np.abs(np.asarray(ma["advantages"])[:k + 1] - np.asarray(mb["advantages"])[:k + 1])))
            return diff > 1e-4, {"done_at": k, "max_prefix_difference": diff, "run_a": {n: np.asarray(x).tolist() for n, x in ma.items()}, "run_b": {n: np.asarray(x).tolist() for n, x in mb.items()}}
        ck.prove(f"gae.cut_at_done@T=4,k={k}", same, goal, replay=rp2, nonlinear=True)


def sec_vmap(ck):
    # ---- several parallel environments: each stream estimated on its own (vmapped call as in iteration())
    E, T = 2, 3
    itv = Interp()

    def vfn(buf, last, lam, gamma):
        return jax.vmap(lambda b, lv: gae_fn(b, lv, lam, gamma))(buf, last)
    trv = trace(vfn, mkbuf(T, (E,)), jnp.zeros(E), jnp.array(0.9), jnp.array(0.9), argnames=["buf", "last", "lam", "gamma"])
    ck.encoded(trv)
    Sv = trv.symbols(itv)
    outv = trv.run(itv, Sv)
    As, Rs = [], []
    for e in range(E):
        A, R = ref_gae(itv.o, list(Sv["buf_rewards"][e]), list(Sv["buf_values"][e]), list(Sv["buf_dones"][e]), Sv["last"][e], Sv["gamma"][()], Sv["lam"][()])
        As.append(A)
        Rs.append(R)
    oracle = {"advantages": np.array(As, dtype=object), "returns": np.array(Rs, dtype=object)}
    ck.prove("gae.per_env_independent@E=2,T=3", [], conj([eq_arr(outv[k], oracle[k]) for k in oracle]),
             replay=lambda res: concrete.replay_outputs(trv, Sv, res, oracle=oracle), nonlinear=True)


def sec_postcollect(ck):
    T = 3
    # ---- bootstrap value comes from the post-rollout state (post_collect over an arbitrary env / policy)
    from lerax.algorithm import PPO
    env = UFEnv(Discrete(3))
    pol = UFACPolicy(env)
    algo = PPO(num_envs=1, num_steps=T, num_batches=1, num_epochs=1)
    from lerax.algorithm.on_policy import AbstractOnPolicyStepState
    from props.common import OnPolicyStep
    st = OnPolicyStep.example(env, pol)

    def pc(env, pol, st, buf, key):
        b = algo.post_collect(env, pol, st, buf, key=key)
        return {"returns": b.returns, "advantages": b.advantages}
    itp = Interp()
    trp = trace(pc, env, pol, st, mkbuf(T), jr.key(0), argnames=["env", "pol", "st", "buf", "key"])
    ck.encoded(trp)
    ck.stub("environment and policy are uninterpreted functions of all their operands (UFEnv, UFACPolicy)")
    Sp = trp.symbols(itp)
    outp = trp.run(itp, Sp)
    U = UFCall(itp)
    obs = U("O", [((2,), "float32")], Sp["env_theta"], Sp["st_env_state_s"], Sp["key"])[0]
    _, V = U("V", [((1,), "float32"), ((), "float32")], Sp["pol_theta"], Sp["st_policy_state_h"], obs)
    A, R = ref_gae(itp.o, list(Sp["buf_rewards"]), list(Sp["buf_values"]), list(Sp["buf_dones"]), V[()], float(algo.gamma), float(algo.gae_lambda))
    # gamma/lambda are Python floats in the algorithm object: constants of the traced program
    from fractions import Fraction
    g, l = Fraction(float(np.float32(algo.gamma))), Fraction(float(np.float32(algo.gae_lambda)))
    A, R = ref_gae(itp.o, list(Sp["buf_rewards"]), list(Sp["buf_values"]), list(Sp["buf_dones"]), V[()], g, l)
    oracle = {"advantages": np.array(A, dtype=object), "returns": np.array(R, dtype=object)}
    ck.prove("gae.bootstrap_from_post_rollout_state", [], conj([eq_arr(outp[k], oracle[k]) for k in oracle]),
             replay=lambda res: concrete.replay_outputs(trp, Sp, res, uf_apps=itp.uf_apps, oracle=oracle), nonlinear=True)


def sec_collected_rollout(ck, S_=2):
    """the advantages/returns of a COLLECTED rollout are cut at the episode ends of the interaction itself (terminal or truncated, as determined by
    the environment), not at whatever the buffer happens to store: collect_rollout over an uninterpreted environment under a TimeLimit"""
    from fractions import Fraction
    from jaxsmt import concrete as cc
    from props.C04 import GAMMA, OnPolicyStep, empty_callback, find, make, world_of
    from props.rollout_ref import keys_of, onpolicy_step
    from lerax.algorithm import A2C, PPO, REINFORCE
    kind = "discrete"
    # every on-policy learner, with the options that post-process advantages switched on (the STORED estimates must be the GAE estimates whatever the
    # loss does with them afterwards)
    # (the reference uses the lambda / gamma HANDED TO THE CONSTRUCTOR, not what the object stores: the statement's lambda is the user's; the end
    # points lambda = 0 (one-step TD) and lambda = 1 (Monte Carlo) are legitimate values and are included)
    algos = [("", PPO(num_envs=1, num_steps=S_, num_batches=1, num_epochs=1, gamma=GAMMA, gae_lambda=0.5), 0.5),
             (",algo=A2C(normalize_advantages=True)", A2C(num_envs=1, num_steps=S_, gamma=GAMMA, gae_lambda=0.5, normalize_advantages=True), 0.5),
             (",algo=REINFORCE(normalize_advantages=True)", REINFORCE(num_envs=1, num_steps=S_, gamma=GAMMA, normalize_advantages=True), 1.0),   # documented: Monte-Carlo returns
             (",algo=PPO(gae_lambda=0)", PPO(num_envs=1, num_steps=S_, num_batches=1, num_epochs=1, gamma=GAMMA, gae_lambda=0.0), 0.0),
             (",algo=A2C(gae_lambda=0)", A2C(num_envs=1, num_steps=S_, gamma=GAMMA, gae_lambda=0.0), 0.0),
             (",algo=PPO(gae_lambda=1)", PPO(num_envs=1, num_steps=S_, num_batches=1, num_epochs=1, gamma=GAMMA, gae_lambda=1.0), 1.0)]
    for atag, algo, lam_given in algos:
        env, pol = make(kind, False, True)
        cb = empty_callback()
        st = OnPolicyStep.example(env, pol, cb)

        def fn(env, pol, st, key):
            ns, buf = algo.collect_rollout(env, pol, st, cb, key)
            return {"adv": buf.advantages, "ret": buf.returns}
        tr = trace(fn, env, pol, st, jr.key(0), argnames=["env", "pol", "st", "key"], label="collect_rollout -> advantages/returns")
        ck.encoded(tr)
        it = Interp()
        S = tr.symbols(it)
        out = tr.run(it, S)
        w = world_of(it, S, kind, False, True)
        kO, kAV, kT, kR, kTerm, kI, kP = (keys_of(it, n) for n in ("O", "AV", "T", "R", "Term", "Init", "PReset"))
        if not (len(kO) == 2 * S_ + 1 and all(len(k) == S_ for k in (kAV, kT, kR, kTerm, kI, kP))):
            ck.fact(f"gae.collected_rollout.keys@S={S_}", False, "unexpected number of component applications in collect_rollout")
            continue
        s = find(S, "st_env_state_env_state_s")
        c = [find(S, "st_env_state_step_count")[()]]
        h = S["st_policy_state_h"]
        g, lam = Fraction(GAMMA), Fraction(float(algo.gae_lambda) if lam_given is None else lam_given)
        rs, vs, ds = [], [], []
        for t in range(S_):
            K = {"O": kO[2 * t], "B": kO[2 * t + 1], "A": kAV[t], "T": kT[t], "R": kR[t], "Term": kTerm[t], "I": kI[t], "P": kP[t]}
            R = onpolicy_step(w, s, c, h, K, g)
            rs.append(R["reward_stored"])
            vs.append(R["value"])
            ds.append(R["done"])            # the episode end of the INTERACTION: terminal or truncated
            s, c, h = R["next_s"], R["next_c"], R["next_h"]
        last = w.V(h, w.env.observation(s, kO[2 * S_]))[1][()]
        o = it.o
        oa = list(out["adv"])
        gs = []
        for t in range(S_):
            nd = o.ite(ds[t], 0, 1)
            nv = last if t == S_ - 1 else vs[t + 1]
            nx = 0 if t == S_ - 1 else oa[t + 1]
            gs.append(core.eq_elem(oa[t], o.add(o.sub(o.add(rs[t], o.mul(o.mul(g, nd), nv)), vs[t]), o.mul(o.mul(g * lam, nd), nx))))
            gs.append(core.eq_elem(out["ret"][t], o.add(oa[t], vs[t])))
        A = cc.key_axioms(kO + kAV + kT + kR + kTerm + kI + kP + [S["key"][()]]) + [find(S, "max_episode_steps")[()] >= 1, c[0] >= 0 if False else find(S, "st_env_state_step_count")[()] >= 0]
        want_adv = []
        nxt = 0
        for t in range(S_ - 1, -1, -1):
            nd = o.ite(ds[t], 0, 1)
            nv = last if t == S_ - 1 else vs[t + 1]
            a_t = o.add(o.sub(o.add(rs[t], o.mul(o.mul(g, nd), nv)), vs[t]), o.mul(o.mul(g * lam, nd), nxt))
            want_adv.insert(0, a_t)
            nxt = a_t
        orc = {"adv": np.array(want_adv, dtype=object)}
        ck.prove(f"gae.collected_rollout_cut_at_episode_ends@S={S_}{atag}", A, conj(gs), replay=lambda res: cc.replay_outputs(tr, S, res, uf_apps=it.uf_apps, oracle=orc))
        if not atag:
          ck.witness("witness.truncation_inside_rollout", A + [ds[0], core.neg(w.env.terminal(onpolicy_step(w, find(S, "st_env_state_env_state_s"), [find(S, "st_env_state_step_count")[()]], S["st_policy_state_h"],
                   {"O": kO[0], "B": kO[1], "A": kAV[0], "T": kT[0], "R": kR[0], "Term": kTerm[0], "I": kI[0], "P": kP[0]}, g)["s2"], kTerm[0]))])


def main():
    ck = Check("C03", "GAE")
    ck.mode = "REAL"
    Ts = [1, 2, 3, 4, 5] + ([6, 7] if ck.thorough else [])       # closed form (nlsat)
    Trec = [1, 2, 3, 5, 8] + ([12, 16] if ck.thorough else [])       # the statement's own recurrence (shared subterms)
    ck.bound(T=Ts, envs=2, note="rollout length T is the scan length, static in the IR; rewards, values, done flags, bootstrap value, gamma and lambda are symbolic reals (no range restriction)")
    ck.out("float32 rounding (identities are over the reals, as the property states)")
    for T in sorted(set(Ts) | set(Trec)):
        with ck.section(f'gae@T={T}'):
            sec_T(ck, T, Ts, Trec)
    with ck.section('corollaries'):
        sec_corollaries(ck)
    with ck.section('vmap'):
        sec_vmap(ck)
    with ck.section('post_collect'):
        sec_postcollect(ck)
    for S_ in ([2] if not ck.thorough else [2, 3]):
        with ck.section(f'collected_rollout@S={S_}'):
            sec_collected_rollout(ck, S_)
    # `with several parallel environments each environment's stream is estimated on its own`, for the buffer the real vectorised iteration() hands to
    # training: every lane (returns and advantages included) equals the single-environment collection from that environment's own state and key -- the
    # lane obligations of C12 with more steps than environments, discharged here as part of this clause
    from props import C12
    with ck.section("iteration_lanes@E=2,S=3"):
        C12.check_onpolicy_lanes(ck, "discrete", E=2, S_=3)
    ck.finish("RolloutBuffer.compute_returns_and_advantages is traced for each rollout length T and interpreted over z3 reals with rewards, values, "
              "done flags, bootstrap value, gamma and lambda symbolic; the outputs are compared with the GAE recursion of the statement written "
              "independently. Corollaries (lambda=1, lambda=0, cut at done as a 2-safety query, per-environment independence of the vmapped call, "
              "bootstrap from the post-rollout state over an uninterpreted environment/policy) are separate obligations; the scan body is checked "
              "as a T-independent inductive step.")


if __name__ == "__main__":
    main()
