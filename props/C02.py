"""C02 — environments stay inside their declared spaces; rewards/flags are well typed; no Python-side state.

Classic control (CartPole, MountainCar, ContinuousMountainCar, Acrobot, Pendulum): the INDUCTIVE step with the ODE integrator
replaced by an arbitrary finite result y (FLOW stub): observation(clip(y)) is a member of the declared observation space.
Numeric mode per obligation: FP32 (z3 Float32, IEEE) for every component that is a clamp / comparison; REAL for the components
that go through the `% (2*pi)` angle wrap and sin/cos (uninterpreted, range-axiomatised).  CartPole has no clip: its obligation
is over `step` (non-terminal successor or reset state).  Limits are the default configuration and, symbolically, every
configuration that is meaningful (min <= max, speeds >= 0, reset range inside the limits).
"""
import json
import math
import os
import subprocess
import sys
import time
from fractions import Fraction

import equinox as eqx
import jax
import jax.numpy as jnp
import numpy as np
import z3
from jax import random as jr

from jaxsmt import concrete, solve, stubs
from jaxsmt.core import ROOT, Check, conj, eq_arr, implies, neg
from jaxsmt.interp import Interp
from jaxsmt.ops import F32, INF, isconc
from jaxsmt.remq import FPRemInterp, RemInterp
from jaxsmt.trace import explore, trace

from lerax.env.classic_control import Acrobot, CartPole, ContinuousMountainCar, MountainCar, Pendulum
from lerax.env.classic_control.acrobot import AcrobotState
from lerax.env.classic_control.cartpole import CartPoleState
from lerax.env.classic_control.continuous_mountain_car import ContinuousMountainCarState
from lerax.env.classic_control.mountain_car import MountainCarState
from lerax.env.classic_control.pendulum import PendulumState
from lerax.space import Box, Discrete

FLT_MAX = Fraction(int((2 - 2 ** -23) * 2 ** 127))


def inf_axioms():
    """REAL mode: the symbol standing for +inf exceeds every finite float32"""
    return [INF > FLT_MAX]

CLASSIC = {
    "cartpole": dict(cls=CartPole, state=CartPoleState, ydim=4, limits=["theta_threshold_radians", "x_threshold"]),
    "mountain_car": dict(cls=MountainCar, state=MountainCarState, ydim=2, limits=["min_position", "max_position", "max_speed"]),
    "continuous_mountain_car": dict(cls=ContinuousMountainCar, state=ContinuousMountainCarState, ydim=2, limits=["min_action", "max_action", "min_position", "max_position", "max_speed"]),
    "acrobot": dict(cls=Acrobot, state=AcrobotState, ydim=4, limits=["max_vel_1", "max_vel_2"]),
    "pendulum": dict(cls=Pendulum, state=PendulumState, ydim=2, limits=["max_speed", "max_torque"]),
}

PRECONDITION_NOTE = ("symbolic limits are quantified over the meaningful configurations only: all limits finite; MountainCar/ContinuousMountainCar: min_position <= -0.6, "
                     "max_position >= -0.4 (the fixed reset range [-0.6,-0.4] lies inside), max_speed >= 0, min_action <= max_action; CartPole: x_threshold >= 0.05, "
                     "theta_threshold_radians >= 0.05 (reset range [-0.05,0.05] inside the thresholds); Acrobot: max_vel_1, max_vel_2 >= 0.1 (reset velocity range [-0.1,0.1] inside); Pendulum: max_speed >= 1 "
                     "(reset speed range [-1,1] inside), max_torque >= 0")


def fin(t):
    return z3.And(z3.Not(z3.fpIsNaN(t)), z3.Not(z3.fpIsInf(t)))


def _fp_trig(t, a):
    return [z3.Implies(fin(a[0]), z3.And(z3.fpLEQ(t, z3.FPVal(1.0, F32)), z3.fpGEQ(t, z3.FPVal(-1.0, F32))))]


TRIG_FP = {"cos_f32": _fp_trig, "sin_f32": _fp_trig}


def lerax_defaults(cls):
    import inspect
    sig = inspect.signature(cls.__init__)
    return {k: v.default for k, v in sig.parameters.items() if v.default is not inspect.Parameter.empty and k not in ("solver", "stepsize_controller")}


class Cfg:
    """a classic-control environment in one configuration (default | symbolic limits) and one numeric mode"""

    def __init__(self, name, cfg, mode, **static):
        sp = CLASSIC[name]
        self.name, self.sp, self.cfg, self.mode = name, sp, cfg, mode
        self.it = FPRemInterp() if mode == "fp32" else RemInterp()
        o = self.it.o
        cls = sp["cls"]
        dflt = lerax_defaults(cls)
        self.lnames = list(sp["limits"])
        self.trc = trace(lambda *v: cls(**dict(zip(self.lnames, v)), **static), *[jnp.asarray(dflt[l], jnp.float32) for l in self.lnames], argnames=self.lnames,
                         label=f"{cls.__name__}.__init__")
        self.env = cls(**static)
        self.pre = []
        if cfg == "default":
            self.C = {l: self.it.lift(np.asarray(dflt[l], np.float32)) for l in self.lnames}
        else:
            self.C = self.trc.symbols(self.it)
            c = {l: self.C[l][()] for l in self.lnames}
            L = lambda v: o.lift(v, np.float32)
            if mode == "fp32":
                self.pre += [fin(t) for t in c.values()]
            else:
                self.pre += [z3.And(t > -FLT_MAX, t < FLT_MAX) for t in c.values()]
            if name in ("mountain_car", "continuous_mountain_car"):
                self.pre += [o.le(c["min_position"], L(-0.6)), o.ge(c["max_position"], L(-0.4)), o.ge(c["max_speed"], L(0.0))]
                if name == "continuous_mountain_car":
                    self.pre += [o.le(c["min_action"], c["max_action"])]
            elif name == "cartpole":
                self.pre += [o.ge(c["x_threshold"], L(0.05)), o.ge(c["theta_threshold_radians"], L(0.05))]
            elif name == "acrobot":
                self.pre += [o.ge(c["max_vel_1"], L(0.1)), o.ge(c["max_vel_2"], L(0.1))]
            elif name == "pendulum":
                self.pre += [o.ge(c["max_speed"], L(1.0)), o.ge(c["max_torque"], L(0.0))]
        self.E = self.trc.run(self.it, self.C)
        self.tag = f"config={cfg}"

    def given(self, extra=None):
        g = {"env_" + k: v for k, v in self.E.items()}
        g.update(extra or {})
        return g

    def finite(self, terms):
        if self.mode == "fp32":
            return [fin(t) for t in terms if not isconc(t)]
        return [z3.And(t >= -FLT_MAX, t <= FLT_MAX) for t in terms if not isconc(t)]


def fp_nice(terms):
    """replay-friendly FP32 values (zero or normal with moderate magnitude): XLA on CPU flushes subnormals, z3 does not — used in margin
    queries only (to pick a counterexample that survives the real arithmetic), never to prove"""
    out = []
    for t in terms:
        if isconc(t) or not z3.is_fp(t):
            continue
        a = z3.fpAbs(t)
        out.append(z3.Or(z3.fpIsZero(t), z3.And(z3.fpIsNormal(t), z3.fpGEQ(a, z3.FPVal(2.0 ** -20, F32)), z3.fpLEQ(a, z3.FPVal(2.0 ** 20, F32)))))
    return out


def real_nice(terms, bound=64):
    """moderate magnitudes for REAL-mode counterexamples (so that they survive float32); margin queries only"""
    return [z3.And(t >= -bound, t <= bound) for t in terms if not isconc(t) and z3.is_real(t)]


def sym_inputs(S, C=None):
    ts = [t for v in S.values() for t in np.asarray(v, dtype=object).reshape(-1) if not isconc(t)]
    if C:
        ts += [t for v in C.values() for t in np.asarray(v, dtype=object).reshape(-1) if not isconc(t)]
    return ts


def prove_auto(ck, oid, pre, goal, nice=(), **kw):
    """products of symbols: try the default solver first (complete answers are kept), otherwise Ackermann + nlsat"""
    fs = [f for f in list(pre) + [neg(goal)] if not (isconc(f) and f)]
    quick = solve.decide(fs + solve.instantiate_axioms(fs), timeout_s=10)
    if nice:
        kw["margin_goal"] = implies(conj(list(nice)), goal)
    return ck.prove(oid, pre, goal, nonlinear=quick.status not in ("sat", "unsat"), **kw)


def member_terms(o, x, lo, hi):
    """the statement's membership, component by component: low_i <= x_i <= high_i (false for NaN in FP32)"""
    return [o.land(o.le(l, v), o.le(v, h)) for v, l, h in zip(np.asarray(x, dtype=object).reshape(-1), np.asarray(lo, dtype=object).reshape(-1), np.asarray(hi, dtype=object).reshape(-1))]


def has_uf(t):
    return (not isconc(t)) and bool(solve.collect_apps([t]))


def replay_member(tr, S, it, need_member=True):
    """run the real function on the model's inputs; reproduced iff the real observation is not a member of the real declared space"""
    def rp(res):
        keys = concrete.KeyBinding(res)
        w = concrete.ModelWorld(res, it.uf_apps, keys)
        vals = [concrete.model_leaf(res, S[n], av, keys) for n, av in zip(tr.in_names, tr.in_avals)]
        real = dict(zip(tr.out_names, concrete.run_real(tr, vals, w)))
        obs, lo, hi = (np.asarray(real[k], dtype=np.float64) for k in ("obs", "low", "high"))
        with np.errstate(all="ignore"):
            inside = bool(np.all(lo <= obs) and np.all(obs <= hi))
        info = {"inputs": {n: np.asarray(concrete.real_to_float(v)).reshape(-1)[:8].tolist() for n, v in zip(tr.in_names, vals) if not n.startswith("env_observation")},
                "real_observation": obs.tolist(), "declared_low": lo.tolist(), "declared_high": hi.tolist(), "member_by_bounds": inside, "function": tr.label}
        if "member" in real:
            info["real_contains"] = bool(np.asarray(real["member"]))
        bad = (not inside) or (need_member and "member" in real and not bool(np.asarray(real["member"])))
        return bad, info
    return rp


def space_out(env, ob):
    sp = env.observation_space
    return {"obs": ob, "low": sp.low, "high": sp.high, "member": sp.contains(ob)}


# ------------------------------------------------------------------------------------------------ classic control
def sec_inductive(ck, name):
    sp = CLASSIC[name]
    St = sp["state"]

    def f(e, y, t):
        s = St(y=e.clip(y), t=t)
        return space_out(e, e.observation(s, key=jr.key(0)))
    for cfg in ("default", "symbolic"):
        trig = None
        for mode in ("fp32", "real"):
            cx = Cfg(name, cfg, mode)
            it = cx.it
            tr = trace(f, cx.env, jnp.zeros(sp["ydim"]), jnp.array(0.0), argnames=["env", "y", "t"], label=f"{sp['cls'].__name__}: observation(clip(y)) in observation_space")
            if cfg == "default" and mode == "fp32":
                ck.encoded(cx.trc, tr)
                concrete.validate(ck, tr, n=2, seed=ck.seed)
            S = tr.symbols(it, given=cx.given())
            out = tr.run(it, S)
            comps = member_terms(it.o, out["obs"], out["low"], out["high"])
            if mode == "fp32":
                trig = [i for i, t in enumerate(out["obs"]) if has_uf(t)]
                sel = [i for i in range(len(comps)) if i not in trig]
                goal = conj([comps[i] for i in sel])
                extra = TRIG_FP
            else:
                sel = trig
                if not sel:
                    continue
                goal = conj([comps[i] for i in sel] + [out["member"][()]])
                extra = None
            pre = cx.pre + cx.finite(list(S["y"])) + list(it.assumptions) + (inf_axioms() if mode == "real" else [])
            oid = f"cc.{name}.obs_in_space.inductive@{cx.tag},mode={mode.upper()},components={sel}"
            nice = fp_nice(sym_inputs(S, cx.C)) if mode == "fp32" else real_nice(sym_inputs(S, cx.C))
            ck.prove(oid, pre, goal, replay=replay_member(tr, S, it, need_member=(mode == "real")), extra_axioms=extra, nonlinear=False, margin_goal=implies(conj(nice), goal))
            if cfg == "default" and mode == "fp32" and sel:
                # negative control: the space shrunk by one ulp-ish margin is NOT an invariant
                i = sel[-1]
                tight = it.o.lt(out["obs"].reshape(-1)[i], out["high"].reshape(-1)[i])
                ck.control(f"control.cc.{name}.strict_upper_bound_not_invariant", pre, tight)
            if cfg == "default" and mode == "real" and sel:
                i = sel[0]
                ck.control(f"control.cc.{name}.trig_component_not_bounded_by_half", pre + solve.instantiate_axioms([goal]), it.o.le(out["obs"].reshape(-1)[i], Fraction(1, 2)))
        if cfg == "symbolic":
            ck.witness(f"witness.cc.{name}.meaningful_configuration_exists", cx.pre)


def sec_initial(ck, name):
    sp = CLASSIC[name]

    def f(e, k):
        with stubs.prng_stubs():
            s = e.initial(key=k)
        return space_out(e, e.observation(s, key=k))
    for cfg in ("default", "symbolic"):
        cx = Cfg(name, cfg, "real")
        it = cx.it
        tr = trace(f, cx.env, jr.key(0), argnames=["env", "key"], label=f"{sp['cls'].__name__}: observation(initial(key)) in observation_space")
        if cfg == "default":
            ck.encoded(tr)
        S = tr.symbols(it, given=cx.given())
        out = tr.run(it, S)
        comps = member_terms(it.o, out["obs"], out["low"], out["high"])
        pre = cx.pre + stubs.contracts(it) + list(it.assumptions) + inf_axioms()
        prove_auto(ck, f"cc.{name}.initial_in_space@{cx.tag},mode=REAL", pre, conj(comps + [out["member"][()]]), replay=replay_member(tr, S, it), nice=real_nice(sym_inputs(S, cx.C)))
        if cfg == "default":
            ck.witness(f"witness.cc.{name}.initial_contract_satisfiable", pre)
    if ck.thorough and name in ("cartpole", "mountain_car", "continuous_mountain_car"):
        # thorough tier: the float32 post-processing of the uniform draw itself (no angle components in these three)
        cx = Cfg(name, "default", "fp32")
        it = cx.it
        S = tr.symbols(it, given=cx.given())
        out = tr.run(it, S)
        us = [t for (nm, oi, idx, ops, t) in it.uf_apps if nm == "RAND_u01"]
        pre = stubs.contracts(it) + [z3.fpLEQ(u, z3.FPVal(U_MAX, F32)) for u in us]
        for i, goal in enumerate(member_terms(it.o, out["obs"], out["low"], out["high"])):
            ck.prove(f"cc.{name}.initial_in_space@config=default,mode=FP32,component={i}", pre, goal, replay=replay_member(tr, S, it, need_member=False), timeout=300,
                     margin_goal=implies(conj(fp_nice(sym_inputs(S))), goal))


def sec_cartpole_step(ck):
    """identity clip: the observation of every state that step() carries forward (non-terminal successor or reset state)"""
    def f(e, y, t, a, k):
        with stubs.ode_stub(), stubs.prng_stubs():
            st, ob, rew, term, trunc, info = e.step(CartPoleState(y=y, t=t), a, key=k)
        d = space_out(e, ob)
        d.update(state_y=st.y, terminal=term, truncate=trunc)
        return d
    for cfg in ("default", "symbolic"):
        cx = Cfg("cartpole", cfg, "real")
        it = cx.it
        tr = trace(f, cx.env, jnp.zeros(4), jnp.array(0.0), jnp.array(0), jr.key(0), argnames=["env", "y", "t", "a", "key"], label="CartPole.step (diffeqsolve -> FLOW, PRNG contracts)")
        if cfg == "default":
            ck.encoded(tr)
            concrete.validate(ck, tr, n=2, seed=ck.seed, gen=lambda nm, av, rng: jnp.asarray(rng.integers(0, 2), dtype=av.dtype) if nm == "a" else None)
        S = tr.symbols(it, given=cx.given())
        out = tr.run(it, S)
        flow = [t for (nm, oi, idx, ops, t) in it.uf_apps if nm == "FLOW"]
        pre = cx.pre + stubs.contracts(it) + [z3.And(t > -FLT_MAX, t < FLT_MAX) for t in flow] + inf_axioms() + [S["a"][()] >= 0, S["a"][()] <= 1]
        comps = member_terms(it.o, out["obs"], out["low"], out["high"])
        goal = conj(comps + [out["member"][()], eq_arr(out["obs"], out["state_y"])])
        ck.fact(f"cc.cartpole.step_uses_flow@{cx.tag}", len(flow) == 4, f"{len(flow)} FLOW outputs feed the successor state")
        ck.prove(f"cc.cartpole.obs_in_space.step_inductive@{cx.tag},mode=REAL", pre, goal, replay=replay_step(tr, S, it),
                 margin_goal=implies(conj(real_nice(sym_inputs(S, cx.C) + flow)), goal))
        if cfg == "default":
            ck.witness("witness.cc.cartpole.nonterminal_successor_reachable", pre + [neg(out["terminal"][()])])
            ck.witness("witness.cc.cartpole.terminal_successor_reachable", pre + [out["terminal"][()]])
            # control: without auto-reset the observation of the raw successor is not always a member
            raw = member_terms(it.o, np.array(flow, dtype=object), out["low"], out["high"])
            ck.control("control.cc.cartpole.raw_successor_not_always_member", pre, conj(raw))
    # the TERMINAL successor: the state in which an episode ends is a reachable state too, and its observation is what the algorithms bootstrap from.
    # With the explicit Euler step (x' = x + dt*x_dot, theta' = theta + dt*theta_dot) and speeds below threshold/dt (120 m/s, 21 rad/s at the defaults)
    # the successor of a non-terminal state lies within twice the termination thresholds -- the margin the declared space has to provide
    import diffrax

    def h(e, y, t, a, k):
        with stubs.ode_stub(), stubs.prng_stubs():
            s0 = CartPoleState(y=y, t=t)
            s2 = e.transition(s0, a, key=k)
            d = space_out(e, e.observation(s2, key=k))
            d["terminal0"] = e.terminal(s0, key=k)
        return d
    for cfg in ("default", "symbolic"):
        cx = Cfg("cartpole", cfg, "real", solver=diffrax.Euler())
        it = cx.it
        tr = trace(h, cx.env, jnp.zeros(4), jnp.array(0.0), jnp.array(0), jr.key(0), argnames=["env", "y", "t", "a", "key"], label="CartPole(Euler).transition -> observation (no auto-reset)")
        if cfg == "default":
            ck.encoded(tr)
        S = tr.symbols(it, given=cx.given())
        out = tr.run(it, S)
        y = list(S["y"])
        xt, tt = cx.C["x_threshold"][()], cx.C["theta_threshold_radians"][()]
        dt0 = np.asarray(cx.given()["env_dt0"], dtype=object).reshape(-1)[0]
        o = it.o
        slow = [o.le(o.mul(dt0, y[1]), xt), o.le(o.neg(xt), o.mul(dt0, y[1])), o.le(o.mul(dt0, y[3]), tt), o.le(o.neg(tt), o.mul(dt0, y[3]))]
        # (state components and thresholds of magnitude <= 64: far from float32 overflow, which the reals do not model)
        pre = cx.pre + stubs.contracts(it) + inf_axioms() + [S["a"][()] >= 0, S["a"][()] <= 1, neg(out["terminal0"][()])] + slow + real_nice(sym_inputs(S, cx.C))
        # the two bounded components (cart position, pole angle); the velocity components of the space are unbounded
        mt = member_terms(it.o, out["obs"], out["low"], out["high"])
        goal = conj([mt[0], mt[2]])
        ck.assume_note("cc.cartpole.obs_in_space.terminal_successor: Euler solver, |x_dot|*dt <= x_threshold and |theta_dot|*dt <= theta_threshold (speeds no episode from the documented reset "
                       "range attains), all state components and thresholds of magnitude <= 64")
        ck.prove(f"cc.cartpole.obs_in_space.terminal_successor@{cx.tag},solver=Euler,mode=REAL", pre, goal, replay=replay_member(tr, S, it, need_member=False))
        if cfg == "default":
            ck.witness("witness.cc.cartpole.successor_beyond_threshold_reachable", pre + [o.gt(np.asarray(out["obs"], dtype=object).reshape(-1)[0], xt)])
    # FP32: a non-terminal state (finite or not) observes inside the space
    def g(e, y, t):
        s = CartPoleState(y=y, t=t)
        d = space_out(e, e.observation(s, key=jr.key(0)))
        d["terminal"] = e.terminal(s, key=jr.key(0))
        return d
    for cfg in ("default", "symbolic"):
        cx = Cfg("cartpole", cfg, "fp32")
        it = cx.it
        tr = trace(g, cx.env, jnp.zeros(4), jnp.array(0.0), argnames=["env", "y", "t"], label="CartPole: not terminal(s) => observation(s) in observation_space")
        if cfg == "default":
            ck.encoded(tr)
            concrete.validate(ck, tr, n=2, seed=ck.seed)
        S = tr.symbols(it, given=cx.given())
        out = tr.run(it, S)
        comps = member_terms(it.o, out["obs"], out["low"], out["high"])
        pre = cx.pre + [z3.Not(z3.fpIsNaN(t)) for t in S["y"]] + [neg(out["terminal"][()])]
        goal = conj(comps + [out["member"][()]])
        ck.prove(f"cc.cartpole.obs_in_space.nonterminal@{cx.tag},mode=FP32", pre, goal, replay=replay_member(tr, S, it),
                 margin_goal=implies(conj(pre + fp_nice(sym_inputs(S, cx.C))), goal))
        if cfg == "default":
            ck.witness("witness.cc.cartpole.nonterminal_state_exists_fp32", pre)
            ck.control("control.cc.cartpole.terminal_states_not_all_members", [z3.Not(z3.fpIsNaN(t)) for t in S["y"]], conj(comps))


def replay_step(tr, S, it):
    """CartPole.step on the model's inputs with the model's FLOW/PRNG values (the stubs are part of the traced function)"""
    def rp(res):
        keys = concrete.KeyBinding(res)
        w = concrete.ModelWorld(res, it.uf_apps, keys)
        vals = [concrete.model_leaf(res, S[n], av, keys) for n, av in zip(tr.in_names, tr.in_avals)]
        real = dict(zip(tr.out_names, concrete.run_real(tr, vals, w)))
        obs, lo, hi = (np.asarray(real[k], dtype=np.float64) for k in ("obs", "low", "high"))
        with np.errstate(all="ignore"):
            inside = bool(np.all(lo <= obs) and np.all(obs <= hi))
        same = bool(np.allclose(obs, np.asarray(real["state_y"], dtype=np.float64), equal_nan=True))
        info = {"inputs": {n: np.asarray(concrete.real_to_float(v)).reshape(-1)[:8].tolist() for n, v in zip(tr.in_names, vals) if n in ("y", "a", "env_x_threshold", "env_theta_threshold_radians")},
                "uf_table_hits": w.hits, "real_observation": obs.tolist(), "declared_low": lo.tolist(), "declared_high": hi.tolist(), "terminal": bool(np.asarray(real["terminal"])),
                "member_by_bounds": inside, "real_contains": bool(np.asarray(real["member"])), "observation_is_of_returned_state": same, "function": tr.label}
        return (not inside) or (not bool(np.asarray(real["member"]))) or (not same), info
    return rp


def sec_reward_finite(ck, name):
    """|reward| < FLT_MAX for every transition into a state the env can produce (clip(y) of a finite integrator output)"""
    sp = CLASSIC[name]
    St = sp["state"]
    cx = Cfg(name, "default", "real")
    it = cx.it
    box = isinstance(cx.env.action_space, Box)

    def f(e, y0, a, y, t):
        return {"reward": e.reward(St(y=y0, t=t), a, St(y=e.clip(y), t=t), key=jr.key(0))}
    tr = trace(f, cx.env, jnp.zeros(sp["ydim"]), jnp.array(0.0) if box else jnp.array(0), jnp.zeros(sp["ydim"]), jnp.array(0.0), argnames=["env", "y0", "a", "y", "t"],
               label=f"{sp['cls'].__name__}.reward(s, a, clip(y))")
    ck.encoded(tr)
    S = tr.symbols(it, given=cx.given())
    out = tr.run(it, S)
    r = out["reward"][()]
    a = S["a"][()]
    pre = cx.finite(list(S["y"]) + list(S["y0"])) + list(it.assumptions) + (cx.finite([a]) if box else [a >= 0, a < cx.env.action_space.n])
    goal = True if isconc(r) else z3.And(r > -FLT_MAX, r < FLT_MAX)

    def rp(res):
        keys = concrete.KeyBinding(res)
        vals = [concrete.model_leaf(res, S[n], av, keys) for n, av in zip(tr.in_names, tr.in_avals)]
        real = float(np.asarray(concrete.run_real(tr, vals)[0]))
        return (not math.isfinite(real)), {"inputs": {n: np.asarray(v).reshape(-1).tolist() for n, v in zip(tr.in_names, vals) if not n.startswith("env_")}, "real_reward": real, "function": tr.label}
    ck.prove(f"cc.{name}.reward_finite.inductive@config=default,mode=REAL", pre, goal, replay=rp, nonlinear=not isconc(r) and name in ("pendulum", "continuous_mountain_car"))
    if name == "pendulum":
        ck.control("control.cc.pendulum.reward_not_bounded_by_ten", pre, z3.And(r > -10, r < 10), nonlinear=True)



# ------------------------------------------------------------------------------------------------ sampled actions
def _sample_fn(space, key):
    with stubs.prng_stubs():
        a = space.sample(key=key)
    return {"obs": a, "member": space.contains(a)}


def _box_sample_fn(space, key):
    d = _sample_fn(space, key)
    d.update(low=space.low, high=space.high)
    return d


U_MAX = 1 - 2 ** -23     # jax.random.uniform draws 23 mantissa bits: u is a multiple of 2^-23 in [0, 1 - 2^-23]
_seen_bounds = set()


def action_sample(ck, label, space, modes, given=None, pre0=None, tag="config=default"):
    """sampled actions are members of the declared action space (independent oracle: bounds / integer range; and lerax's own contains)"""
    if isinstance(space, Discrete):
        paths = explore(_sample_fn, space, jr.key(0), argnames=["space", "key"], label=f"{label}: Discrete({space.n}).sample -> contains")
        ck.fact(f"cc.{label}.action_sample_member.paths_complete", all(exc is None and tr is not None for _, tr, exc in paths), f"{len(paths)} Python-level paths through contains(), none raises")
        feasible = []
        for dec, tr, exc in paths:
            if tr is None:
                continue
            it = Interp()
            S = tr.symbols(it)
            out = tr.run(it, S)
            conds = [out[k][()] for k in tr.out_names if k.startswith("1_")]
            pc = [c if d else neg(c) for c, d in zip(conds, dec)]
            a = out["0_obs"][()]
            goal = conj([out["0_member"][()], it.o.le(0, a), it.o.lt(a, space.n)])
            av = tr.out_avals[tr.out_names.index("0_obs")]
            ck.fact(f"cc.{label}.action_sample_member.aval@path={dec}", av.shape == () and np.issubdtype(av.dtype, np.integer), f"sample aval {av}")

            def rp(res, tr=tr, S=S, it=it):
                keys = concrete.KeyBinding(res)
                w = concrete.ModelWorld(res, it.uf_apps, keys)
                vals = [concrete.model_leaf(res, S[n], av, keys) for n, av in zip(tr.in_names, tr.in_avals)]
                real = dict(zip(tr.out_names, concrete.run_real(tr, vals, w)))
                a_, m_ = int(np.asarray(real["0_obs"])), bool(np.asarray(real["0_member"]))
                return (not m_) or not (0 <= a_ < space.n), {"sampled": a_, "real_contains": m_, "n": space.n}
            ck.prove(f"cc.{label}.action_sample_member@path={dec}", stubs.contracts(it) + pc, goal, replay=rp)
            feas = solve.decide(stubs.contracts(it) + pc, timeout_s=20).status == "sat"
            feasible.append(feas)
        ck.fact(f"witness.cc.{label}.some_sample_path_feasible", any(feasible), f"feasible paths under the PRNG contract: {feasible}")
        return
    tr = trace(_box_sample_fn, space, jr.key(0), argnames=["space", "key"], label=f"{label}: Box.sample -> contains")
    ck.encoded(tr)
    for mode in modes:
        it = Interp(mode=mode)
        g = given(it) if given else {"space_low": it.lift(np.asarray(space.low)), "space_high": it.lift(np.asarray(space.high))}
        S = tr.symbols(it, given=g)
        out = tr.run(it, S)
        comps = member_terms(it.o, out["obs"], out["low"], out["high"])
        pre = list(pre0(it, g) if pre0 else []) + stubs.contracts(it)
        sel = list(range(len(comps)))
        if mode == "fp32":
            us = [t for (nm, oi, idx, ops, t) in it.uf_apps if nm == "RAND_u01"]
            pre += [z3.fpLEQ(u, z3.FPVal(U_MAX, F32)) for u in us]
            sel = []
            for i, (l, h) in enumerate(zip(np.asarray(space.low).reshape(-1), np.asarray(space.high).reshape(-1))):
                if (float(l), float(h)) not in _seen_bounds:
                    _seen_bounds.add((float(l), float(h)))
                    sel.append(i)
            if not sel:
                ck.skip(f"cc.{label}.action_sample_member@{tag},mode=FP32", "every (low, high) pair of this space was already decided for another environment (the component formula depends on the pair only)")
                continue
        else:
            pre += inf_axioms()
        goal = conj([comps[i] for i in sel] + ([out["member"][()]] if mode == "real" else []))
        oid = f"cc.{label}.action_sample_member@{tag},mode={mode.upper()}" + (f",components={sel}" if mode == "fp32" else "")
        ck.prove(oid, pre, goal, replay=replay_member(tr, S, it, need_member=(mode == "real")), timeout=240,
                 margin_goal=implies(conj(pre + fp_nice(sym_inputs(S))), goal) if mode == "fp32" else None)
        if mode == "real" and tag == "config=default" and label in ("continuous_mountain_car", "pendulum", "ant"):
            hi = np.asarray(out["high"], dtype=object).reshape(-1)[0]
            ck.control(f"control.cc.{label}.action_sample_below_midpoint", pre, it.o.le(np.asarray(out["obs"], dtype=object).reshape(-1)[0], it.o.mul(hi, Fraction(1, 2))))


def sec_actions_classic(ck, name):
    cx0 = Cfg(name, "default", "real")
    space = cx0.env.action_space
    if isinstance(space, Discrete):
        action_sample(ck, name, space, ["real"])
    else:
        action_sample(ck, name, space, ["real", "fp32"])
        # symbolic action bounds under min <= max (REAL)
        cx = Cfg(name, "symbolic", "real")
        given = lambda it: {"space_low": cx.E["action_space_low"], "space_high": cx.E["action_space_high"]}

        tr = trace(_box_sample_fn, space, jr.key(0), argnames=["space", "key"], label=f"{name}: Box.sample -> contains")
        it = cx.it
        S = tr.symbols(it, given=given(it))
        out = tr.run(it, S)
        comps = member_terms(it.o, out["obs"], out["low"], out["high"])
        pre = cx.pre + stubs.contracts(it) + inf_axioms()
        prove_auto(ck, f"cc.{name}.action_sample_member@config=symbolic,mode=REAL", pre, conj(comps + [out["member"][()]]), replay=replay_member(tr, S, it), nice=real_nice(sym_inputs(S, cx.C)))
    # accepted: step() takes the sampled action's abstract value
    st = jax.eval_shape(lambda k: cx0.env.initial(key=k), jr.key(0))
    act = jax.eval_shape(lambda k: space.sample(key=k), jr.key(0))
    try:
        jax.eval_shape(lambda s, a, k: cx0.env.step(s, a, key=k), st, act, jr.key(0))
        ok, why = True, f"step accepts {act}"
    except Exception as ex:  # noqa: BLE001
        ok, why = False, repr(ex)[:300]
    ck.fact(f"types.{name}.action_accepted", ok, why)


# ------------------------------------------------------------------------------------------------ wrappers
def wrapper_image(ck, label, w, inner_space, mode, any_input=False):
    """for every inner observation that is a member of the inner space (or, any_input: any non-NaN value): w.func(obs) is a member of
    the space the wrapper advertises"""
    def f(w_, ob):
        return space_out(w_, w_.func(ob))
    ex = jnp.zeros(inner_space.shape)
    tr = trace(f, w, ex, argnames=["w", "ob"], label=f"{label}: func(obs) in advertised observation_space")
    ck.encoded(tr)
    it = Interp(mode=mode)
    leaves = [l for l in jax.tree_util.tree_leaves(w) if eqx.is_array(l)]
    given = {n: it.lift(np.asarray(l), av.dtype) for n, av, l in zip(tr.in_names, tr.in_avals, leaves) if n != "ob"}
    S = tr.symbols(it, given=given)
    out = tr.run(it, S)
    lo_in, hi_in = it.lift(np.asarray(inner_space.low)), it.lift(np.asarray(inner_space.high))
    ob = S["ob"]
    if any_input:
        pre = [z3.Not(z3.fpIsNaN(t)) for t in ob.reshape(-1)] if mode == "fp32" else []
    else:
        pre = member_terms(it.o, ob, lo_in, hi_in)
    if mode == "real":
        pre = pre + inf_axioms() + [z3.And(t > -INF, t < INF) for t in ob.reshape(-1)]
    comps = member_terms(it.o, out["obs"], out["low"], out["high"])
    sp = w.observation_space
    av = tr.out_avals[tr.out_names.index("obs")]
    ck.fact(f"wrap.{label}.obs_aval", tuple(av.shape) == tuple(sp.shape) and av.dtype == sp.low.dtype, f"func output {av}, advertised shape {sp.shape} dtype {sp.low.dtype}")
    goal = conj(comps + [out["member"][()]])
    ck.prove(f"wrap.{label}.obs_in_advertised_space,mode={mode.upper()}", pre, goal, replay=replay_member(tr, S, it),
             margin_goal=implies(conj(pre + fp_nice(sym_inputs(S))), goal) if mode == "fp32" else None)
    return tr, it, S, out, pre


def action_image(ck, label, w, mode="real"):
    """for every member of the action space the wrapper advertises: the action handed to the wrapped environment (w.func(action)) is a
    member of the wrapped environment's action space (`sampled actions ... are accepted`, through an action wrapper)"""
    def f(w_, a):
        sp = w_.env.action_space
        x = w_.func(a)
        return {"obs": x, "low": sp.low, "high": sp.high, "member": sp.contains(x)}
    outer = w.action_space
    tr = trace(f, w, jnp.zeros(outer.shape), argnames=["w", "a"], label=f"{label}: func(action) in the wrapped environment's action_space")
    ck.encoded(tr)
    it = Interp(mode=mode)
    leaves = [l for l in jax.tree_util.tree_leaves(w) if eqx.is_array(l)]
    given = {n: it.lift(np.asarray(l), av.dtype) for n, av, l in zip(tr.in_names, tr.in_avals, leaves) if n != "a"}
    S = tr.symbols(it, given=given)
    out = tr.run(it, S)
    a = S["a"]
    pre = member_terms(it.o, a, it.lift(np.asarray(outer.low)), it.lift(np.asarray(outer.high)))
    if mode == "real":
        pre = pre + inf_axioms() + [z3.And(t > -INF, t < INF) for t in a.reshape(-1)]
    goal = conj(member_terms(it.o, out["obs"], out["low"], out["high"]) + [out["member"][()]])
    ck.prove(f"wrap.{label}.inner_action_in_inner_space,mode={mode.upper()}", pre, goal, replay=replay_member(tr, S, it),
             margin_goal=implies(conj(pre + fp_nice(sym_inputs(S))), goal) if mode == "fp32" else None)
    return tr, it, S, out, pre


def observation_is_func(ck, label, w):
    """w.observation(state) is literally func(inner observation(inner state)) — same term"""
    st = jax.eval_shape(lambda k: w.initial(key=k), jr.key(0))
    t1 = trace(lambda w_, s, k: w_.observation(s, key=k), w, st, jr.key(0), argnames=["w", "s", "k"], label=f"{label}.observation")
    t2 = trace(lambda w_, s, k: w_.func(w_.env.observation(s.env_state, key=k)), w, st, jr.key(0), argnames=["w", "s", "k"], label=f"{label}.func(inner observation)")
    it = RemInterp()
    S = t1.symbols(it)
    o1, o2 = t1.run(it, S), t2.run(it, S)
    k1, k2 = t1.out_names[0], t2.out_names[0]
    ck.prove(f"wrap.{label}.observation_is_func_of_inner", [], eq_arr(o1[k1], o2[k2]), replay=lambda res: (True, {"note": "terms differ"}))


def sec_wrappers(ck):
    from lerax import wrapper as W
    envs = {"cartpole": CartPole(), "mountain_car": MountainCar(), "continuous_mountain_car": ContinuousMountainCar(), "acrobot": Acrobot(), "pendulum": Pendulum()}
    dyadic = {"mountain_car": MountainCar(min_position=-1.0, max_position=1.0, max_speed=0.5),
              "continuous_mountain_car": ContinuousMountainCar(min_position=-1.0, max_position=1.0, max_speed=0.5),
              "acrobot": Acrobot(max_vel_1=4.0, max_vel_2=8.0), "pendulum": Pendulum(),
              # boxes that are NOT symmetric about 0 (an affine map is fixed by two points: a slope with a wrong intercept is invisible on symmetric boxes)
              "mountain_car_asymmetric": MountainCar(min_position=-3.0, max_position=1.0, max_speed=0.5),
              "continuous_mountain_car_asymmetric": ContinuousMountainCar(min_position=-3.0, max_position=1.0, max_speed=0.25)}
    first = True
    for name, env in envs.items():
        with ck.section(f"wrap.clip.{name}"):
            w = W.ClipObservation(env)
            tr, it, S, out, pre = wrapper_image(ck, f"ClipObservation@{name}", w, env.observation_space, "fp32", any_input=True)
            observation_is_func(ck, f"ClipObservation@{name}", w)
            if first:
                concrete.validate(ck, tr, n=2, seed=ck.seed)
                ck.control("control.wrap.clip.nan_is_not_clipped_into_the_space", [], conj(member_terms(it.o, out["obs"], out["low"], out["high"])))
                first = False
        with ck.section(f"wrap.flatten.{name}"):
            w = W.FlattenObservation(env)
            wrapper_image(ck, f"FlattenObservation@{name}", w, env.observation_space, "fp32")
            observation_is_func(ck, f"FlattenObservation@{name}", w)
    for name, env in dyadic.items():
        for rng_ in ((-1.0, 1.0), (0.0, 4.0)):
            with ck.section(f"wrap.rescale.{name}.{rng_}"):
                w = W.RescaleObservation(env, min=jnp.array(rng_[0]), max=jnp.array(rng_[1]))
                tr, it, S, out, pre = wrapper_image(ck, f"RescaleObservation[{rng_[0]},{rng_[1]}]@{name}(dyadic limits)", w, env.observation_space, "real")
                if name == "mountain_car" and rng_[0] == -1.0:
                    observation_is_func(ck, f"RescaleObservation@{name}", w)
                    concrete.validate(ck, tr, n=2, seed=ck.seed)
                    half = it.o.le(np.asarray(out["obs"], dtype=object).reshape(-1)[0], Fraction(1, 2))
                    ck.control("control.wrap.rescale.image_not_in_half_range", pre, half)
    # bit-precise (float32): the DEFAULT environments have non-dyadic limits, so the rescale gradient is rounded; every float32 member of the inner space
    # must still land inside the advertised space (z3 FloatingPoint: one multiplication and one addition per component)
    for name in (["mountain_car", "pendulum"] if not ck.thorough else ["mountain_car", "continuous_mountain_car", "acrobot", "pendulum"]):
        env = envs[name]
        for rng_ in (((-1.0, 1.0),) if not ck.thorough else ((-1.0, 1.0), (0.0, 1.0), (0.0, 10.0), (-3.0, 7.0))):
            with ck.section(f"wrap.rescale_fp32.{name}.{rng_}"):
                w = W.RescaleObservation(env, min=jnp.array(rng_[0]), max=jnp.array(rng_[1]))
                wrapper_image(ck, f"RescaleObservation[{rng_[0]},{rng_[1]}]@{name}(default limits)", w, env.observation_space, "fp32")
    # action wrappers: what reaches the wrapped environment is a member of ITS action space
    for name, env in (("pendulum", Pendulum()), ("continuous_mountain_car", ContinuousMountainCar()),
                      ("continuous_mountain_car_asymmetric", ContinuousMountainCar(min_action=-1.0, max_action=3.0))):
        for rng_ in ((-1.0, 1.0), (0.0, 4.0)):
            with ck.section(f"wrap.rescale_action.{name}.{rng_}"):
                w = W.RescaleAction(env, min=jnp.array(rng_[0]), max=jnp.array(rng_[1]))
                tr, it, S, out, pre = action_image(ck, f"RescaleAction[{rng_[0]},{rng_[1]}]@{name}", w)
                if name == "pendulum" and rng_[0] == -1.0:
                    concrete.validate(ck, tr, n=2, seed=ck.seed)
        with ck.section(f"wrap.clip_action.{name}"):
            w = W.ClipAction(env)
            action_image(ck, f"ClipAction@{name}", w, mode="fp32")
            if name == "pendulum":
                # `sampled actions are members of the declared action space` for a stack whose declared action space is unbounded (ClipAction advertises
                # Box(-inf, inf)): the sample-membership obligation of C14 on that space (reals extended with the IEEE special values: 0 * inf is NaN)
                from props import C14
                C14.check_sample(ck, w.action_space, patterns=[("unbounded",)])
    # rewards through an action wrapper: the wrapped environment's reward is evaluated on the MAPPED (clipped / rescaled) action, i.e. on a member of its
    # action space, for which the `cc.<env>.reward` obligations bound it -- the delegation obligations of C13 for the action wrappers, discharged here
    from props import C13
    for spec in (["ClipAction"], ["RescaleAction"]):
        with ck.section(f"wrap.reward_of_mapped_action.{spec[0]}"):
            C13.check_methods(ck, spec, "box")
    with ck.section("wrap.rescale.cartpole"):
        # unbounded components keep infinite targets (the meaningful configuration for a Box with infinite bounds)
        env = CartPole(x_threshold=2.0, theta_threshold_radians=0.25)
        w = W.RescaleObservation(env, min=jnp.array([-1.0, -jnp.inf, -1.0, -jnp.inf]), max=jnp.array([1.0, jnp.inf, 1.0, jnp.inf]))
        wrapper_image(ck, "RescaleObservation[-1,1 | inf]@cartpole(dyadic limits)", w, env.observation_space, "real")
    # depth-2 stacks: the inner space is the inner wrapper's advertised space
    for name in (["mountain_car", "pendulum"] if not ck.thorough else list(dyadic)):
        env = dyadic[name]
        with ck.section(f"wrap.stack2.{name}"):
            inner = W.RescaleObservation(env)
            wrapper_image(ck, f"ClipObservation∘RescaleObservation@{name}", W.ClipObservation(inner), inner.observation_space, "fp32", any_input=True)
            wrapper_image(ck, f"FlattenObservation∘RescaleObservation@{name}", W.FlattenObservation(inner), inner.observation_space, "fp32")
            inner = W.ClipObservation(env)
            wrapper_image(ck, f"RescaleObservation∘ClipObservation@{name}", W.RescaleObservation(inner), inner.observation_space, "real")
            inner = W.FlattenObservation(env)
            wrapper_image(ck, f"ClipObservation∘FlattenObservation@{name}", W.ClipObservation(inner), inner.observation_space, "fp32", any_input=True)
    # wrappers that do not touch observations advertise the inner space and return the inner observation (same term)
    with ck.section("wrap.passthrough"):
        env = envs["pendulum"]
        for wname, w in (("Identity", W.Identity(env)), ("TimeLimit", W.TimeLimit(env, 10)), ("ClipAction", W.ClipAction(env)), ("RescaleAction", W.RescaleAction(env))):
            st = jax.eval_shape(lambda k: w.initial(key=k), jr.key(0))
            t1 = trace(lambda w_, s, k: w_.observation(s, key=k), w, st, jr.key(0), argnames=["w", "s", "k"], label=f"{wname}.observation")
            t2 = trace(lambda w_, s, k: w_.env.observation(s.env_state, key=k), w, st, jr.key(0), argnames=["w", "s", "k"], label=f"{wname}.env.observation")
            it = RemInterp()
            S = t1.symbols(it)
            o1, o2 = t1.run(it, S), t2.run(it, S)
            same_space = isinstance(w.observation_space, Box) and bool(jnp.array_equal(w.observation_space.low, env.observation_space.low)) and bool(jnp.array_equal(w.observation_space.high, env.observation_space.high))
            ck.fact(f"wrap.{wname}.advertises_inner_space", same_space, "observation_space of the wrapper has the inner Box's bounds")
            ck.prove(f"wrap.{wname}.obs_passthrough", [], eq_arr(o1[t1.out_names[0]], o2[t2.out_names[0]]), replay=lambda res: (True, {"note": "terms differ"}))
    # ... and over stacks whose spaces differ from the base environment's (the declared spaces are the directly wrapped stack's, not the innermost env's)
    with ck.section("wrap.passthrough_over_transforming_stacks"):
        mc = dyadic["mountain_car_asymmetric"]
        inners = {"RescaleObservation@mountain_car": W.RescaleObservation(mc), "FlattenObservation∘RescaleObservation@mountain_car": W.FlattenObservation(W.RescaleObservation(mc)),
                  "RescaleAction@pendulum": W.RescaleAction(Pendulum()), "RescaleAction[0,4]@continuous_mountain_car": W.RescaleAction(ContinuousMountainCar(), min=jnp.array(0.0), max=jnp.array(4.0))}
        for iname, inner in inners.items():
            for wname, w in (("Identity", W.Identity(inner)), ("TimeLimit", W.TimeLimit(inner, 10)), ("ClipReward", W.ClipReward(inner))):
                passthrough_spaces(ck, f"{wname}∘{iname}", w)


def passthrough_spaces(ck, label, w, mode="real"):
    """a wrapper that transforms neither observations nor actions, over a stack that DOES: the spaces it declares must be those of the environment
    it directly wraps -- every member of the wrapped stack's observation space is a member of the declared observation space (its observation is
    the wrapped stack's, `obs_passthrough`), and every member of the declared action space is accepted by the wrapped stack"""
    inner = w.env

    def fo(w_, ob):
        return space_out(w_, ob)

    def fa(w_, a):
        sp = w_.env.action_space
        return {"obs": a, "low": sp.low, "high": sp.high, "member": sp.contains(a)}
    for what, f, src, dst in (("obs_of_wrapped_stack_in_declared_space", fo, inner.observation_space, w.observation_space),
                              ("declared_action_accepted_by_wrapped_stack", fa, w.action_space, inner.action_space)):
        if not (isinstance(src, Box) and isinstance(dst, Box)) or tuple(src.shape) != tuple(dst.shape):
            ck.fact(f"wrap.{label}.{what}", isinstance(src, Box) == isinstance(dst, Box) and getattr(src, "shape", None) == getattr(dst, "shape", None),
                    f"spaces of different kinds/shapes: {src} vs {dst}")
            continue
        tr = trace(f, w, jnp.zeros(src.shape), argnames=["w", "x"], label=f"{label}: {what}")
        it = Interp(mode=mode)
        leaves = [l for l in jax.tree_util.tree_leaves(w) if eqx.is_array(l)]
        given = {n: it.lift(np.asarray(l), av.dtype) for n, av, l in zip(tr.in_names, tr.in_avals, leaves) if n != "x"}
        S = tr.symbols(it, given=given)
        out = tr.run(it, S)
        x = S["x"]
        pre = member_terms(it.o, x, it.lift(np.asarray(src.low)), it.lift(np.asarray(src.high)))
        if mode == "real":
            pre = pre + inf_axioms() + [z3.And(t > -INF, t < INF) for t in x.reshape(-1)]
        goal = conj(member_terms(it.o, out["obs"], out["low"], out["high"]) + [out["member"][()]])
        ck.prove(f"wrap.{label}.{what}", pre, goal, replay=replay_member(tr, S, it))


# ------------------------------------------------------------------------------------------------ no Python-side state across constructions
def construction_independence(ck, label, cls, max_variants=8):
    """`none of these depends on Python-side state`: an environment built with default arguments is the same object (every array leaf and static field)
    whether or not other instances with non-default options (floats halved, tuples scaled, dictionary options overriding known keys) were built before it"""
    import inspect
    import equinox as eqx
    e1 = cls()
    variants = []
    for n, p_ in inspect.signature(cls.__init__).parameters.items():
        d = p_.default
        if isinstance(d, bool) or n == "self":
            continue
        if isinstance(d, float):
            variants.append({n: d * 0.5 if d else 0.25})
        elif isinstance(d, tuple) and d and all(isinstance(x, (int, float)) and not isinstance(x, bool) for x in d):
            variants.append({n: tuple(x * 0.5 for x in d)})
        elif d is None and "dict" in str(p_.annotation):
            stem = n.split("_")[0] + "_"                     # reward_weights -> attributes reward_<key>, noise_scales -> noise_<key>
            keys = [a[len(stem):] for a in vars(e1) if a.startswith(stem) and a != n]
            for k in keys[:3]:
                variants.append({n: {k: 7.5}})
    built, failed = [], []
    for kw in variants[:max_variants] + [v for v in variants[max_variants:] if isinstance(next(iter(v.values())), dict)]:
        try:
            cls(**kw)
            built.append(next(iter(kw)))
        except Exception as ex:  # noqa: BLE001  (an invalid combination is not this obligation's business)
            failed.append(f"{next(iter(kw))}: {type(ex).__name__}")
    e2 = cls()
    import dataclasses
    diff = []

    def cmp(a, b, path, depth=0):
        """array leaves bit-equal; plain Python values equal; dataclass / container fields recursively; opaque host objects (MjModel, callables) are not compared"""
        if depth > 6:
            return
        if hasattr(a, "shape") and hasattr(a, "dtype"):
            if jax.dtypes.issubdtype(a.dtype, jax.dtypes.prng_key):
                a, b = jax.random.key_data(a), jax.random.key_data(b)
            if np.shape(a) != np.shape(b) or not np.array_equal(np.asarray(a), np.asarray(b), equal_nan=True):
                diff.append(path)
        elif isinstance(a, (bool, int, float, str, type(None), bytes)):
            if not (a == b or (isinstance(a, float) and a != a and b != b)):
                diff.append(path)
        elif isinstance(a, (tuple, list)):
            if not isinstance(b, (tuple, list)) or len(a) != len(b):
                diff.append(path)
            else:
                for i, (x, y) in enumerate(zip(a, b)):
                    cmp(x, y, f"{path}[{i}]", depth + 1)
        elif isinstance(a, dict):
            if not isinstance(b, dict) or list(a) != list(b):
                diff.append(path)
            else:
                for k in a:
                    cmp(a[k], b[k], f"{path}[{k!r}]", depth + 1)
        elif dataclasses.is_dataclass(a) and not isinstance(a, type):
            if type(a) is not type(b):
                diff.append(path)
            else:
                for f_ in dataclasses.fields(a):
                    try:
                        cmp(getattr(a, f_.name), getattr(b, f_.name), f"{path}.{f_.name}", depth + 1)
                    except AttributeError:
                        pass
    cmp(e1, e2, type(e1).__name__)
    same = not diff
    ck.fact(f"types.{label}.default_construction_independent_of_earlier_instances", same,
            f"default instance before vs after building {len(built)} non-default instances ({sorted(set(built))[:12]}); leaves that differ: {diff[:8]}; skipped: {failed[:4]}")


# ------------------------------------------------------------------------------------------------ types / purity
MUJOCO = ["Ant", "HalfCheetah", "Hopper", "Humanoid", "HumanoidStandup", "InvertedDoublePendulum", "InvertedPendulum", "Pusher", "Reacher", "Swimmer", "Walker2d"]
G1 = ["G1Locomotion", "G1Standing", "G1Standup"]
CLASSIC_CLS = ["CartPole", "MountainCar", "ContinuousMountainCar", "Acrobot", "Pendulum"]


def snake(n):
    import re
    return re.sub(r"(?<=[a-z0-9])(?=[A-Z])", "_", n).lower()


def type_facts(ck, label, res):
    sp = res["space"]
    for where in ("methods", "step", "reset"):
        if where not in res:
            continue
        m = res[where]
        sfx = "" if where == "methods" else f"@{where}"
        if "reward" in m:
            ck.fact(f"types.{label}.reward{sfx}", m["reward"][0] == [] and m["reward"][1].startswith("float"), f"reward aval {m['reward']}")
            ck.fact(f"types.{label}.terminal{sfx}", m["terminal"] == [[], "bool"], f"terminal aval {m['terminal']}")
            ck.fact(f"types.{label}.truncate{sfx}", m["truncate"] == [[], "bool"], f"truncate aval {m['truncate']}")
        ck.fact(f"types.{label}.obs{sfx}", m["observation"] == [sp["obs_shape"], sp["obs_dtype"]], f"observation aval {m['observation']}, declared space shape {sp['obs_shape']} dtype {sp['obs_dtype']}")
        if where == "step":
            ck.fact(f"types.{label}.state_preserved@step", bool(m["state_same_structure"]), "step returns a state of the same pytree structure and avals")
            ck.fact(f"types.{label}.action_accepted@step", True, f"step() traced with the sampled action's aval {sp['act_aval']}")
    ck.fact(f"types.{label}.action_accepted", True, f"reward() traced with the sampled action's aval {sp['act_aval']} (declared action shape {sp['act_shape']})")
    for fn, p in res.get("purity", {}).items():
        ok = p["equal"] and p["consts_same"] and p["inputs"] == p["arg_leaves"]
        ck.fact(f"pure.{label}.retrace_equal@{fn}", ok, f"two traces string-equal={p['equal']}, captured constants identical={p['consts_same']} ({p['consts']}), jaxpr inputs {p['inputs']} = explicit argument leaves {p['arg_leaves']}, "
                                                       f"{p['equations']} equations, host callbacks {p['callbacks']}")


def launch_workers(jobs, heavy, max_par):
    env = dict(os.environ)
    procs, pending, results = [], list(jobs), {}
    return {"pending": pending, "running": procs, "results": results, "env": env, "heavy": heavy, "max_par": max_par, "t0": time.time()}


def pump(pool, block=False, timeout=900):
    """start queued workers up to the parallelism limit; collect finished ones"""
    while True:
        for p in list(pool["running"]):
            if p["proc"].poll() is not None:
                out, err = p["proc"].communicate()
                line = [l for l in out.splitlines() if l.startswith("C02WORKER ")]
                pool["results"][p["job"]] = (json.loads(line[-1][len("C02WORKER "):]) if line else None, err[-1500:] if not line else "")
                pool["running"].remove(p)
        while pool["pending"] and len(pool["running"]) < pool["max_par"]:
            job = pool["pending"].pop(0)
            pr = subprocess.Popen([sys.executable, "-W", "ignore", "-m", "props.c02_worker", job[0], job[1], "1" if pool["heavy"] else "0"], cwd=ROOT, env=pool["env"],
                                  stdout=subprocess.PIPE, stderr=subprocess.PIPE, text=True)
            pool["running"].append({"proc": pr, "job": job})
        if not block or (not pool["running"] and not pool["pending"]):
            return
        if time.time() - pool["t0"] > timeout:
            for p in pool["running"]:
                p["proc"].kill()
            return
        time.sleep(0.2)


def main():
    ck = Check("C02", "environments stay inside their declared spaces; well-typed signals")
    ck.mode = "FP32 for clamp/bounds membership; REAL for the angle wrap, sin/cos (uninterpreted, range axioms), PRNG post-processing and reward magnitude — stated per obligation id"
    ck.stub(*stubs.STUB_NOTES[:1], "jax.random.normal -> arbitrary finite real; exponential -> arbitrary real >= 0", "jax.random.choice(n, replace=True, p) -> index in [0,n) with p[i] > 0", *stubs.ODE_NOTES,
            "FLOW outputs (the integrator's result) are finite (|y| < FLT_MAX): the inductive step quantifies over every finite integrator output",
            "FP32 sample obligations: the uniform draw is a multiple-of-2^-23 value u <= 1-2^-23 (jax.random.uniform fills 23 mantissa bits)",
            "FP32 angle path is not used: `%` is interpreted in REAL mode (integer quotient), sin/cos are uninterpreted with |.| <= 1 on finite arguments")
    ck.assume_note(PRECONDITION_NOTE)
    ck.bound(classic="5 environments x {default configuration, symbolic limits under the stated precondition}; integrator output, pre-state, action, PRNG draws symbolic",
             wrappers="ClipObservation / RescaleObservation (ranges [-1,1], [0,4]; dyadic inner limits) / FlattenObservation over the classic envs, depth-2 stacks over " + ("4" if ck.thorough else "2") + " envs",
             types="5 classic + 11 MuJoCo + 3 Unitree G1 environments; step()/reset()/transition of the MuJoCo and G1 models in the thorough tier only")
    ck.out("MuJoCo and Unitree G1 trajectories (unbounded observation boxes; NaN-freeness depends on the physics engine)",
           "float32 overflow / rounding inside reward arithmetic: reward magnitude is bounded over the reals (|r| < FLT_MAX) for the classic envs; MuJoCo / G1 reward finiteness is not claimed",
           "CartPole observations of terminal successors beyond the one step() replaces by a reset state",
           "float32 rounding inside RescaleObservation's affine map for configurations other than the default environments x target ranges listed under wrap.rescale_fp32 (those are bit-precise; symbolic-limit configurations are REAL) and inside jax.random.uniform's post-processing of reset states (REAL mode there); RescaleObservation over a Box with infinite bounds (CartPole) has no meaningful image",
           "observations of wrapper stacks whose wrappers do not transform observations are the inner observation (delegation itself is C13)")
    only = os.environ.get("C02_ONLY", "").split(",") if os.environ.get("C02_ONLY") else None
    heavy = ck.thorough
    jobs = [("lerax.env.unitree.g1", n) for n in G1] + ([("lerax.env.mujoco", n) for n in ("Humanoid", "HumanoidStandup", "Pusher", "Walker2d", "Hopper", "Ant", "HalfCheetah", "InvertedDoublePendulum", "Swimmer", "Reacher", "InvertedPendulum")] if heavy else [])
    pool = launch_workers([] if (only and "types" not in only) else jobs, heavy, max_par=int(os.environ.get("C02_WORKERS", "7")))
    pump(pool)
    for name in CLASSIC:
        if only and name not in only:
            continue
        if name != "cartpole":
            with ck.section(f"cc.{name}.inductive"):
                sec_inductive(ck, name)
        with ck.section(f"cc.{name}.initial"):
            sec_initial(ck, name)
        with ck.section(f"cc.{name}.reward"):
            sec_reward_finite(ck, name)
        with ck.section(f"cc.{name}.actions"):
            sec_actions_classic(ck, name)
        pump(pool)
    if not only or "cartpole" in only:
        with ck.section("cc.cartpole.step"):
            sec_cartpole_step(ck)
    pump(pool)
    if not only or "wrappers" in only:
        sec_wrappers(ck)
    pump(pool)
    if not only or "types" in only:
        from props.c02_worker import inspect_env
        import lerax.env.classic_control as CC
        import lerax.env.mujoco as MJ
        import lerax.env.unitree.g1 as G1M
        for n in CLASSIC_CLS:
            with ck.section(f"types.{snake(n)}"):
                type_facts(ck, snake(n), inspect_env(getattr(CC, n)(), heavy=True))
                construction_independence(ck, snake(n), getattr(CC, n))
        for n in G1:
            with ck.section(f"types.{snake(n)}.construction"):
                construction_independence(ck, snake(n), getattr(G1M, n))
        for n in (MUJOCO if heavy else ["Hopper", "Ant"]):
            with ck.section(f"types.{snake(n)}.construction"):
                construction_independence(ck, snake(n), getattr(MJ, n))
        for n in MUJOCO:
            with ck.section(f"types.{snake(n)}"):
                env = getattr(MJ, n)()
                if not heavy:
                    type_facts(ck, snake(n), inspect_env(env, heavy=False))
                action_sample(ck, snake(n), env.action_space, ["real"] + (["fp32"] if ck.thorough else []))
            pump(pool)
        # documented observation options (boolean constructor flags): the declared observation space follows every single flag
        import inspect as _inspect
        from mujoco import mjx as _mjx
        from lerax.env.mujoco.base_mujoco import MujocoEnvState as _MjState
        flag_envs = ["Humanoid", "Ant"] if not ck.thorough else [n for n in MUJOCO]
        for n in flag_envs:
            cls = getattr(MJ, n)
            flags = [p_.name for p_ in _inspect.signature(cls.__init__).parameters.values()
                     if isinstance(p_.default, bool) and (p_.name.startswith("include_") or p_.name.startswith("exclude_"))]
            for fl_ in flags:
                with ck.section(f"types.{snake(n)}.flag.{fl_}"):
                    dflt = _inspect.signature(cls.__init__).parameters[fl_].default
                    env = cls(**{fl_: not dflt})
                    ob = jax.eval_shape(lambda k: env.observation(_MjState(_mjx.make_data(env.model), jnp.array(0.0)), key=k), jr.key(0))
                    sp = env.observation_space
                    ok = tuple(ob.shape) == tuple(sp.shape) and str(ob.dtype) == str(sp.low.dtype)
                    ck.fact(f"types.{snake(n)}.obs@{fl_}={not dflt}", ok, f"observation {ob.dtype}{list(ob.shape)} vs declared space {sp.low.dtype}{list(sp.shape)}")
            pump(pool)
        # the other documented boolean options (terminate_when_unhealthy, ...): with the option at its non-default value reward / terminal / truncate
        # are still jax arrays of the stated type -- read from the filtered trace, where a Python bool / float leaking out of a method is a STATIC
        # output (eval_shape would silently abstractify it)
        for n in MUJOCO:
            cls = getattr(MJ, n)
            others = [p_.name for p_ in _inspect.signature(cls.__init__).parameters.values()
                      if isinstance(p_.default, bool) and not (p_.name.startswith("include_") or p_.name.startswith("exclude_"))]
            for fl_ in others:
                with ck.section(f"types.{snake(n)}.flag.{fl_}"):
                    dflt = _inspect.signature(cls.__init__).parameters[fl_].default
                    env = cls(**{fl_: not dflt})
                    st_ = _MjState(_mjx.make_data(env.model), jnp.array(0.0))
                    act_ = jnp.zeros(env.action_space.shape, jnp.float32)
                    sigs = {"terminal": (lambda s, a, k: env.terminal(s, key=k), "bool"), "truncate": (lambda s, a, k: env.truncate(s), "bool"),
                            "reward": (lambda s, a, k: env.reward(s, a, s, key=k), "float32")}
                    for sname, (f_, want_dt) in sigs.items():
                        _, dyn, static = eqx.filter_make_jaxpr(f_)(st_, act_, jr.key(0))
                        leaves = jax.tree_util.tree_leaves(dyn)
                        stat = [x for x in jax.tree_util.tree_leaves(static) if x is not None]
                        ok = len(leaves) == 1 and not stat and tuple(leaves[0].shape) == () and str(leaves[0].dtype) == want_dt
                        ck.fact(f"types.{snake(n)}.{sname}@{fl_}={not dflt}", ok,
                                f"array outputs {[(str(l.dtype), list(l.shape)) for l in leaves]}, non-array (Python) outputs {[type(x).__name__ + ':' + repr(x) for x in stat]}")
            pump(pool)
        for n in G1:
            with ck.section(f"actions.{snake(n)}"):
                env = getattr(G1M, n)()
                action_sample(ck, snake(n), env.action_space, ["real"] + (["fp32"] if ck.thorough else []))
            pump(pool)
        pump(pool, block=True, timeout=420 if heavy else 200)
        for job in jobs:
            label = snake(job[1])
            with ck.section(f"types.{label}.worker"):
                res, err = pool["results"].get(job, (None, "worker did not finish in time"))
                if res is None:
                    raise RuntimeError(f"worker for {job[1]} failed: {err}")
                type_facts(ck, label, res)
    ck.finish("For the five classic-control environments the real clip/observation/terminal/reward/initial/step code and the spaces built by the real constructors are traced and executed over z3 "
              "terms: with the ODE integrator replaced by an arbitrary finite result, observation(clip(y)) is shown to lie in the declared observation space (FP32 for clamp components, REAL "
              "with uninterpreted range-axiomatised sin/cos for the angle components), for the default limits and for all meaningful symbolic limits; CartPole (no clip) is decided on step(): "
              "the returned state is a non-terminal successor or a reset state and its observation is a member. Reset states, sampled actions (Discrete: all Python paths of contains(); Box: "
              "REAL and FP32) and wrapper images (Clip/Rescale/Flatten, depth <= 2) are members of the advertised spaces; rewards are bounded by FLT_MAX over the reals. Output types of all "
              "19 built-in environments and the absence of Python-side state (two independent traces give identical jaxprs and constants) are read from avals / jaxprs.")


if __name__ == "__main__":
    main()
