"""prints digests of the traced transition / observation programs (with their captured constants) of wrapper instances, constructed in a
stated order inside ONE fresh interpreter process: `--only <i>` builds target i alone, `--order 0,1,2,..` builds the targets in that order
and digests each.  C12 compares the digests: what a wrapped environment computes must not depend on which other environments were built
earlier in the process (`depends only on its explicit arguments`)."""
import json
import sys

from jax import random as jr

from jaxsmt import stubs
from jaxsmt.trace import trace
from props.c11_worker import digest


def targets():
    from lerax.env.classic_control import CartPole, ContinuousMountainCar, Pendulum
    from lerax.wrapper import ClipAction, ClipObservation, RescaleAction, RescaleObservation, TimeLimit
    return [
        ("RescaleAction(Pendulum)", lambda: RescaleAction(Pendulum())),
        ("RescaleAction(ContinuousMountainCar)", lambda: RescaleAction(ContinuousMountainCar())),
        ("RescaleObservation(Pendulum)", lambda: RescaleObservation(Pendulum())),
        ("RescaleObservation(Pendulum(max_speed=16))", lambda: RescaleObservation(Pendulum(max_speed=16.0))),
        ("ClipAction(Pendulum(max_torque=3))", lambda: ClipAction(Pendulum(max_torque=3.0))),
        ("ClipAction(ContinuousMountainCar)", lambda: ClipAction(ContinuousMountainCar())),
        ("ClipObservation(Pendulum(max_speed=4))", lambda: ClipObservation(Pendulum(max_speed=4.0))),
        ("TimeLimit(CartPole,7)", lambda: TimeLimit(CartPole(), 7)),
        ("TimeLimit(CartPole,3)", lambda: TimeLimit(CartPole(), 3)),
    ]


def digests_of(env, name):
    out = {}
    st = env.initial(key=jr.key(0))
    act = env.action_space.canonical()
    with stubs.ode_stub(), stubs.prng_stubs():
        comps = {
            "transition": (lambda s, a, k: env.transition(s, a, key=k), [st, act, jr.key(0)], ["s", "a", "key"]),
            "observation": (lambda s, k: env.observation(s, key=k), [st, jr.key(0)], ["s", "key"]),
            "reward": (lambda s, a, s2, k: env.reward(s, a, s2, key=k), [st, act, st, jr.key(0)], ["s", "a", "s2", "key"]),
            "truncate": (lambda s: env.truncate(s), [st], ["s"]),
        }
        for cname, (f, ex, argn) in comps.items():
            out[cname] = digest(trace(f, *ex, argnames=argn, label=f"{name}.{cname}"))
    return out


def main(argv):
    T = targets()
    order = [int(argv[1])] if argv[0] == "--only" else [int(x) for x in argv[1].split(",")]
    built = [(T[i][0], T[i][1]()) for i in order]      # all constructions first, then the traces
    print("C12WORKER " + json.dumps({name: digests_of(env, name) for name, env in built}))


if __name__ == "__main__":
    main(sys.argv[1:])
