"""C11 — training is reproducible, pure, and unaffected by observers."""
import equinox as eqx
import jax
import jax.numpy as jnp
import numpy as np
import z3
from jax import random as jr

from jaxsmt import concrete, core, stubs
from jaxsmt.core import Check, conj, eq_arr
from jaxsmt.harness import UFEnv
from jaxsmt.interp import Interp, arr0
from jaxsmt.trace import primitives, trace

from lerax.algorithm import A2C, DQN, PPO, REINFORCE, SAC
from lerax.callback import CallbackList, LoggingCallback, ProgressBarCallback
from lerax.policy import MLPActorCriticPolicy, MLPQPolicy, MLPSACPolicy
from lerax.space import Box, Discrete
from lerax.wrapper import TimeLimit
from props.C19 import Rec


def configs():
    """algorithm class and the (tiny) constructor arguments of the harness"""
    return {"PPO": (PPO, dict(num_envs=1, num_steps=2, num_batches=1, num_epochs=1)), "A2C": (A2C, dict(num_envs=1, num_steps=2)), "REINFORCE": (REINFORCE, dict(num_envs=1, num_steps=2)),
            "DQN": (DQN, dict(buffer_size=4, learning_starts=1, num_envs=1, num_steps=1, batch_size=2, target_update_interval=3)),
            "SAC": (SAC, dict(buffer_size=4, learning_starts=1, num_envs=1, num_steps=1, batch_size=2, q_width_size=2, q_depth=1))}


def harness_env_policy(aname):
    envd = TimeLimit(UFEnv(Discrete(2)), 3)
    envb = TimeLimit(UFEnv(Box(-jnp.ones(1), jnp.ones(1))), 3)
    ac = dict(feature_size=2, feature_width=2, feature_depth=1, value_width=2, value_depth=1, action_width=2, action_depth=1)
    if aname.startswith("DQN"):
        return envd, lambda: MLPQPolicy(envd, width_size=2, depth=1, key=jr.key(0))
    if aname.startswith("SAC"):
        return envb, lambda: MLPSACPolicy(envb, feature_size=2, width_size=2, depth=1, key=jr.key(0))
    return envd, lambda: MLPActorCriticPolicy(envd, key=jr.key(0), **ac)


def wide_policy(aname, env):
    if aname.startswith("DQN"):
        return MLPQPolicy(env, width_size=512, depth=2, key=jr.key(0))
    if aname.startswith("SAC"):
        return MLPSACPolicy(env, feature_size=2, width_size=512, depth=2, key=jr.key(0))
    return MLPActorCriticPolicy(env, key=jr.key(0), feature_size=2, feature_width=512, feature_depth=2, value_width=2, value_depth=1, action_width=2, action_depth=1)


def float_hyperparameters(cls):
    """constructor arguments with a float default: (name, default, perturbed value)"""
    import inspect
    out = []
    for n, p_ in inspect.signature(cls.__init__).parameters.items():
        d = p_.default
        if isinstance(d, float) and not isinstance(d, bool):
            out.append((n, d, d * 0.5 if d != 0 else 0.25))
    return out


def setups(thorough):
    S = {}
    for aname, (cls, kw) in configs().items():
        env_, mk = harness_env_policy(aname)
        S[aname] = (cls(**kw), env_, mk)
    envd, mkd = harness_env_policy("PPO")
    envb, mkb = harness_env_policy("SAC")
    ac = dict(feature_size=2, feature_width=2, feature_depth=1, value_width=2, value_depth=1, action_width=2, action_depth=1)
    if thorough:
        S["PPO(E=2)"] = (PPO(num_envs=2, num_steps=2, num_batches=2, num_epochs=2), envd, lambda: MLPActorCriticPolicy(envd, key=jr.key(0), **ac))
        S["SAC(E=2)"] = (SAC(buffer_size=4, learning_starts=1, num_envs=2, num_steps=1, batch_size=2, q_width_size=2, q_depth=1), envb, lambda: MLPSACPolicy(envb, feature_size=2, width_size=2, depth=1, key=jr.key(0)))
    return S


def callback_sets():
    log = lambda: LoggingCallback(Rec(), name="verif")
    def bar(total=None):
        import os
        b = ProgressBarCallback(total, name="verif")
        try:
            pb = b.progress_bar.progress_bar
            pb.console.file = open(os.devnull, "w")   # display only; not part of any checked behaviour
            pb.live._redirect_stdout = False            # rich would otherwise swallow the check's own output once the bar starts (replays)
            pb.live._redirect_stderr = False
        except Exception:  # noqa: BLE001
            pass
        return b
    return {
        "none": CallbackList(callbacks=[]),
        "logging": log(),
        "progress_bar": bar(),
        "list(logging,progress_bar)": CallbackList(callbacks=[log(), bar()]),
        "nested(list(logging),progress_bar)": CallbackList(callbacks=[CallbackList(callbacks=[log()]), bar()]),
        # a SIZED progress bar whose total is smaller than the run (a bar reused for a longer stage; off-policy warm-up steps also count towards it)
        "progress_bar(total_timesteps=1)": bar(1),
    }


_spaces = None


def run_variant(fn_maker, cb, label):
    with stubs.prng_stubs():
        tr = fn_maker(cb, label)
    # is_finite of a symbolic term is an uninterpreted predicate here: a carried state (an observer's in particular) may hold NaN / inf sentinels,
    # and whether the trained policy depends on THAT is part of the obligation
    it = Interp(nonfinite_terms=True)
    S = tr.symbols(it, given=_spaces(tr, it) if _spaces else None)
    out = tr.run(it, S)
    return tr, it, S, out


def shared(out_a, out_b):
    return [n for n in out_a if n in out_b and "callback_state" not in n]


def check_algo(ck, aname, algo, env, mkpol):
    pol = mkpol()
    cbs = callback_sets()
    global _spaces
    from props.common import concrete_spaces
    _spaces = lambda tr, it: concrete_spaces(tr, it, st_env=env, st_policy=pol, st_target_policy=pol, env=env, pol=pol)

    def mk_iter(cb, label):
        st = eqx.filter_eval_shape(lambda k: algo.reset(env, pol, key=k, callback=cb), jr.key(0))
        return trace(lambda st, k: algo.iteration(st, key=k, callback=cb), st, jr.key(0), argnames=["st", "key"], label=f"{aname}.iteration[{label}]")

    def mk_reset(cb, label):
        return trace(lambda env, pol, k: algo.reset(env, pol, key=k, callback=cb), env, pol, jr.key(0), argnames=["env", "pol", "key"], label=f"{aname}.reset[{label}]")
    base = {}
    for phase, mk in (("iteration", mk_iter), ("reset", mk_reset)):
        tr0, it0, S0, out0 = run_variant(mk, cbs["none"], "none")
        base[phase] = (tr0, it0, S0, out0)
        if phase == "iteration":
            ck.encoded(tr0)
        for cname, cb in cbs.items():
            if cname == "none":
                continue
            tr1, it1, S1, out1 = run_variant(mk, cb, cname)
            names = shared(out0, out1)
            missing = [n for n in out0 if "callback_state" not in n and n not in out1]
            if missing or not names:
                ck.fact(f"observer.{aname}.{phase}.{cname}", False, f"outputs missing under the callback set: {missing[:5]}")
                continue
            A = stubs.contracts(it0) + stubs.contracts(it1)

            def rp(res, tr0=tr0, tr1=tr1, S0=S0, S1=S1, it0=it0, it1=it1, names=names):
                keys = concrete.KeyBinding(res)
                w = concrete.ModelWorld(res, it0.uf_apps + it1.uf_apps, keys)
                leaf = lambda Sx, m, av: concrete.with_nonfinite(res, Sx[m], concrete.model_leaf(res, Sx[m], av, keys)) if not concrete.is_keyaval(av) else concrete.model_leaf(res, Sx[m], av, keys)
                with stubs.prng_stubs():
                    r0 = dict(zip(tr0.out_names, concrete.run_real(tr0, [leaf(S0, m, av) for m, av in zip(tr0.in_names, tr0.in_avals)], w)))
                    r1 = dict(zip(tr1.out_names, concrete.run_real(tr1, [leaf(S1, m, av) for m, av in zip(tr1.in_names, tr1.in_avals)], w)))
                diffs = [n for n in names if n in r0 and n in r1 and not np.allclose(concrete.real_to_float(r0[n]), concrete.real_to_float(r1[n]), rtol=1e-4, atol=1e-5, equal_nan=True)]
                world_used = "interpretation of the uninterpreted functions taken from the solver model"
                if not diffs:
                    # the model's interpretation is only matched approximately on float operands; confirm on the real code with generic interpretations
                    from jaxsmt.uf import GenericWorld
                    for sd in range(3):
                        with stubs.prng_stubs():
                            v0 = [leaf(S0, m, av) for m, av in zip(tr0.in_names, tr0.in_avals)]
                            v1 = [leaf(S1, m, av) for m, av in zip(tr1.in_names, tr1.in_avals)]
                            r0 = dict(zip(tr0.out_names, concrete.run_real(tr0, v0, GenericWorld(seed=100 + sd))))
                            r1 = dict(zip(tr1.out_names, concrete.run_real(tr1, v1, GenericWorld(seed=100 + sd))))
                        diffs = [n for n in names if n in r0 and n in r1 and not np.allclose(concrete.real_to_float(r0[n]), concrete.real_to_float(r1[n]), rtol=1e-4, atol=1e-5, equal_nan=True)]
                        if diffs:
                            world_used = f"generic interpretation (seed {100 + sd}) on the model's inputs"
                            break
                return bool(diffs), {"outputs_that_differ_with_the_observer_attached": diffs[:10], "world": world_used}
            goals = {n: (eq_arr(out0[n], out1[n]) if tuple(out0[n].shape) == tuple(out1[n].shape) else False) for n in names}
            differing = [n for n in names if goals[n] is not True]
            if not differing:
                ck.prove(f"observer.{aname}.{phase}.{cname}", A, True, replay=rp)
                continue
            # outputs whose terms differ: decide the cheap, structural ones first (environment state, buffers, counters); the first reproduced
            # difference settles the obligation, so the expensive (gradient-sized) terms are only queried when the cheap ones are equal
            cheap = lambda n: 0 if ("env_state" in n or "buffer" in n or "count" in n or "policy_state" in n) else 1
            differing.sort(key=lambda n: (cheap(n), len(n)))
            nv = len(ck.violations) + len(ck.known_hits)
            zero = []
            for Sx in (S0, S1):
                for n_, v in Sx.items():
                    if (n_.startswith("st_policy_") or n_.startswith("pol_")) and "space" not in n_:
                        zero += [x == 0 for x in v.reshape(-1) if isinstance(x, z3.ExprRef) and z3.is_real(x)]
            if len(ck.inconclusive) >= 6:
                ck.skip(f"observer.{aname}.{phase}.{cname}", "skipped: six observer obligations are already inconclusive in this run")
                continue
            # ... and, for the counterexample search only, everything the run WITHOUT the observer tests for finiteness is finite (a non-finite
            # environment / optimiser state derails both runs alike; what matters is a non-finite value that only the observer carries)
            from jaxsmt import solve as _solve
            fin0 = [a for a in _solve.collect_apps([x for n in differing[:4] for x in np.asarray(out0[n], dtype=object).reshape(-1) if isinstance(x, z3.ExprRef)]) if a.decl().name() == "FIN"]
            for n in differing[:4]:
                ck.prove(f"observer.{aname}.{phase}.{cname}:{n}", A, goals[n], replay=rp, timeout=10 if not ck.thorough else 60, sample=False, search_hints=zero + fin0)
                if len(ck.violations) + len(ck.known_hits) > nv:
                    break
    # key sensitivity (vacuity-style witness): an implementation that ignores its key makes this unsat
    tr0, it0, S0, out0 = base["iteration"]
    it2 = Interp()
    S2 = dict(S0)
    S2["key"] = it2.sym("other_key", (), tr0.in_avals[tr0.in_names.index("key")].dtype)
    out2 = tr0.run(it2, S2)
    # any output may witness the dependence; the carried environment state is the cheapest (uninterpreted transition of a key-dependent action)
    pnames = [n for n in tr0.out_names if n.endswith("env_state_s")]
    diff = core.disj([core.neg(eq_arr(out0[n], out2[n])) for n in pnames])
    # instantiate the (symbolic) policy parameters with zeros: the witness only needs SOME policy for which the key matters, and this keeps the query linear
    zero = []
    for n, v in S0.items():
        if n.startswith("st_policy_") and "space" not in n:
            zero += [x == 0 for x in v.reshape(-1) if isinstance(x, z3.ExprRef) and z3.is_real(x)]
    def rp_keys():
        """run the real iteration twice with two different keys in a generic world: identical outputs = the key is ignored"""
        from jaxsmt.uf import GenericWorld
        rng = np.random.default_rng(ck.seed)
        gen = lambda n, av, r: (jnp.full(av.shape, 4, av.dtype) if n.endswith("position") else (jnp.full(av.shape, 1, av.dtype) if (n.endswith("step_count") or n.endswith("iteration_count") or n.endswith("max_episode_steps") and False) else (jnp.full(av.shape, 3, av.dtype) if n.endswith("max_episode_steps") else None)))
        vals = [concrete.random_leaf(av, rng, nm, gen) for nm, av in zip(tr0.in_names, tr0.in_avals)]
        ki = tr0.in_names.index("key")
        outs = []
        with stubs.prng_stubs():
            for kk in (jr.key(11), jr.key(12)):
                v = list(vals)
                v[ki] = kk
                outs.append(concrete.run_real(tr0, v, GenericWorld(seed=3)))
        same = all(np.array_equal(concrete.real_to_float(a), concrete.real_to_float(b), equal_nan=True) for a, b in zip(*outs))
        return same, {"note": "iteration() run with two different keys on the same state returns identical outputs (every leaf)", "keys": [11, 12]}
    ck.require_sat(f"key.sensitivity.{aname}", zero + stubs.contracts(it0) + stubs.contracts(it2) + [S0["key"][()] != S2["key"][()], diff], timeout=60, replay=rp_keys)
    return base


def check_purity(ck, aname, algo, env, mkpol):
    pol = mkpol()
    cb = callback_sets()["list(logging,progress_bar)"]
    T = algo.num_envs * algo.num_steps * 2

    def mk():
        with stubs.prng_stubs():
            return trace(lambda env, pol, k: algo.learn(env, pol, T, key=k, callback=cb), env, pol, jr.key(0), argnames=["env", "pol", "key"], label=f"{aname}.learn(total_timesteps={T})")
    tr = mk()
    ck.encoded(tr)
    prims = primitives(tr.jaxpr)
    impure = {p for p in prims if p in ("io_callback", "pure_callback", "infeed", "outfeed") or p.startswith("run_state") or p in ("swap", "get", "addupdate")}
    ck.fact(f"purity.learn_primitives.{aname}", not impure, f"{sum(prims.values())} equations, {len(prims)} primitive kinds; impure primitives: {sorted(impure)}; output-less debug callbacks: {prims.get('debug_callback', 0)}")
    donated = []

    def walk(j):
        for e in j.eqns:
            d = e.params.get("donated_invars")
            if d is not None and any(d):
                donated.append(e.params.get("name"))
            for v in e.params.values():
                for sub in (v if isinstance(v, (tuple, list)) else [v]):
                    jj = getattr(sub, "jaxpr", sub)
                    if hasattr(jj, "eqns"):
                        walk(jj)
    walk(tr.jaxpr)
    ck.fact(f"purity.no_donation.{aname}", not donated, f"donated arguments in: {donated}")
    # the same with a WIDE policy (a 512 x 512 float32 weight = 1 MiB): buffer donation schemes that only hand over large parameter buffers are invisible
    # on the tiny harness policy.  Only the program structure is inspected (nothing is interpreted or run).
    donated.clear()
    wide = wide_policy(aname, env)
    with stubs.prng_stubs():
        trw = trace(lambda env, pol, k: algo.learn(env, pol, T, key=k, callback=cb), env, wide, jr.key(0), argnames=["env", "pol", "key"], label=f"{aname}.learn with a wide policy")
    walk(trw.jaxpr)
    big = max((int(np.prod(a.shape)) * np.dtype(a.dtype).itemsize for a in trw.in_avals if "key" not in str(a.dtype)), default=0)
    ck.fact(f"purity.no_donation.{aname}@wide_policy", not donated and big >= (1 << 20), f"largest input leaf {big} bytes; donated arguments in: {donated}")
    tr2 = mk()
    same = str(tr.jaxpr) == str(tr2.jaxpr) and len(tr.consts) == len(tr2.consts) and all(np.array_equal(np.asarray(a), np.asarray(b)) if not jax.dtypes.issubdtype(getattr(a, "dtype", np.float32), jax.dtypes.prng_key) else True for a, b in zip(tr.consts, tr2.consts))
    ck.fact(f"purity.retrace_equal.{aname}", same, "two independent traces of learn() give the same program and the same captured constants (no Python-side state)")
    # the policy passed in is an input of a pure function; the returned policy is an output: inputs are never written (functional IR)
    ck.fact(f"purity.inputs_are_explicit_arguments.{aname}", len(tr.in_names) == len(tr.jaxpr.invars), f"{len(tr.in_names)} array leaves of (env, policy, key) are exactly the program inputs")
    return tr


def check_learn_observer(ck, aname, algo, env, mkpol):
    """end to end: learn() for one iteration with and without observers returns the same policy"""
    pol = mkpol()
    T = algo.num_envs * algo.num_steps
    outs = {}
    for cname in ("none", "list(logging,progress_bar)"):
        cb = callback_sets()[cname]
        with stubs.prng_stubs():
            tr = trace(lambda env, pol, k: algo.learn(env, pol, T, key=k, callback=cb), env, pol, jr.key(0), argnames=["env", "pol", "key"], label=f"{aname}.learn[{cname}]")
        it = Interp()
        S = tr.symbols(it)
        outs[cname] = (tr, it, S, tr.run(it, S))
    # two iterations, with and without a sized progress bar that is full after the first step: an observer's own bookkeeping must not gate training
    T2 = 2 * T
    two = {}
    for cname in ("none", "progress_bar(total_timesteps=1)"):
        cb2 = callback_sets()[cname]
        with stubs.prng_stubs():
            tr2 = trace(lambda env, pol, k: algo.learn(env, pol, T2, key=k, callback=cb2), env, pol, jr.key(0), argnames=["env", "pol", "key"], label=f"{aname}.learn[{cname}, two iterations]")
        it2 = Interp()
        S2 = tr2.symbols(it2)
        two[cname] = (tr2, it2, S2, tr2.run(it2, S2))
    (ta, ia, Sa, oa), (tb, ib, Sb, ob_) = two["none"], two["progress_bar(total_timesteps=1)"]

    def rp_sized(res):
        from jaxsmt.uf import GenericWorld, world
        pols = []
        for cname in ("none", "progress_bar(total_timesteps=1)"):
            cbx = callback_sets()[cname]
            jax.clear_caches()
            try:
                with world(GenericWorld(seed=5)):
                    pols.append(jax.block_until_ready(algo.learn(env, pol, T2, key=jr.key(3), callback=cbx)))
            finally:
                jax.clear_caches()
        la, lb = ([np.asarray(x, np.float64) for x in jax.tree_util.tree_leaves(p_) if eqx.is_inexact_array(x)] for p_ in pols)
        differ = [i for i, (a, b) in enumerate(zip(la, lb)) if not np.array_equal(a, b, equal_nan=True)]
        return bool(differ), {"function": f"{aname}.learn, {T2} timesteps", "parameter_leaves_that_differ_with_a_sized_progress_bar_attached": len(differ)}
    ck.prove(f"observer.{aname}.learn_two_iterations.sized_progress_bar", stubs.contracts(ia) + stubs.contracts(ib), conj([eq_arr(oa[n], ob_[n]) for n in oa]), timeout=120, replay=rp_sized)
    (tr0, it0, S0, o0), (tr1, it1, S1, o1) = outs["none"], outs["list(logging,progress_bar)"]
    goal = conj([eq_arr(o0[n], o1[n]) for n in o0])
    def rp_learn(res):
        """the real learn() with and without observers, same inputs, generic concrete environment, real PRNG"""
        from jaxsmt.uf import GenericWorld, world
        pols = []
        for cname in ("none", "list(logging,progress_bar)"):
            cb = callback_sets()[cname]
            jax.clear_caches()
            try:
                with world(GenericWorld(seed=5)):
                    pols.append(jax.block_until_ready(algo.learn(env, pol, T, key=jr.key(3), callback=cb)))
            finally:
                jax.clear_caches()
        la = [np.asarray(x, np.float64) for x in jax.tree_util.tree_leaves(pols[0]) if eqx.is_inexact_array(x)]
        lb = [np.asarray(x, np.float64) for x in jax.tree_util.tree_leaves(pols[1]) if eqx.is_inexact_array(x)]
        differ = [i for i, (a, b) in enumerate(zip(la, lb)) if not np.array_equal(a, b, equal_nan=True)]
        fin = [float(np.nanmax(np.abs(np.where(np.isfinite(a) & np.isfinite(b), a - b, 0.0)))) for a, b in zip(la, lb) if a.size]
        return bool(differ), {"parameter_leaves_that_differ_with_observers_attached": len(differ), "max_finite_difference": max(fin, default=0.0), "total_timesteps": T}
    ck.prove(f"observer.{aname}.learn_one_iteration", stubs.contracts(it0) + stubs.contracts(it1), goal, timeout=120, replay=rp_learn)
    # different keys yield different runs: some key consumed by learn() (sampler or environment) differs whenever the caller's key differs.
    # Idealised PRNG = free algebra: split / fold_in / key(seed) / wrap are injective, a key is determined by all of its data words together.
    K = S0["key"][()]
    K2 = z3.Const("other_learn_key", K.sort())
    used = {}
    for nm, oi, idx, operands, t in it0.uf_apps:
        for x in operands:
            if isinstance(x, z3.ExprRef) and x.sort() == K.sort():
                used[x.get_id()] = x
    dep = [t for t in used.values() if any(y.get_id() == K.get_id() for y in concrete.key_terms([t]))]
    pairs = [(t, z3.substitute(t, (K, K2))) for t in dep]

    def rp_two_keys(res):
        """the real learn() with two different integer-seeded keys (as in the README) in a generic concrete environment: identical parameters = the key is (partly) ignored"""
        from jaxsmt.uf import GenericWorld, world
        pols = []
        for seed in (1, 2):
            jax.clear_caches()
            try:
                with world(GenericWorld(seed=5)):
                    pols.append(jax.block_until_ready(algo.learn(env, pol, T, key=jr.key(seed), callback=callback_sets()["none"])))
            finally:
                jax.clear_caches()
        la, lb = ([np.asarray(x, np.float64) for x in jax.tree_util.tree_leaves(p_) if eqx.is_inexact_array(x)] for p_ in pols)
        same = all(np.array_equal(a, b, equal_nan=True) for a, b in zip(la, lb))
        return same, {"function": f"{aname}.learn", "keys": ["jax.random.key(1)", "jax.random.key(2)"], "total_timesteps": T, "observation": "learn() returns bit-identical parameters for two different keys"}
    ck.fact(f"key.learn_consumes_the_callers_key.{aname}", len(dep) >= 1, f"{len(used)} distinct key terms consumed by samplers / the environment in learn(); {len(dep)} derived from the caller's key")
    if dep:
        ck.prove(f"key.different_keys_different_draws.{aname}", concrete.key_injectivity(pairs), z3.Implies(K != K2, z3.Or([a != b for a, b in pairs])), replay=rp_two_keys)


def check_cross_process(ck, names):
    """'a function of (environment, initial policy, hyper-parameters, key)': the traced program of iteration() and its captured constants are the same in
    two fresh interpreter processes with different string-hash salts (PYTHONHASHSEED), i.e. nothing per-process leaks into the computation"""
    import json
    import os
    import subprocess
    import sys
    digests = []
    for seed in ("1", "2"):
        env = dict(os.environ)
        env["PYTHONHASHSEED"] = seed
        p = subprocess.run([sys.executable, "-W", "ignore", "-m", "props.c11_worker"] + list(names), capture_output=True, text=True, env=env, cwd=core.ROOT, timeout=900)
        line = [l for l in p.stdout.splitlines() if l.startswith("C11WORKER ")]
        if not line:
            raise RuntimeError("c11_worker failed: " + (p.stderr or p.stdout)[-600:])
        digests.append(json.loads(line[0][len("C11WORKER "):]))
    for aname in digests[0]:
        ck.fact(f"purity.same_program_in_another_process.{aname}", digests[0][aname] == digests[1].get(aname),
                f"sha256 of the traced iteration() program and constants under PYTHONHASHSEED=1: {digests[0][aname][:16]}…, under PYTHONHASHSEED=2: {str(digests[1].get(aname))[:16]}…")


def check_device_count(ck, names):
    """hyper-parameters, environment, policy and key are the only inputs: the traced reset() / iteration() programs (2 and 4 parallel environments) are the
    same whether JAX sees one host device or two (XLA_FLAGS=--xla_force_host_platform_device_count)"""
    import json
    import os
    import subprocess
    import sys
    res = []
    for n in (1, 2):
        env = dict(os.environ)
        env["XLA_FLAGS"] = (env.get("XLA_FLAGS", "") + f" --xla_force_host_platform_device_count={n}").strip()
        p = subprocess.run([sys.executable, "-W", "ignore", "-m", "props.c11_worker", "--multi-env"] + list(names), capture_output=True, text=True, env=env, cwd=core.ROOT, timeout=900)
        line = [l for l in p.stdout.splitlines() if l.startswith("C11MULTI ")]
        if not line:
            raise RuntimeError("c11_worker --multi-env failed: " + (p.stderr or p.stdout)[-600:])
        res.append(json.loads(line[0][len("C11MULTI "):]))
    ck.fact("purity.device_count_varied", res[0].get("devices") == 1 and res[1].get("devices") == 2, f"local device counts of the two processes: {res[0].get('devices')}, {res[1].get('devices')}")
    for k in res[0]:
        if k == "devices":
            continue
        ck.fact(f"purity.same_program_with_two_host_devices.{k}", res[0][k] == res[1].get(k), f"sha256 of the traced reset()+iteration() programs with 1 device: {res[0][k][:16]}…, with 2 devices: {str(res[1].get(k))[:16]}…")


def check_construction_order(ck, names):
    """'a function of (environment, initial policy, hyper-parameters, key)': an algorithm object's training program depends on ITS OWN constructor arguments only,
    not on which other algorithm objects the process built before.  Two fresh interpreter processes build, per algorithm, the default configuration and one
    variant per float hyper-parameter (value halved) -- one process in that order, the other in the reverse order -- and digest the traced iteration() program
    and constants of every object: the digests must agree object by object (hidden caches / registries keyed on part of the configuration make them differ)."""
    import json
    import os
    import subprocess
    import sys
    res = []
    for order in ("forward", "reverse"):
        p = subprocess.run([sys.executable, "-W", "ignore", "-m", "props.c11_worker", "--construction-order", order] + list(names), capture_output=True, text=True, cwd=core.ROOT, timeout=1500,
                           env=dict(os.environ))
        line = [l for l in p.stdout.splitlines() if l.startswith("C11ORDER ")]
        if not line:
            raise RuntimeError("c11_worker --construction-order failed: " + (p.stderr or p.stdout)[-600:])
        res.append(json.loads(line[0][len("C11ORDER "):]))
    for aname in res[0]:
        a, b = res[0][aname], res[1].get(aname, {})
        diff = sorted(k for k in a if a[k] != b.get(k))
        distinct = len(set(a.values()))
        ck.fact(f"purity.construction_order_independent.{aname}", not diff and set(a) == set(b),
                f"{len(a)} configurations (default + one per float hyper-parameter), {distinct} distinct programs; configurations whose program differs between the two construction orders: {diff}")


def main():
    ck = Check("C11", "reproducible, pure, unaffected by observers")
    ck.mode = "REAL"
    ck.bound(algorithms=list(setups(ck.thorough)), callback_sets=list(callback_sets()), sizes="num_envs 1 (2 thorough), num_steps <=2, batch 2, MLPs of width 2", learn="total_timesteps = 1-2 iterations")
    ck.stub(*stubs.STUB_NOTES, "environment uninterpreted (TimeLimit(UFEnv))", "policies: the real MLP policies with all parameters symbolic; tanh/exp/log... uninterpreted",
            "logging backend: recording stub")
    ck.out("bit-level determinism of XLA kernels (the claim here is: the traced program is a pure function of its explicit inputs)",
           "statistical difference between runs with different keys beyond structural dependence on the key")
    import os
    only = os.environ.get("C11_ONLY")
    for aname, (algo, env, mkpol) in setups(ck.thorough).items():
        if only and aname != only:
            continue
        with ck.section(f"observer.{aname}"):
            check_algo(ck, aname, algo, env, mkpol)
        with ck.section(f"purity.{aname}"):
            check_purity(ck, aname, algo, env, mkpol)
        if aname in ("PPO", "DQN") or ck.thorough:
            with ck.section(f"learn.{aname}"):
                check_learn_observer(ck, aname, algo, env, mkpol)
    with ck.section("construction_order"):
        check_construction_order(ck, [n for n in configs() if not only or n == only])
    with ck.section("cross_process"):
        check_cross_process(ck, [n for n in setups(ck.thorough) if not only or n == only])
    with ck.section("device_count"):
        check_device_count(ck, [n for n in configs() if not only or n == only])
    ck.finish("For each algorithm the real reset() and iteration() are traced once per callback set over an uninterpreted environment and the real (tiny) MLP "
              "policies with symbolic parameters; with the same symbolic inputs every output other than the callbacks' own state (policy, optimiser state, "
              "environment/policy state, buffers, counters, target networks) is shown equal to the run without observers (mostly identical terms; a solver "
              "query otherwise). learn() is inspected at IR level for purity (no impure primitive, no donated input, identical re-trace) and a key-sensitivity "
              "witness shows that the key is not ignored.")


if __name__ == "__main__":
    main()
