"""C19 — reported performance numbers are faithful to what happened."""
from fractions import Fraction

import equinox as eqx
import jax
import jax.numpy as jnp
import numpy as np
import z3
from jax import random as jr

from jaxsmt import concrete, core, solve
from jaxsmt.core import Check, conj, eq_arr, eq_elem, implies
from jaxsmt.harness import UFACPolicy, UFCall, UFEnv
from jaxsmt.interp import Interp, arr0
from jaxsmt.trace import trace
from props.C04 import GAMMA, assumptions_for, cfg_name, find, make, step_keys as on_keys, world_of
from props.C05 import ProbeOff, example_step_state, step_keys as off_keys
from props.common import OnPolicyStep
from props.rollout_ref import World, keys_of, offpolicy_step, onpolicy_step

from lerax.algorithm import PPO
from lerax.callback import CallbackList, LoggingCallback, LoggingCallbackStepState
from lerax.callback.logging import AbstractLoggingBackend
from lerax.space import Discrete
from lerax.wrapper import TimeLimit


class Rec(AbstractLoggingBackend):
    def open(self, name):
        pass

    def log_scalars(self, scalars, step):
        pass

    def log_hparams(self, hparams):
        pass

    def log_video(self, *a, **k):
        pass

    def close(self):
        pass


def example_log_state(lead=()):
    z = lambda dt: jnp.zeros(lead, dt)
    return LoggingCallbackStepState(z(int), z(float), z(int), z(bool), z(float), z(float))


def check_next(ck):
    def fn(st, reward, done, alpha):
        n = st.next(reward, done, alpha)
        return {"step": n.step, "ret": n.episode_return, "len": n.episode_length, "done": n.episode_done, "avg_ret": n.average_return, "avg_len": n.average_length}
    tr = trace(fn, example_log_state(), jnp.array(0.0), jnp.array(False), jnp.array(0.5), argnames=["st", "r", "d", "alpha"], label="LoggingCallbackStepState.next")
    ck.encoded(tr)
    concrete.validate(ck, tr, n=3, seed=ck.seed)
    it = Interp()
    S = tr.symbols(it)
    out = tr.run(it, S)
    st = {k: S["st_" + k][()] for k in ("step", "episode_return", "episode_length", "episode_done", "average_return", "average_length")}
    r, d, al = S["r"][()], S["d"][()], S["alpha"][()]
    ret2 = z3.If(st["episode_done"], 0, st["episode_return"]) + r
    len2 = z3.If(st["episode_done"], 0, st["episode_length"]) + 1
    orc = {"step": arr0(st["step"] + 1), "ret": arr0(ret2), "len": arr0(len2), "done": arr0(d),
           "avg_ret": arr0(z3.If(d, al * ret2 + (1 - al) * st["average_return"], st["average_return"])),
           "avg_len": arr0(z3.If(d, al * z3.ToReal(len2) + (1 - al) * st["average_length"], st["average_length"]))}
    A = [al >= 0, al <= 1]
    rp = lambda res, orc_: concrete.replay_outputs(tr, S, res, oracle=orc_)
    ck.prove("next.return", A, eq_arr(out["ret"], orc["ret"]), replay=lambda res: rp(res, {"ret": orc["ret"]}))
    ck.prove("next.length", A, conj([eq_arr(out["len"], orc["len"]), eq_arr(out["step"], orc["step"]), eq_arr(out["done"], orc["done"])]),
             replay=lambda res: rp(res, {k: orc[k] for k in ("len", "step", "done")}))
    ck.prove("next.ema_iff_done", A, conj([eq_arr(out["avg_ret"], orc["avg_ret"]), eq_arr(out["avg_len"], orc["avg_len"])]),
             replay=lambda res: rp(res, {k: orc[k] for k in ("avg_ret", "avg_len")}))
    ck.prove("next.unchanged_unless_done", A + [z3.Not(d)], conj([eq_elem(out["avg_ret"][()], st["average_return"]), eq_elem(out["avg_len"][()], st["average_length"])]),
             replay=lambda res: rp(res, {"avg_ret": arr0(st["average_return"]), "avg_len": arr0(st["average_length"])}))
    # history-level claim by induction with ghost variables: G = sum of rewards, n = number of steps since the previous episode end
    G, n = z3.Real("ghost_G"), z3.Int("ghost_n")
    inv = z3.If(st["episode_done"], z3.And(G == 0, n == 0), z3.And(st["episode_return"] == G, st["episode_length"] == n))
    G2, n2 = z3.If(d, 0, G + r), z3.If(d, 0, n + 1)
    inv2 = z3.If(out["done"][()], z3.And(G2 == 0, n2 == 0), z3.And(out["ret"][()] == G2, out["len"][()] == n2))
    goal = z3.And(out["ret"][()] == G + r, out["len"][()] == n + 1, inv2,
                  z3.Implies(d, z3.And(out["avg_ret"][()] == al * (G + r) + (1 - al) * st["average_return"], out["avg_len"][()] == al * z3.ToReal(n + 1) + (1 - al) * st["average_length"])))
    ck.prove("next.history_invariant_inductive", A + [inv, n >= 0], goal,
             replay=lambda res: rp(res, {"ret": arr0(res.value(G) + res.value(r)), "len": arr0(res.value(n) + 1)}))
    init = LoggingCallbackStepState.initial()
    ck.fact("next.history_invariant_initial", float(init.episode_return) == 0 and int(init.episode_length) == 0 and not bool(init.episode_done) and int(init.step) == 0,
            "initial(): zero return/length/step, episode_done False (ghost sums start at 0)")
    ck.witness("witness.done_after_done", A + [st["episode_done"], d])
    ck.control("control.reset_on_current_done", A, eq_arr(out["ret"], arr0(z3.If(d, 0, st["episode_return"]) + r)))
    ck.control("control.ema_every_step", A, eq_arr(out["avg_ret"], arr0(al * ret2 + (1 - al) * st["average_return"])))
    # per-environment independence: the vectorised update of E=2 environments equals the single update of each lane
    trv = trace(lambda st, r, d, a: jax.vmap(lambda s_, r_, d_: fn(s_, r_, d_, a))(st, r, d), example_log_state((2,)), jnp.zeros(2), jnp.zeros(2, bool), jnp.array(0.5),
                argnames=["st", "r", "d", "alpha"], label="vmap(LoggingCallbackStepState.next)")
    itv = Interp()
    Sv = trv.symbols(itv)
    outv = trv.run(itv, Sv)
    goals = []
    orcv = {k: [] for k in orc}
    for e in range(2):
        ste = {k: Sv["st_" + k][e] for k in st}
        re_, de, ale = Sv["r"][e], Sv["d"][e], Sv["alpha"][()]
        ret2e = z3.If(ste["episode_done"], 0, ste["episode_return"]) + re_
        len2e = z3.If(ste["episode_done"], 0, ste["episode_length"]) + 1
        orcv["step"].append(ste["step"] + 1)
        orcv["ret"].append(ret2e)
        orcv["len"].append(len2e)
        orcv["done"].append(de)
        orcv["avg_ret"].append(z3.If(de, ale * ret2e + (1 - ale) * ste["average_return"], ste["average_return"]))
        orcv["avg_len"].append(z3.If(de, ale * z3.ToReal(len2e) + (1 - ale) * ste["average_length"], ste["average_length"]))
    orcv = {k: np.array(v, dtype=object) for k, v in orcv.items()}
    ck.prove("next.per_env@E=2", [Sv["alpha"][()] >= 0, Sv["alpha"][()] <= 1], conj([eq_arr(outv[k], orcv[k]) for k in orcv]),
             replay=lambda res: concrete.replay_outputs(trv, Sv, res, oracle=orcv))


def log_fields(out, prefix):
    return {k: out[prefix + k] for k in ("step", "episode_return", "episode_length", "episode_done", "average_return", "average_length")}


def check_integration(ck):
    """what reward / done reach the logger from the collection steps: the ENVIRONMENT's reward of the executed action and done = term or trunc"""
    cb = LoggingCallback(Rec(), name="verif", alpha=0.5)
    al = Fraction(1, 2)
    for algo_kind in ("on_policy", "off_policy"):
        for kind in ("discrete", "box"):
            name = f"{algo_kind}/{kind}+timelimit"
            env, pol = make(kind, False, True)
            if algo_kind == "on_policy":
                algo = PPO(num_envs=1, num_steps=2, num_batches=1, num_epochs=1, gamma=GAMMA)
                st = OnPolicyStep.example(env, pol, cb)
                fn = lambda env, pol, st, key: {"state": algo.step(env, pol, st, key=key, callback=cb)[0]}
            else:
                algo = ProbeOff(buffer_size=2)
                st = example_step_state(algo, env, pol, cb, 2)
                fn = lambda env, pol, st, key: {"state": algo.step(env, pol, st, key=key, callback=cb)}
            tr = trace(fn, env, pol, st, jr.key(0), argnames=["env", "pol", "st", "key"], label=f"{algo_kind}.step with LoggingCallback")
            ck.encoded(tr)
            it = Interp()
            S = tr.symbols(it)
            out = tr.run(it, S)
            w = world_of(it, S, kind, False, True)
            s = find(S, "st_env_state_env_state_s")
            counters = [find(S, "st_env_state_step_count")[()]]
            h = S["st_policy_state_h"]
            if algo_kind == "on_policy":
                K = on_keys(it, False)
                R = onpolicy_step(w, s, counters, h, K, Fraction(GAMMA))
            else:
                K = off_keys(it)
                R = offpolicy_step(w, s, counters, h, K)
            A = assumptions_for(S, kind, True, K)
            cs = {k: S["st_callback_state_" + k][()] for k in ("step", "episode_return", "episode_length", "episode_done", "average_return", "average_length")}
            o = it.o
            ret2 = o.add(o.ite(cs["episode_done"], 0, cs["episode_return"]), R["reward"])
            len2 = o.add(o.ite(cs["episode_done"], 0, cs["episode_length"]), 1)
            d = R["done"]
            orc = {"state_callback_state_episode_return": arr0(ret2), "state_callback_state_episode_length": arr0(len2), "state_callback_state_episode_done": arr0(d),
                   "state_callback_state_step": arr0(o.add(cs["step"], 1)),
                   "state_callback_state_average_return": arr0(o.ite(d, o.add(o.mul(al, ret2), o.mul(1 - al, cs["average_return"])), cs["average_return"])),
                   "state_callback_state_average_length": arr0(o.ite(d, o.add(o.mul(al, o.i2f(len2)), o.mul(1 - al, cs["average_length"])), cs["average_length"]))}
            ck.prove(f"integration.reward_is_env_reward@{name}", A, eq_arr(out["state_callback_state_episode_return"], orc["state_callback_state_episode_return"]),
                     replay=lambda res, tr=tr, S=S, it=it, orc=orc: concrete.replay_outputs(tr, S, res, uf_apps=it.uf_apps, oracle={"state_callback_state_episode_return": orc["state_callback_state_episode_return"]}))
            rest = {k: v for k, v in orc.items() if not k.endswith("episode_return")}
            ck.prove(f"integration.done_and_counters@{name}", A, conj([eq_arr(out[k], v) for k, v in rest.items()]),
                     replay=lambda res, tr=tr, S=S, it=it, rest=rest: concrete.replay_outputs(tr, S, res, uf_apps=it.uf_apps, oracle=rest))
            if name == "on_policy/discrete+timelimit":
                ck.witness("witness.truncated_step_reachable", A + [R["trunc"], o.lnot(R["term"])])
            if algo_kind == "off_policy" and kind == "discrete":
                # the phases built from `step` (replay warm-up, rollout of an iteration) hand the logger's state on unchanged: each is the fold of
                # `step` over its split keys, for EVERY leaf of the step state (environment, policy, buffer and the callbacks' state alike)
                from jaxsmt.interp import ksplit
                L = 2
                algo2 = ProbeOff(buffer_size=2, learning_starts=L, num_steps=L)
                for phase, call in (("warmup", lambda env, pol, st, key: {"state": algo2.collect_learning_starts(env, pol, st, cb, key)}),
                                    ("rollout", lambda env, pol, st, key: {"state": algo2.collect_rollout(env, pol, st, cb, key)})):
                    trp = trace(call, env, pol, st, jr.key(0), argnames=["env", "pol", "st", "key"], label=f"off_policy.{phase} ({L} steps) with LoggingCallback")
                    ck.encoded(trp)
                    itp = Interp()
                    Sp = trp.symbols(itp)
                    outp = trp.run(itp, Sp)
                    cur = dict(Sp)
                    ok_names = True
                    for i in range(L):
                        cur["key"] = arr0(ksplit(L)(Sp["key"][()], z3.IntVal(i)))
                        o_i = tr.run(itp, cur)
                        nxt = dict(cur)
                        for n_out, v in o_i.items():
                            n_in = "st_" + n_out[len("state_"):]
                            if n_in not in nxt:
                                ok_names = False
                            nxt[n_in] = v
                        cur = nxt
                    same_names = ok_names and set(outp) == set(o_i)
                    if not same_names:
                        ck.fact(f"integration.{phase}_is_fold_of_step@{name},L={L}", False, f"outputs differ: {sorted(set(outp) ^ set(o_i))[:6]}")
                        continue
                    orc_p = {n_: o_i[n_] for n_ in outp}
                    ck.prove(f"integration.{phase}_is_fold_of_step@{name},L={L}", concrete.key_axioms([Sp["key"][()]]), conj([eq_arr(outp[n_], orc_p[n_]) for n_ in outp]),
                             replay=lambda res, trp=trp, Sp=Sp, itp=itp, orc_p=orc_p: concrete.replay_outputs(trp, Sp, res, uf_apps=itp.uf_apps, oracle=orc_p))


def check_iteration(ck):
    """scalars handed to the backend at the end of an iteration: means over environments, cumulative step sum; ordered callbacks"""
    from lerax.callback import IterationContext
    from lerax.callback.base_callback import EmptyCallbackState
    cb = LoggingCallback(Rec(), name="verif", alpha=0.5)
    E = 2
    env, pol = make("discrete", False, True)
    class ProbePPO(PPO):
        """the real PPO iteration with training cut out (the uninterpreted policy is not differentiable)"""

        def train(self, policy, opt_state, buffer, *, key):
            return policy, opt_state, {"loss": jnp.zeros(())}
    algo = ProbePPO(num_envs=E, num_steps=2, num_batches=1, num_epochs=1, gamma=GAMMA)

    def fn(step_state, log, it_count):
        ctx = IterationContext(EmptyCallbackState(), step_state, env, pol, it_count, None, log, algo, {})
        cb.on_iteration(ctx, key=jr.key(0))
        return jnp.zeros(())
    tr = trace(fn, example_log_state((E,)), {"loss": jnp.zeros(())}, jnp.array(0), argnames=["ls", "log", "count"], label="LoggingCallback.on_iteration")
    ck.encoded(tr)
    it = Interp()
    S = tr.symbols(it)
    tr.run(it, S)
    dbg = [c for c in it.callbacks if "io_callback" not in c[0]]
    ok = len(dbg) == 1
    ck.fact("iteration.one_ordered_record_per_backend", ok and all(_is_ordered(e) for e in _debug_eqns(tr.jaxpr)), f"{len(dbg)} debug callbacks; ordered effects {[_is_ordered(e) for e in _debug_eqns(tr.jaxpr)]}")
    if ok:
        ops = [x[()] for x in dbg[0][1] if x.shape == ()]
        mean_ret = (S["ls_average_return"][0] + S["ls_average_return"][1]) / 2
        mean_len = (S["ls_average_length"][0] + S["ls_average_length"][1]) / 2
        tot = S["ls_step"][0] + S["ls_step"][1]
        def replay_scalars(res, label):
            """run the real on_iteration eagerly with a recording backend on the model's callback states"""
            got = {}

            class Recording(Rec):
                def log_scalars(self, scalars, step):
                    got.update({k: float(np.asarray(v)) for k, v in scalars.items()})
                    got["__step__"] = int(np.asarray(step))
            cb2 = LoggingCallback(Recording(), name="verif-replay", alpha=0.5)
            keys = concrete.KeyBinding(res)
            vals = [concrete.model_leaf(res, S[n], av, keys) for n, av in zip(tr.in_names, tr.in_avals)]
            ls, log, count = concrete.rebuild_args(tr, vals)
            ctx = IterationContext(EmptyCallbackState(), ls, env, pol, count, None, log, algo, {})
            cb2.on_iteration(ctx, key=jr.key(0))
            jax.effects_barrier()
            ar, alen, stp = np.asarray(ls.average_return, np.float64), np.asarray(ls.average_length, np.float64), np.asarray(ls.step)
            want_ = {"episode_return_mean": ("episode/return", ar.mean()), "episode_length_mean": ("episode/length", alen.mean()), "cumulative_steps": ("__step__", int(stp.sum())),
                     "train_loss": ("train/loss", float(np.asarray(log["loss"])))}[label]
            have = got.get(want_[0])
            bad = have is None or abs(float(have) - float(want_[1])) > 1e-4 * (1 + abs(float(want_[1])))
            return bad, {"backend_received": got, "expected": {want_[0]: float(want_[1])}, "per_env_average_return": ar.tolist(), "per_env_average_length": alen.tolist(), "per_env_step": stp.tolist()}
        for label, want in (("episode_return_mean", mean_ret), ("episode_length_mean", mean_len), ("cumulative_steps", tot), ("train_loss", S["log_loss"][()])):
            g = core.disj([eq_elem(x, want) for x in ops if isinstance(x, z3.ExprRef) and (x.sort() == want.sort() or (z3.is_arith(x) and z3.is_arith(want)))])
            # make the counterexample robust: the two environments' statistics differ by a margin
            ck.prove(f"iteration.scalars.{label}", [], g, replay=lambda res, label=label: replay_scalars(res, label),
                     margin_goal=core.implies(z3.And(S["ls_average_return"][0] == 1, S["ls_average_return"][1] == 3, S["ls_average_length"][0] == 2, S["ls_average_length"][1] == 6,
                                                     S["ls_step"][0] == 4, S["ls_step"][1] == 8, S["log_loss"][()] == 7), g))
    # several backends: every backend gets its own ordered record.  The host callbacks are Python closures outside the traced program; which backend
    # object each debug_callback equation finally reaches is read from the closure graph of the callback stored in the IR (no execution)
    b0, b1 = Rec(), Rec()
    cb2 = LoggingCallback([b0, b1], name="verif2", alpha=0.5)

    def fn2(step_state, log, it_count):
        ctx = IterationContext(EmptyCallbackState(), step_state, env, pol, it_count, None, log, algo, {})
        cb2.on_iteration(ctx, key=jr.key(0))
        return jnp.zeros(())
    trm = trace(fn2, example_log_state((E,)), {"loss": jnp.zeros(())}, jnp.array(0), argnames=["ls", "log", "count"], label="LoggingCallback.on_iteration (two backends)")

    def reach(obj, depth=0, seen=None):
        seen = set() if seen is None else seen
        out = set()
        if id(obj) in seen or depth > 10:
            return out
        seen.add(id(obj))
        if isinstance(obj, AbstractLoggingBackend):
            return {id(obj)}
        for attr in ("func", "__wrapped__", "__self__", "callback_func", "callback"):
            if hasattr(obj, attr):
                try:
                    out |= reach(getattr(obj, attr), depth + 1, seen)
                except Exception:  # noqa: BLE001
                    pass
        for a in getattr(obj, "args", ()) or ():
            out |= reach(a, depth + 1, seen)
        if isinstance(obj, (list, tuple, set, frozenset)):
            for a in obj:
                out |= reach(a, depth + 1, seen)
        if isinstance(obj, dict):
            for a in obj.values():
                out |= reach(a, depth + 1, seen)
        for c in getattr(obj, "__closure__", None) or ():
            try:
                out |= reach(c.cell_contents, depth + 1, seen)
            except ValueError:
                pass
        return out
    eqs = _debug_eqns(trm.jaxpr)
    targets = [reach(e.params.get("callback")) for e in eqs]
    nm = {id(b0): "backend0", id(b1): "backend1"}
    # sound criterion (independent of how the records are grouped into host callbacks): every backend is reachable from some ORDERED host callback
    covered = set().union(*[t for e, t in zip(eqs, targets) if _is_ordered(e)]) if eqs else set()
    ok2 = covered >= {id(b0), id(b1)}
    if not ok2:
        # confirm on the real code before reporting: run the real on_iteration with two recording backends
        got = {"backend0": 0, "backend1": 0}

        class Counting0(Rec):
            def log_scalars(self, scalars, step):
                got["backend0"] += 1

        class Counting1(Rec):
            def log_scalars(self, scalars, step):
                got["backend1"] += 1
        cbr = LoggingCallback([Counting0(), Counting1()], name="verif-replay", alpha=0.5)
        ctx = IterationContext(EmptyCallbackState(), example_log_state((E,)), env, pol, jnp.array(0), None, {"loss": jnp.zeros(())}, algo, {})
        import equinox as eqx
        eqx.filter_jit(lambda c, k: cbr.on_iteration(c, key=k))(ctx, jr.key(0))      # as training runs it: inside a compiled program
        jax.effects_barrier()
        confirmed = min(got.values()) == 0
        detail = f"{len(eqs)} host callbacks reach {[[nm.get(i, '?') for i in t] for t in targets]}; real run with two recording backends: records received {got}"
        if confirmed:
            ck.fact("iteration.every_backend_gets_an_ordered_record@backends=2", False, detail)
        else:
            ck.skip("iteration.every_backend_gets_an_ordered_record@backends=2", "closure graph inconclusive (a backend is not reachable from the IR callbacks, yet the real run delivered a record to every backend): " + detail)
    else:
        ck.fact("iteration.every_backend_gets_an_ordered_record@backends=2", True,
                f"{len(eqs)} host callbacks; they reach {[[nm.get(i, '?') for i in t] for t in targets]} (every backend must be reachable from an ordered host callback)")
    # cumulative number of environment steps: one real PPO iteration with E=2, S=2 advances every environment's counter by S
    st = jax.eval_shape(lambda k: algo.reset(env, pol, key=k, callback=cb), jr.key(0))
    from jaxsmt import stubs
    with stubs.prng_stubs():
        tr2 = trace(lambda st, key: algo.iteration(st, key=key, callback=cb).step_state.callback_state, st, jr.key(0), argnames=["st", "key"], label="PPO.iteration with LoggingCallback (E=2,S=2)")
    ck.encoded(tr2)
    it2 = Interp()
    S2 = tr2.symbols(it2)
    o2 = tr2.run(it2, S2)
    want = np.array([x + 2 for x in S2["st_step_state_callback_state_step"]], dtype=object)
    ck.prove("iteration.steps_advance_by_num_steps_per_env", [], eq_arr(o2["step"], want), replay=lambda res: concrete.replay_outputs(tr2, S2, res, uf_apps=it2.uf_apps, oracle={"step": want}))
    dbg2 = [c for c in it2.callbacks if "io_callback" not in c[0]]
    tot2 = want[0] + want[1]
    last = [x[()] for c in dbg2 for x in c[1] if x.shape == () and isinstance(x[()], z3.ExprRef) and z3.is_int(x[()])]
    ck.prove("iteration.logged_step_is_cumulative_sum", [], core.disj([eq_elem(x, tot2) for x in last]),
             replay=lambda res: (True, {"note": "the step handed to the backend is not the sum over environments of the per-environment step counters after the iteration"}))


def check_machine_step(ck):
    """int32 semantics of the reported cumulative step.  The per-environment counters are int32 and so is their sum; the exact-counter invariant
    c_e = n_e (n_e the true number of steps of environment e, unbounded) is preserved by next() while n_e + 1 < 2^31, and every pre-state with c_e = n_e is
    reached by n_e real steps.  Obligation: the step handed to the backend, computed with wrapping arithmetic, is the true total sum_e n_e."""
    from lerax.callback import IterationContext
    from lerax.callback.base_callback import EmptyCallbackState
    from jaxsmt.machineint import in_range, wrap_ops
    E = 2
    cb = LoggingCallback(Rec(), name="verif", alpha=0.5)
    env, pol = make("discrete", False, True)
    algo = PPO(num_envs=E, num_steps=2, num_batches=1, num_epochs=1, gamma=GAMMA)

    def fn(step_state, log, it_count):
        ctx = IterationContext(EmptyCallbackState(), step_state, env, pol, it_count, None, log, algo, {})
        cb.on_iteration(ctx, key=jr.key(0))
        return jnp.zeros(())
    tr = trace(fn, example_log_state((E,)), {"loss": jnp.zeros(())}, jnp.array(0), argnames=["ls", "log", "count"], label="LoggingCallback.on_iteration (machine integers)")
    it = Interp()
    S = tr.symbols(it)
    tr.run(it, S)
    c = list(S["ls_step"])
    av = tr.in_avals[tr.in_names.index("ls_step")]
    ck.fact("machine.step_counters_are_int32", str(av.dtype) == "int32", f"LoggingCallbackStepState.step aval {av}")
    ops = [x[()] for cb_ in it.callbacks for x in cb_[1] if x.shape == () and isinstance(x[()], z3.ExprRef) and z3.is_int(x[()])]
    n = [z3.Int(f"true_steps_env{e}") for e in range(E)]
    pre = [z3.And(n[e] >= 0, c[e] == n[e], in_range(c[e])) for e in range(E)] + [n[e] == n[0] for e in range(1, E)]      # the environments of one run step in lockstep
    goal = core.disj([wrap_ops(x) == sum(n) for x in ops])

    def rp(res):
        got = {}

        class Recording(Rec):
            def log_scalars(self, scalars, step):
                got["step"] = int(np.asarray(step))
        cb2 = LoggingCallback(Recording(), name="verif-replay", alpha=0.5)
        nv = [int(solve.num(res.value(x))) for x in n]
        ls = example_log_state((E,))
        import equinox as eqx
        ls = eqx.tree_at(lambda s_: s_.step, ls, jnp.asarray(nv, jnp.int32))
        ctx = IterationContext(EmptyCallbackState(), ls, env, pol, jnp.array(0), None, {"loss": jnp.zeros(())}, algo, {})
        cb2.on_iteration(ctx, key=jr.key(0))
        jax.effects_barrier()
        return got.get("step") != sum(nv), {"function": "LoggingCallback.on_iteration (real, recording backend)", "per_environment_steps": nv, "true_total": sum(nv), "step_received_by_backend": got.get("step"),
                                            "note": "each counter is the exact number of steps of its environment (reached by that many real steps); their int32 sum wraps"}
    ck.prove("machine.logged_step_is_true_total@E=2", pre, goal, replay=rp)
    # within the stated bound the reported step is exact
    ck.prove("machine.logged_step_is_true_total_below_2^31@E=2", pre + [sum(n) < 2 ** 31], goal, replay=rp)
    ck.witness("witness.machine.large_totals_reachable", pre + [sum(n) > 2 ** 30])


def _is_ordered(e):
    return any("Ordered" in type(eff).__name__ for eff in e.effects)


def _debug_eqns(jaxpr, acc=None):
    acc = [] if acc is None else acc
    for e in jaxpr.eqns:
        if e.primitive.name == "debug_callback":
            acc.append(e)
        for v in e.params.values():
            for sub in (v if isinstance(v, (tuple, list)) else [v]):
                j = getattr(sub, "jaxpr", sub)
                if hasattr(j, "eqns"):
                    _debug_eqns(j, acc)
    return acc


def eval_ref(w, key, T, deterministic, kind="scan", Kget=None):
    """reference interpreter of one evaluation episode: undiscounted sum of rewards up to and including the first done step or the cap"""
    raise NotImplementedError


def keys_fresh(ck, oid, by_role, tr):
    """`the mean return of the MDP under the policy`: the policy's and the environment's randomness are independent, i.e. no PRNG key is handed to two
    consumers (a key used twice yields the same draw twice).  Decided on the key terms of the symbolic run, one obligation per pair of consumer roles: the
    keys handed to role A and to role B (all steps) are different terms; under the free key algebra different terms are different keys.  A coincidence is
    confirmed on the real function with a recording world (same key data reaching both consumers) before it is reported."""
    roles = list(by_role)
    clash = {}
    for a_i, A_ in enumerate(roles):
        for B_ in roles[a_i:]:
            for ta, ka in enumerate(by_role[A_]):
                for tb, kb in enumerate(by_role[B_]):
                    if (A_ != B_ or ta < tb) and ka.get_id() == kb.get_id():
                        clash.setdefault((A_, B_), []).append(f"{A_}[{ta}] and {B_}[{tb}] receive {ka}")
    real = None
    if clash:
        from jaxsmt.uf import GenericWorld
        real = set()
        for wseed in range(4, 12):          # several generic worlds: an episode of a while-rollout may end before every component was called
            w = GenericWorld(seed=wseed, p_true=0.1)
            rng = np.random.default_rng(ck.seed + wseed)
            vals = [concrete.random_leaf(av, rng, nm, lambda n, av_, r: (jnp.full(av_.shape, 3, av_.dtype) if n.endswith("max_episode_steps") else None)) for nm, av in zip(tr.in_names, tr.in_avals)]
            concrete.run_real(tr, vals, w)
            used = {}
            for name, ops, _ in w.calls:
                for o_ in ops:
                    a = np.asarray(o_)
                    if a.dtype == np.uint32 and a.shape == (2,):
                        used.setdefault(a.tobytes(), set()).add(name.split("_")[0])
            real |= {frozenset(v) for v in used.values() if len(v) > 1}
    for a_i, A_ in enumerate(roles):
        for B_ in roles[a_i:]:
            pid = f"{oid},roles={A_}~{B_}"
            if (A_, B_) not in clash:
                ck.fact(pid, True, f"keys handed to {A_} ({len(by_role[A_])}) and {B_} ({len(by_role[B_])}) are different terms")
            elif A_ == B_ or any({A_, B_} <= set(x) or {A_.replace('PI', 'PI'), B_} <= set(x) for x in real):
                ck.fact(pid, False, f"{clash[(A_, B_)][:3]}; real run (recording world): one key reached the consumers {sorted(map(sorted, real))[:4]}")
            else:
                ck.skip(pid, f"key terms coincide symbolically ({clash[(A_, B_)][:2]}) but the real run did not show one key reaching both consumers")


def check_eval(ck):
    from lerax.benchmark import average_reward, rollout_scan, rollout_while
    for deterministic in (False, True):
        for T in ([2, 3] if not ck.thorough else [2, 3, 4]):
            name = f"max_steps={T},deterministic={deterministic}"
            env, pol = make("discrete", False, True)
            tr = trace(lambda env, pol, key: rollout_scan(env, pol, key=key, deterministic=deterministic, max_steps=T), env, pol, jr.key(0), argnames=["env", "pol", "key"],
                       label="benchmark.rollout_scan")
            if T == 2 and not deterministic:
                ck.encoded(tr)
            it = Interp()
            S = tr.symbols(it)
            out = tr.run(it, S)
            total = out[tr.out_names[0]][()]
            w = world_of(it, S, "discrete", False, True)
            o = it.o
            # component keys in order of appearance (the statement does not fix which keys are used)
            kO, kT, kR, kTerm = keys_of(it, "O"), keys_of(it, "T"), keys_of(it, "R"), keys_of(it, "Term")
            kA = keys_of(it, "PI")
            pname = "PI_mode" if deterministic else "PI"
            uses_mode = any(nm == "PI_mode" for nm, *_ in it.uf_apps)
            uses_key = any(nm == "PI" for nm, *_ in it.uf_apps)
            ck.fact(f"eval.deterministic_no_key@{name}", (uses_mode and not uses_key) if deterministic else (uses_key and not uses_mode), f"PI_mode used: {uses_mode}, PI(key) used: {uses_key}")
            kI, kP = keys_of(it, "Init"), keys_of(it, "PReset")
            if not (len(kO) == T and len(kT) == T and len(kR) == T and len(kTerm) == T and len(kI) == 1 and len(kP) == 1 and (deterministic or len(kA) == T)):
                ck.fact(f"eval.scan.keys@{name}", False, f"O{len(kO)} T{len(kT)} R{len(kR)} Term{len(kTerm)} Init{len(kI)} PReset{len(kP)} PI{len(kA)}")
                continue
            s, c = w.env.initial(kI[0])
            h = w.PReset(kP[0])
            done = False
            acc = 0
            for t in range(T):
                obs = w.env.observation(s, kO[t])
                if deterministic:
                    h2, a = w.U("PI_mode", [((1,), "float32"), w.aaval()], w.tp, h, obs)
                else:
                    h2, a = w.PI(h, obs, kA[t])
                s2, c2 = w.env.transition(s, c, a, kT[t])
                r = w.env.reward(s, a, s2, kR[t])
                dn = o.lor(w.env.terminal(s2, kTerm[t]), w.env.truncate(s2, c2))
                acc = o.add(acc, o.ite(done, 0, r))
                # after the first done nothing changes any more
                s = np.array([o.ite(done, x, y) for x, y in zip(s, s2)], dtype=object)
                c = [o.ite(done, x, y) for x, y in zip(c, c2)]
                h = np.array([o.ite(done, x, y) for x, y in zip(h, h2)], dtype=object)
                done = o.lor(done, dn)
            keys_fresh(ck, f"eval.scan.keys_used_once@{name}", {"Init": kI, "PReset": kP, "O": kO, "PI": kA, "T": kT, "R": kR, "Term": kTerm}, tr)
            A = concrete.key_axioms(kO + kT + kR + kTerm + kA + [S["key"][()]]) + [find(S, "max_episode_steps")[()] >= 1]
            ck.prove(f"eval.scan.return@{name}", A, eq_elem(total, acc), replay=lambda res, tr=tr, S=S, it=it, acc=acc: concrete.replay_outputs(tr, S, res, uf_apps=it.uf_apps, oracle={tr.out_names[0]: arr0(acc)}))
    # rollout_while: unrolled to a stated bound with an unwinding obligation (episodes of at most `bound` steps)
    bound = 3
    env, pol = make("discrete", False, True)
    tr = trace(lambda env, pol, key: rollout_while(env, pol, key=key, deterministic=False), env, pol, jr.key(0), argnames=["env", "pol", "key"], label="benchmark.rollout_while")
    ck.encoded(tr)
    it = Interp(while_bound=bound)
    S = tr.symbols(it)
    out = tr.run(it, S)
    total = out[tr.out_names[0]][()]
    unwind = [d for k, d in it.side if k == "unwind"]
    w = world_of(it, S, "discrete", False, True)
    o = it.o
    kO, kT, kR, kA = keys_of(it, "O"), keys_of(it, "T"), keys_of(it, "R"), keys_of(it, "PI")
    kTerm, kI, kP = keys_of(it, "Term"), keys_of(it, "Init"), keys_of(it, "PReset")
    if len(kO) >= bound and len(kT) >= bound and len(kR) >= bound and len(kTerm) >= bound + 1 and len(kI) == 1 and len(kP) == 1:
        s, c = w.env.initial(kI[0])
        h = w.PReset(kP[0])
        acc = 0
        running = True
        for t in range(bound):
            cont = o.lnot(o.lor(w.env.terminal(s, kTerm[t]), w.env.truncate(s, c)))
            running = o.land(running, cont)
            obs = w.env.observation(s, kO[t])
            h2, a = w.PI(h, obs, kA[t])
            s2, c2 = w.env.transition(s, c, a, kT[t])
            r = w.env.reward(s, a, s2, kR[t])
            acc = o.add(acc, o.ite(running, r, 0))
            s = np.array([o.ite(running, y, x) for x, y in zip(s, s2)], dtype=object)
            c = [o.ite(running, y, x) for x, y in zip(c, c2)]
            h = np.array([o.ite(running, y, x) for x, y in zip(h, h2)], dtype=object)
        still = o.land(running, o.lnot(o.lor(w.env.terminal(s, kTerm[bound]), w.env.truncate(s, c))))
        keys_fresh(ck, f"eval.while.keys_used_once@unwind={bound}", {"Init": kI, "PReset": kP, "O": kO, "PI": kA, "T": kT, "R": kR, "Term": kTerm}, tr)
        A = concrete.key_axioms(kO + kT + kR + kTerm + kA + [S["key"][()]]) + [find(S, "max_episode_steps")[()] >= 1] + [o.lnot(still)]
        ck.assume_note(f"rollout_while: episodes of at most {bound} steps (loop unrolled {bound} times; the unwinding condition is assumed false and the implementation's own unwinding condition is shown to coincide with it)")
        ck.prove(f"eval.while.return@unwind={bound}", A, eq_elem(total, acc), replay=lambda res: concrete.replay_outputs(tr, S, res, uf_apps=it.uf_apps, oracle={tr.out_names[0]: arr0(acc)}))
        if unwind:
            ck.prove(f"eval.while.unwinding@unwind={bound}", A, core.neg(unwind[0]), replay=lambda res: (False, {"note": "unwinding"}))
        ck.witness("witness.while_runs_full_bound", A[:-1] + [running])
    else:
        ck.fact("eval.while.keys", False, f"O{len(kO)} T{len(kT)} R{len(kR)} Term{len(kTerm)} Init{len(kI)} PReset{len(kP)}")
    # average over independent episodes (N beyond any plausible parallel-evaluation chunk, and not a multiple of a power of two: the
    # statement's mean is the unweighted mean over all episodes however the implementation batches them)
    # T = 0 is the boundary step cap: episodes of zero steps (the return is 0 whatever the environment does); a dispatch on the
    # truthiness of max_steps would run those episodes without a cap
    for N, T in ([(2, 2), (37, 1), (2, 0)] + ([(131, 1), (3, 0)] if ck.thorough else [])):
        env, pol = make("discrete", False, True)
        tra = trace(lambda env, pol, key: average_reward(env, pol, num_episodes=N, max_steps=T, key=key), env, pol, jr.key(0), argnames=["env", "pol", "key"], label="benchmark.average_reward")
        if N == 2:
            ck.encoded(tra)
        ita = Interp()
        Sa = tra.symbols(ita)
        outa = tra.run(ita, Sa)
        trs = trace(lambda env, pol, key: rollout_scan(env, pol, key=key, max_steps=T), env, pol, jr.key(0), argnames=["env", "pol", "key"])
        eps = []
        from jaxsmt.interp import ksplit
        for e in range(N):
            ite_ = Interp()
            Se = dict(Sa)
            Se["key"] = arr0(ksplit(N)(Sa["key"][()], z3.IntVal(e)))
            eps.append(trs.run(ite_, Se)[trs.out_names[0]][()])
        mean = sum(eps[1:], eps[0]) / N
        ck.prove(f"eval.mean_over_independent_episodes@N={N},T={T}", [], eq_elem(outa[tra.out_names[0]][()], mean),
                 replay=lambda res, tra=tra, Sa=Sa, ita=ita, mean=mean: concrete.replay_outputs(tra, Sa, res, uf_apps=ita.uf_apps, oracle={tra.out_names[0]: arr0(mean)}))
        if T == 0:
            ck.prove(f"eval.step_cap_zero_takes_no_step@N={N}", [], eq_elem(outa[tra.out_names[0]][()], 0),
                     replay=lambda res, tra=tra, Sa=Sa, ita=ita: concrete.replay_outputs(tra, Sa, res, uf_apps=ita.uf_apps, oracle={tra.out_names[0]: arr0(0)}))
            ck.fact(f"eval.step_cap_zero_no_transition@N={N}", not keys_of(ita, "T") and not any(isinstance(e_, dict) and e_.get("prim") == "while" for e_ in getattr(ita, "side", [])),
                    f"transition applications under max_steps=0: {len(keys_of(ita, 'T'))}")
            continue
        ik = keys_of(ita, "Init")
        ck.fact("eval.episode_keys_distinct" + ("" if N == 2 else f"@N={N}"), len(ik) == N and len({str(k) for k in ik}) == N, f"initial-state keys of the episodes: {ik[:4]}{'...' if N > 4 else ''}")


def main():
    ck = Check("C19", "reported performance numbers")
    ck.mode = "REAL"
    ck.bound(envs=2, eval_max_steps=[2, 3] if not ck.thorough else [2, 3, 4], eval_episodes=[2, 37] if not ck.thorough else [2, 37, 131], eval_zero_cap="max_steps=0 with 2 (thorough: also 3) episodes", while_unwinding=3, alpha="symbolic in [0,1] for next(); 0.5 in the integration obligations")
    ck.stub("environment and policy uninterpreted", "logging backend: recording stub; jax.debug.callback operands are recorded in program order", "PRNG keys: free algebra")
    ck.out("TensorBoard / W&B / console backends' own I/O", "video recording", "float rounding")
    with ck.section("next"):
        check_next(ck)
    with ck.section("integration"):
        check_integration(ck)
    with ck.section("iteration"):
        check_iteration(ck)
    with ck.section("machine"):
        check_machine_step(ck)
    with ck.section("eval"):
        check_eval(ck)
    ck.finish("LoggingCallbackStepState.next is traced and checked as one inductive step from an arbitrary state (symbolic smoothing factor) including a ghost-variable "
              "invariant that links the accumulators to the sums since the previous episode end; the integration obligations trace the real on-/off-policy "
              "collection steps with a LoggingCallback attached and show that the reward reaching the logger is the environment's reward of the executed "
              "action; on_iteration's backend operands are compared with the means/sum of the statement; rollout_scan, rollout_while (bounded unwinding) "
              "and average_reward are compared with a reference interpreter of the evaluation episode.")


if __name__ == "__main__":
    main()
