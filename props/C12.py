"""C12 — JAX transformations are transparent; parallel environments never mix."""
from fractions import Fraction

import diffrax
import equinox as eqx
import jax
import jax.numpy as jnp
import numpy as np
import z3
from jax import random as jr

from jaxsmt import concrete, core, stubs
from jaxsmt.core import Check, conj, eq_arr, eq_elem
from jaxsmt.interp import Interp, arr0, ksplit
from jaxsmt.trace import trace
from props.C04 import GAMMA, make
from props.C05 import ProbeOff
from props.common import empty_callback

from lerax.algorithm import PPO


class ProbePPO(PPO):
    """the real PPO iteration; `train` only exposes the collected buffer (the uninterpreted policy is not differentiable)"""

    def train(self, policy, opt_state, buffer, *, key):
        # the buffer that reaches train() is returned in place of the optimiser state, so that the REAL iteration() exposes it
        return policy, buffer, {}


def lane_inputs(tr1, SE, E, lane, key_name, keyterm):
    """inputs of the single-environment function taken from lane `lane` of the vectorised inputs"""
    d = {}
    for n, av in zip(tr1.in_names, tr1.in_avals):
        if n == key_name:
            d[n] = arr0(keyterm)
            continue
        a = SE[n]
        d[n] = a[lane] if tuple(a.shape) != tuple(av.shape) else a
        d[n] = arr0(d[n]) if not isinstance(d[n], np.ndarray) else d[n]
    return d


def candidate_lane_keys(it):
    """key terms X such that some split child of X is consumed by an uninterpreted function: candidates for 'the per-environment key'"""
    cands = {}
    for nm, oi, idx, ops, t in it.uf_apps:
        for x in ops:
            if isinstance(x, z3.ExprRef) and x.sort().name() == "Key":
                y = x
                while z3.is_app(y) and y.num_args() == 2 and y.decl().name().startswith("ksplit"):
                    y = y.arg(0)
                    cands[y.get_id()] = y
    return list(cands.values())


def match_lane(tr1, SE, E, lane, outE, cands, default):
    """find a key term K (oracle strength: ANY per-environment key derived from the iteration key) such that the lane equals the
    single-environment program run from (state[lane], K); returns (K, per-output goals under K)"""
    best = None
    for K in [default] + [c for c in cands if not c.eq(default)]:
        it1 = Interp()
        S1 = lane_inputs(tr1, SE, E, lane, "key", K)
        out1 = tr1.run(it1, S1)
        goals = {}
        for n in tr1.out_names:
            a, b = outE[n], out1[n]
            a = a[lane] if tuple(a.shape) != tuple(b.shape) else a
            a = arr0(a) if not isinstance(a, np.ndarray) else a
            # (a lane whose shape is not the single-environment result's shape -- e.g. the buffer laid out as (steps, envs) -- is a definite mismatch)
            goals[n] = eq_arr(a, b) if tuple(a.shape) == tuple(b.shape) else False
        nsyn = sum(1 for g in goals.values() if g is True)
        if best is None or nsyn > best[2]:
            best = (K, goals, nsyn)
        if nsyn == len(goals):
            break
    return best[0], best[1]


def check_onpolicy_lanes(ck, kind, E=2, S_=2):
    name = f"onpolicy/{kind},E={E},S={S_}"
    env, pol = make(kind, False, True)
    cb = empty_callback()
    algoE = ProbePPO(num_envs=E, num_steps=S_, num_batches=1, num_epochs=1, gamma=GAMMA, gae_lambda=0.5)
    stE = jax.eval_shape(lambda k: algoE.reset(env, pol, key=k, callback=cb), jr.key(0))

    def vec(st, key):
        out = algoE.iteration(st, key=key, callback=cb)
        return {"state": out.step_state, "buf": out.opt_state}
    trE = trace(vec, stE, jr.key(0), argnames=["st", "key"], label="PPO.iteration (E=2; train exposes the buffer it receives)")
    ck.encoded(trE)
    itE = Interp()
    SE0 = trE.symbols(itE)
    outE = trE.run(itE, SE0)
    # rename the inputs to the argument names of the single-environment function
    SE = {}
    for n, v in SE0.items():
        if n.startswith("st_step_state_"):
            SE["st_" + n[len("st_step_state_"):]] = v
        elif n.startswith("st_env_"):
            SE["env_" + n[len("st_env_"):]] = v
        elif n.startswith("st_policy_"):
            SE["pol_" + n[len("st_policy_"):]] = v
        else:
            SE[n] = v
    algo1 = ProbePPO(num_envs=1, num_steps=S_, num_batches=1, num_epochs=1, gamma=GAMMA, gae_lambda=0.5)
    st1 = jax.eval_shape(lambda k: algo1.reset(env, pol, key=k, callback=cb), jr.key(0))

    def single(step_state, env, pol, key):
        ss, buf = algo1.collect_rollout(env, pol, step_state, cb, key)
        return {"state": ss, "buf": buf}
    tr1 = trace(single, st1.step_state, env, pol, jr.key(0), argnames=["st", "env", "pol", "key"], label="collect_rollout (single environment)")
    ck.encoded(tr1)
    rk = ksplit(3)(SE["key"][()], z3.IntVal(0))
    cands = candidate_lane_keys(itE)
    lane_keys = []
    for lane in range(E):
        K, goals = match_lane(tr1, SE, E, lane, outE, cands, ksplit(E)(rk, z3.IntVal(lane)))
        lane_keys.append(K)
        for n in tr1.out_names:
            fld = n
            goal_n = goals[n]

            def rp(res, n=n, lane=lane):
                # replay: run the vectorised and the single-environment collection on the model's inputs and compare the lane
                keys = concrete.KeyBinding(res)
                w = concrete.ModelWorld(res, itE.uf_apps, keys)
                valsE = [concrete.model_leaf(res, SE0[m], av, keys) for m, av in zip(trE.in_names, trE.in_avals)]
                ren = {("st_" + m[len("st_step_state_"):] if m.startswith("st_step_state_") else ("env_" + m[len("st_env_"):] if m.startswith("st_env_") else ("pol_" + m[len("st_policy_"):] if m.startswith("st_policy_") else m))): i for i, m in enumerate(trE.in_names)}
                realE = dict(zip(trE.out_names, concrete.run_real(trE, valsE, w)))
                vals1 = []
                for m, av in zip(tr1.in_names, tr1.in_avals):
                    if m == "key":
                        vals1.append(jr.split(jr.split(keys.concrete(SE["key"][()]), 3)[0], E)[lane])
                    else:
                        v = valsE[ren[m]]
                        vals1.append(v[lane] if tuple(np.shape(v)) != tuple(av.shape) else v)
                real1 = dict(zip(tr1.out_names, concrete.run_real(tr1, vals1, w)))
                x = concrete.real_to_float(realE[n])
                y = concrete.real_to_float(real1[n])
                x = x[lane] if x.shape != y.shape else x
                bad = x.shape != y.shape or not np.allclose(x, y, rtol=1e-3, atol=1e-3, equal_nan=True)
                return bad, {"field": n, "lane": lane, "vectorised": np.asarray(x).reshape(-1)[:8].tolist(), "single": np.asarray(y).reshape(-1)[:8].tolist()}
            ck.prove(f"lanes.{fld}@{name},lane={lane}", [], goal_n, replay=rp)
    ck.fact(f"lanes.per_env_keys_distinct@{name}", all(not lane_keys[i].eq(lane_keys[j]) for i in range(E) for j in range(i + 1, E)), f"per-environment keys {lane_keys}")
    # 2-safety: lane 0 is invariant under arbitrary changes of lane 1's state and key material
    itA, itB = Interp(), Interp()
    SB = {}
    for n, av in zip(trE.in_names, trE.in_avals):
        a = SE0[n]
        if n.startswith("st_step_state_") and a.ndim >= 1 and a.shape[0] == E:
            alt = itB.sym("alt_" + n, av.shape, av.dtype)
            b = a.copy()
            b[1] = alt[1]
            SB[n] = b
        else:
            SB[n] = a
    outB = trE.run(itB, SB)
    for n in trE.out_names:
        a, b = outE[n], outB[n]
        if a.ndim >= 1 and a.shape[0] == E:
            ck.prove(f"noninterference.{n}@{name}", [], eq_arr(a[0], b[0]), replay=lambda res, n=n: (True, {"note": f"lane 0 of {n} depends on lane 1's start state"}))
    ck.witness(f"witness.lanes_differ@{name}", [core.neg(eq_arr(SE["st_env_state_env_state_s"][0], SE["st_env_state_env_state_s"][1]))])


def check_offpolicy_lanes(ck, kind, E=2, n_steps=2, C=2):
    name = f"offpolicy/{kind},E={E},n={n_steps}"
    env, pol = make(kind, False, True)
    cb = empty_callback()
    algoE = ProbeOff(buffer_size=C * E, learning_starts=0, num_envs=E, num_steps=n_steps)
    stE = jax.eval_shape(lambda k: algoE.reset(env, pol, key=k, callback=cb), jr.key(0))
    trE = trace(lambda st, key: {"state": algoE.iteration(st, key=key, callback=cb).step_state}, stE, jr.key(0), argnames=["st", "key"], label="AbstractOffPolicyAlgorithm.iteration (E=2)")
    ck.encoded(trE)
    itE = Interp()
    SE = trE.symbols(itE)
    outE = trE.run(itE, SE)
    algo1 = ProbeOff(buffer_size=C, learning_starts=0, num_envs=1, num_steps=n_steps)
    st1 = jax.eval_shape(lambda k: algo1.reset(env, pol, key=k, callback=cb), jr.key(0))

    def single(step_state, env, pol, key):
        return {"state": algo1.collect_rollout(env, pol, step_state, cb, key)}
    tr1 = trace(single, st1.step_state, env, pol, jr.key(0), argnames=["st_step_state", "st_env", "st_policy", "key"], label="off-policy collect_rollout (single environment)")

    def replay_off(res, n, lane):
        keys = concrete.KeyBinding(res)
        w = concrete.ModelWorld(res, itE.uf_apps, keys)
        valsE = [concrete.model_leaf(res, SE[m], av, keys) for m, av in zip(trE.in_names, trE.in_avals)]
        realE = dict(zip(trE.out_names, concrete.run_real(trE, valsE, w)))
        vals1 = []
        for m, av in zip(tr1.in_names, tr1.in_avals):
            if m == "key":
                vals1.append(jr.split(jr.split(keys.concrete(SE["key"][()]), 3)[0], E)[lane])
            else:
                v = valsE[trE.in_names.index(m)]
                vals1.append(v[lane] if tuple(np.shape(v)) != tuple(av.shape) else v)
        real1 = dict(zip(tr1.out_names, concrete.run_real(tr1, vals1, w)))
        x, y = concrete.real_to_float(realE[n]), concrete.real_to_float(real1[n])
        x = x[lane] if x.shape != y.shape else x
        bad = not np.allclose(x, y, rtol=1e-3, atol=1e-3, equal_nan=True)
        return bad, {"field": n, "lane": lane, "vectorised": np.asarray(x).reshape(-1)[:8].tolist(), "single": np.asarray(y).reshape(-1)[:8].tolist()}
    rk = ksplit(3)(SE["key"][()], z3.IntVal(0))
    cands = candidate_lane_keys(itE)
    lane_keys = []
    for lane in range(E):
        K, goals = match_lane(tr1, SE, E, lane, outE, cands, ksplit(E)(rk, z3.IntVal(lane)))
        lane_keys.append(K)
        for n in tr1.out_names:
            ck.prove(f"lanes.{n}@{name},lane={lane}", [SE["st_step_state_buffer_position"][lane] >= 0], goals[n],
                     replay=lambda res, n=n, lane=lane: replay_off(res, n, lane))
    ck.fact(f"lanes.per_env_keys_distinct@{name}", all(not lane_keys[i].eq(lane_keys[j]) for i in range(E) for j in range(i + 1, E)), f"per-environment keys {lane_keys}")
    itB = Interp()
    SB = {}
    for n, av in zip(trE.in_names, trE.in_avals):
        a = SE[n]
        if n.startswith("st_step_state_") and a.ndim >= 1 and a.shape[0] == E:
            alt = itB.sym("alt_" + n, av.shape, av.dtype)
            b = a.copy()
            b[1] = alt[1]
            SB[n] = b
        else:
            SB[n] = a
    outB = trE.run(itB, SB)
    for n in trE.out_names:
        a, b = outE[n], outB[n]
        if a.ndim >= 1 and a.shape[0] == E:
            ck.prove(f"noninterference.{n}@{name}", [SE["st_step_state_buffer_position"][0] >= 0], eq_arr(a[0], b[0]), replay=lambda res, n=n: (True, {"note": f"lane 0 of {n} depends on lane 1's start state"}))


def check_offpolicy_warmup_lanes(ck, kind, E=2, L=1, C=2):
    """the warm-up inside reset(): every environment's buffer and state are those of an independent single-environment start + warm-up from that
    environment's own keys (per-environment keys: any split children of the reset key, distinct per lane)"""
    from lerax.algorithm.off_policy import AbstractOffPolicyStepState
    name = f"offpolicy_warmup/{kind},E={E},L={L}"
    env, pol = make(kind, False, True)
    cb = empty_callback()
    algoE = ProbeOff(buffer_size=C * E, learning_starts=L, num_envs=E, num_steps=1)
    trE = trace(lambda env, pol, key: {"state": algoE.reset(env, pol, key=key, callback=cb).step_state}, env, pol, jr.key(0), argnames=["st_env", "st_policy", "key"], label=f"AbstractOffPolicyAlgorithm.reset (E={E}, learning_starts={L})")
    ck.encoded(trE)
    itE = Interp()
    SE = trE.symbols(itE)
    outE = trE.run(itE, SE)
    algo1 = ProbeOff(buffer_size=C, learning_starts=L, num_envs=1, num_steps=1)

    def single(env, pol, k_init, k_starts):
        ss = AbstractOffPolicyStepState.initial(C, env, pol, cb, k_init)
        return {"state": algo1.collect_learning_starts(env, pol, ss, cb, k_starts)}
    tr1 = trace(single, env, pol, jr.key(0), jr.key(1), argnames=["st_env", "st_policy", "k_init", "k_starts"], label="single environment: StepState.initial + collect_learning_starts")
    cands = candidate_lane_keys(itE)
    root = SE["key"][()]
    dflt = lambda j, lane: ksplit(E)(ksplit(3)(root, z3.IntVal(j)), z3.IntVal(lane))
    chosen = []
    for lane in range(E):
        best = None
        pairs = [(dflt(0, lane), dflt(1, lane))] + [(a, b) for a in cands for b in cands if not a.eq(b)]
        for ki, ks in pairs[:40]:
            it1 = Interp()
            S1 = {n: (arr0(ki) if n == "k_init" else (arr0(ks) if n == "k_starts" else SE[n])) for n in tr1.in_names}
            out1 = tr1.run(it1, S1)
            goals = {}
            for n in tr1.out_names:
                a, b = outE[n], out1[n]
                a = a[lane] if tuple(a.shape) != tuple(b.shape) else a
                goals[n] = eq_arr(arr0(a) if not isinstance(a, np.ndarray) else a, b)
            nsyn = sum(1 for g in goals.values() if g is True)
            if best is None or nsyn > best[2]:
                best = ((ki, ks), goals, nsyn)
            if nsyn == len(goals):
                break
        (ki, ks), goals, _ = best
        chosen.append((ki, ks))

        def rp(res, n, lane=lane, ki=ki, ks=ks):
            keys = concrete.KeyBinding(res)
            w = concrete.ModelWorld(res, itE.uf_apps, keys)
            valsE = [concrete.model_leaf(res, SE[m], av, keys) for m, av in zip(trE.in_names, trE.in_avals)]
            realE = dict(zip(trE.out_names, concrete.run_real(trE, valsE, w)))
            vals1 = [keys.concrete(ki) if m == "k_init" else (keys.concrete(ks) if m == "k_starts" else valsE[trE.in_names.index(m)]) for m in tr1.in_names]
            real1 = dict(zip(tr1.out_names, concrete.run_real(tr1, vals1, w)))
            x, y = concrete.real_to_float(realE[n]), concrete.real_to_float(real1[n])
            x = x[lane] if x.shape != y.shape else x
            return (not np.allclose(x, y, rtol=1e-3, atol=1e-3, equal_nan=True)), {"field": n, "lane": lane, "vectorised_reset": np.asarray(x).reshape(-1)[:8].tolist(), "independent_single_environment": np.asarray(y).reshape(-1)[:8].tolist()}
        for n in tr1.out_names:
            ck.prove(f"lanes.{n}@{name},lane={lane}", [], goals[n], replay=lambda res, n=n, rp=rp: rp(res, n))
    ck.fact(f"lanes.per_env_keys_distinct@{name}", all(not chosen[i][j].eq(chosen[k][j]) for j in (0, 1) for i in range(E) for k in range(i + 1, E)), f"per-environment (init, warm-up) keys {chosen}")


def check_pytree_roundtrip(ck):
    """`the same result whether called eagerly, under jit, or vmapped`: a space / wrapper that is an ARGUMENT of a transformed function is rebuilt inside it from
    its pytree leaves.  The rebuilt object must compute what the original computes (e.g. a Dict space must keep its key order: JAX sorts the keys of plain dicts
    when flattening).  Each function is traced with the object closed over and with the object rebuilt by tree_unflatten(tree_flatten(.)); the two programs are
    interpreted on the same symbols and their outputs shown equal."""
    from lerax.space import Box, Dict, Discrete, MultiDiscrete, Tuple
    d1 = Dict({"velocity": Box(-jnp.ones(2), jnp.ones(2)), "position": Box(-2.0, 2.0, shape=(1,)), "alpha": Discrete(3)})       # keys NOT in alphabetical order
    objs = {"Dict(velocity,position,alpha)": d1, "Tuple(Dict,Box)": Tuple((d1, Box(0.0, 1.0, shape=(2,)))), "Dict(z:Dict,a:MultiDiscrete)": Dict({"z": d1, "a": MultiDiscrete((2, 3))})}
    for oname, sp in objs.items():
        leaves, treedef = jax.tree_util.tree_flatten(sp)
        sp2 = jax.tree_util.tree_unflatten(treedef, leaves)
        x = sp.canonical()
        for fname, f, ex, argn in (("flatten_sample", lambda s_, v: s_.flatten_sample(v), [x], ["x"]), ("sample_flat", lambda s_, k: s_.flatten_sample(s_.sample(key=k)), [jr.key(0)], ["key"])):
            with stubs.prng_stubs():
                t1 = trace(lambda *a, f=f: f(sp, *a), *ex, argnames=argn, label=f"{oname}.{fname} (object closed over)")
                t2 = trace(lambda *a, f=f: f(sp2, *a), *ex, argnames=argn, label=f"{oname}.{fname} (object rebuilt from its pytree leaves)")
            it = Interp()
            S = t1.symbols(it)
            o1, o2 = t1.run(it, S), t2.run(it, S)
            same_shape = [tuple(o1[a].shape) for a in t1.out_names] == [tuple(o2[b].shape) for b in t2.out_names]
            if not same_shape:
                ck.fact(f"pytree_roundtrip.{oname}.{fname}", False, "output structure differs after a flatten/unflatten round trip")
                continue

            def rp(res, f=f, ex=ex, sp=sp):
                import equinox as eqx
                args = ex if fname == "sample_flat" else [jax.tree_util.tree_map(lambda l: jnp.asarray(np.arange(1, np.size(l) + 1).reshape(np.shape(l)) % 2, jnp.asarray(l).dtype), ex[0])]
                with stubs.prng_stubs():
                    from jaxsmt.uf import GenericWorld, world
                    jax.clear_caches()
                    with world(GenericWorld(seed=2)):
                        eager = np.asarray(f(sp, *args), np.float64)
                        jitted = np.asarray(eqx.filter_jit(f)(sp, *args), np.float64)
                    jax.clear_caches()
                return (eager.shape != jitted.shape or not np.array_equal(eager, jitted)), {"function": f"{oname}.{fname}", "eager": eager.reshape(-1)[:12].tolist(), "filter_jit_with_the_object_as_argument": jitted.reshape(-1)[:12].tolist()}
            ck.prove(f"pytree_roundtrip.{oname}.{fname}", stubs.contracts(it), conj([eq_arr(o1[a], o2[b]) for a, b in zip(t1.out_names, t2.out_names)]), replay=rp)


def donated_calls(jaxpr):
    """names of the jit calls inside a traced program that donate one of their argument buffers (an EAGER call of such a function invalidates the
    caller's arrays -- the explicit arguments would not survive the call -- while the same call under an enclosing jit does not)"""
    found = []

    def walk(j):
        for e in j.eqns:
            d = e.params.get("donated_invars")
            if d is not None and any(d):
                found.append(str(e.params.get("name")))
            for v in e.params.values():
                for sub in (v if isinstance(v, (tuple, list)) else [v]):
                    jj = getattr(sub, "jaxpr", sub)
                    if hasattr(jj, "eqns"):
                        walk(jj)
    walk(jaxpr)
    return found


def check_env_transparency(ck):
    """every component of the classic-control environments: traced without Python branching on values, and vmap(f)(xs)[i] == f(xs[i])"""
    from lerax.env.classic_control import Acrobot, CartPole, ContinuousMountainCar, MountainCar, Pendulum
    from lerax.wrapper import ClipObservation, FlattenObservation, TimeLimit
    envs = {"CartPole": CartPole(), "MountainCar": MountainCar(), "ContinuousMountainCar": ContinuousMountainCar(), "Acrobot": Acrobot(), "Pendulum": Pendulum(),
            "TimeLimit(CartPole)": TimeLimit(CartPole(), 5), "FlattenObservation(ClipObservation(Pendulum))": FlattenObservation(ClipObservation(Pendulum())),
            # non-default constructor arguments (documented options that default configurations never exercise)
            "Acrobot(torque_max_noise=0.5)": Acrobot(torque_max_noise=0.5), "MountainCar(goal_velocity=0.02)": MountainCar(goal_velocity=0.02),
            "CartPole(force_mag=5,pole_mass=0.2)": CartPole(force_mag=5.0, pole_mass=0.2)}
    B = 2
    for ename, env in envs.items():
        st = env.initial(key=jr.key(0))
        act = env.action_space.canonical()
        comps = {
            "initial": (lambda e, k: e.initial(key=k), [jr.key(0)], ["key"]),
            "transition": (lambda e, s, a, k: e.transition(s, a, key=k), [st, act, jr.key(0)], ["s", "a", "key"]),
            "observation": (lambda e, s, k: e.observation(s, key=k), [st, jr.key(0)], ["s", "key"]),
            "reward": (lambda e, s, a, s2, k: e.reward(s, a, s2, key=k), [st, act, st, jr.key(0)], ["s", "a", "s2", "key"]),
            "terminal": (lambda e, s, k: e.terminal(s, key=k), [st, jr.key(0)], ["s", "key"]),
            "truncate": (lambda e, s: e.truncate(s), [st], ["s"]),
        }
        if ename in ("CartPole", "Pendulum", "TimeLimit(CartPole)", "MountainCar(goal_velocity=0.02)"):
            # the composed Gym-style entry points (auto-reset inside): a batch of environments steps / resets lane by lane
            comps["step"] = (lambda e, s, a, k: e.step(s, a, key=k), [st, act, jr.key(0)], ["s", "a", "key"])
            comps["reset"] = (lambda e, k: e.reset(key=k), [jr.key(0)], ["key"])
        for cname, (f, ex, argn) in comps.items():
            with stubs.ode_stub(), stubs.prng_stubs():
                try:
                    tr1 = trace(lambda *a, f=f: f(env, *a), *ex, argnames=argn, label=f"{ename}.{cname}")
                    exB = [jax.tree_util.tree_map(lambda x: jnp.stack([x] * B), a) if not (hasattr(a, "dtype") and jax.dtypes.issubdtype(a.dtype, jax.dtypes.prng_key)) else jr.split(a, B) for a in ex]
                    trB = trace(lambda *a, f=f: jax.vmap(lambda *b: f(env, *b))(*a), *exB, argnames=argn, label=f"vmap({ename}.{cname})")
                    traced_ok = True
                except jax.errors.TracerBoolConversionError as ex_:
                    traced_ok = False
            ck.fact(f"nofork.{ename}.{cname}", traced_ok, "traces without converting a traced value to a Python bool (eager and jit run the same primitive sequence)")
            if not traced_ok:
                continue
            dn = donated_calls(tr1.jaxpr)
            ck.fact(f"arguments_survive.{ename}.{cname}", not dn, f"jit calls inside the component that donate argument buffers: {dn[:4]}")
            # depends only on its explicit arguments: a second, independent trace yields the same program with the same captured constants
            with stubs.ode_stub(), stubs.prng_stubs():
                tr1b = trace(lambda *a, f=f: f(env, *a), *ex, argnames=argn, label=f"{ename}.{cname}")
            same_prog = str(tr1.jaxpr) == str(tr1b.jaxpr) and len(tr1.consts) == len(tr1b.consts) and all(
                np.array_equal(np.asarray(a), np.asarray(b), equal_nan=True) for a, b in zip(tr1.consts, tr1b.consts)
                if not jax.dtypes.issubdtype(getattr(a, "dtype", np.float32), jax.dtypes.prng_key))
            ck.fact(f"explicit_arguments_only.{ename}.{cname}", same_prog,
                    "two independent traces give the same program and the same captured constants (no hidden Python-side state or randomness)")
            itB = Interp()
            SBt = trB.symbols(itB)
            outB = trB.run(itB, SBt)
            goals = []
            for lane in range(B):
                it1 = Interp()
                S1 = {n: arr0(SBt[n][lane]) if not isinstance(SBt[n][lane], np.ndarray) else SBt[n][lane] for n in tr1.in_names}
                out1 = tr1.run(it1, S1)
                for n in tr1.out_names:
                    a = outB[n][lane]
                    a = arr0(a) if not isinstance(a, np.ndarray) else a
                    goals.append(eq_arr(a, out1[n]))

            def rp(res, tr1=tr1, trB=trB, SBt=SBt, itB=itB):
                keys = concrete.KeyBinding(res)
                w = concrete.ModelWorld(res, itB.uf_apps, keys)
                vals = [concrete.model_leaf(res, SBt[m], av, keys) for m, av in zip(trB.in_names, trB.in_avals)]
                with stubs.ode_stub(), stubs.prng_stubs():
                    rB = concrete.run_real(trB, vals, w)
                    bad = False
                    for lane in range(B):
                        r1 = concrete.run_real(tr1, [v[lane] for v in vals], w)
                        for x, y in zip(rB, r1):
                            bad = bad or not np.allclose(concrete.real_to_float(x)[lane], concrete.real_to_float(y), rtol=1e-3, atol=1e-4, equal_nan=True)
                return bad, {"note": "vmapped component differs from the per-element call"}
            ck.prove(f"vmap.{ename}.{cname}", [], conj(goals), replay=rp)
    ck.encoded({"function": "initial/transition/observation/reward/terminal/truncate of 5 classic-control environments and 2 wrapper stacks", "equations": 0, "inputs": 0, "outputs": 0})


def check_eager_equals_traced(ck):
    """`the same result whether called eagerly [or] under jit ... and depends only on its explicit arguments`: the program an EAGER call executes
    (jaxsmt.eager: the primitive applications of a real eager call, recorded after ANOTHER instance of the same class has been used eagerly in the
    same process) against the traced program of the same component, as functions of all array leaves of (env, state, action, key)"""
    import diffrax
    from jaxsmt.eager import record_eager
    from jaxsmt.uf import GenericWorld, eager_world
    from lerax.env.classic_control import Acrobot, CartPole, ContinuousMountainCar, MountainCar, Pendulum
    eu = diffrax.Euler
    pairs = {"CartPole": (CartPole(), CartPole(gravity=1.62, force_mag=25.0, dt=0.05, solver=eu())),
             "Pendulum": (Pendulum(), Pendulum(g=3.7, m=2.0, l=0.5, max_speed=4.0, solver=eu())),
             "MountainCar": (MountainCar(), MountainCar(max_speed=0.5, force=0.002, solver=eu())),
             "ContinuousMountainCar": (ContinuousMountainCar(), ContinuousMountainCar(power=0.003, max_speed=0.25, solver=eu())),
             "Acrobot": (Acrobot(), Acrobot(gravity=3.7, link_mass_2=2.0, solver=eu()))}
    if not ck.thorough:
        pairs = {k: pairs[k] for k in ("CartPole", "Pendulum", "MountainCar")}
    CONTROL = {"cond", "while", "scan"}
    for ename, (A, B) in pairs.items():
        stA, actA = A.initial(key=jr.key(0)), A.action_space.canonical()
        st, act = B.initial(key=jr.key(3)), B.action_space.canonical()
        comps = {
            "transition": (lambda e, s, a, k: e.transition(s, a, key=k), [st, act, jr.key(1)], ["s", "a", "key"]),
            "observation": (lambda e, s, k: e.observation(s, key=k), [st, jr.key(1)], ["s", "key"]),
            "reward": (lambda e, s, a, s2, k: e.reward(s, a, s2, key=k), [st, act, st, jr.key(1)], ["s", "a", "s2", "key"]),
            "terminal": (lambda e, s, k: e.terminal(s, key=k), [st, jr.key(1)], ["s", "key"]),
        }

        def history(A=A, stA=stA, actA=actA):
            # the other instance is used first, eagerly, through every component
            s1 = A.transition(stA, actA, key=jr.key(2))
            A.observation(s1, key=jr.key(2)), A.reward(stA, actA, s1, key=jr.key(2)), A.terminal(s1, key=jr.key(2))
        for cname, (f, ex, argn) in comps.items():
            oid = f"{ename}.{cname}"
            with stubs.ode_stub(), stubs.prng_stubs(), eager_world(GenericWorld(seed=5)):
                trT = trace(f, B, *ex, argnames=["env"] + argn, label=f"{ename}.{cname} (traced)")
                if CONTROL & set(__import__("jaxsmt.trace", fromlist=["primitives"]).primitives(trT.jaxpr)):
                    ck.skip(f"eager_equals_traced.{oid}", "the traced program has control-flow primitives: an eager recording is one path only")
                    continue
                try:
                    trE = record_eager(f, B, *ex, argnames=["env"] + argn, label=f"{ename}.{cname} (eager call, recorded)", before=history)
                except Exception as exn:  # noqa: BLE001
                    ck.fact(f"eager_runs.{oid}", False, f"the eager call raised {exn!r}")
                    continue
            if ename == "CartPole" and cname == "transition":
                ck.encoded(trE, trT)
            same_sig = trE.in_names == trT.in_names and trE.out_names == trT.out_names and [tuple(a.shape) for a in trE.out_avals] == [tuple(a.shape) for a in trT.out_avals]
            ck.fact(f"eager_reads_only_its_arguments.{oid}", same_sig and not trE.hidden,
                    f"arrays read by the eager call that are neither its arguments nor computed from them: {trE.hidden[:3]}; signatures equal: {same_sig}")
            if not same_sig:
                continue
            it = Interp()
            S = trT.symbols(it)
            oT, oE = trT.run(it, S), trE.run(it, S)
            alias = [eq_arr(S[a], S[b]) for a, b in trE.aliases]

            def rp(res, f=f, B=B, trT=trT, S=S, it=it):
                keys = concrete.KeyBinding(res)
                vals = [concrete.model_leaf(res, S[m], av, keys) for m, av in zip(trT.in_names, trT.in_avals)]
                leaves, treedef = jax.tree_util.tree_flatten((B, *[x for x in trT.args[1:]]), is_leaf=None)
                dyn = [l for l in leaves if eqx.is_array(l)]
                assert len(dyn) == len(vals)
                itv = iter(vals)
                args = jax.tree_util.tree_unflatten(treedef, [next(itv) if eqx.is_array(l) else l for l in leaves])
                with stubs.ode_stub(), stubs.prng_stubs():
                    from jaxsmt.uf import world
                    with world(GenericWorld(seed=5)), eager_world(GenericWorld(seed=5)):
                        eager = jax.tree_util.tree_leaves(f(*args))
                        jitted = jax.tree_util.tree_leaves(eqx.filter_jit(f)(*args))
                bad = any(np.shape(a) != np.shape(b) or not np.allclose(concrete.real_to_float(a), concrete.real_to_float(b), rtol=1e-4, atol=1e-5, equal_nan=True) for a, b in zip(eager, jitted))
                return bad, {"function": f"{ename}.{cname}", "history": "another instance of the class was used eagerly first", "eager": [np.asarray(concrete.real_to_float(a)).reshape(-1)[:6].tolist() for a in eager],
                             "under_filter_jit": [np.asarray(concrete.real_to_float(a)).reshape(-1)[:6].tolist() for a in jitted],
                             "inputs": {n: np.asarray(concrete.real_to_float(v)).reshape(-1)[:6].tolist() for n, v in zip(trT.in_names, vals)}}
            ck.prove(f"eager_equals_traced.{oid}", alias, conj([eq_arr(oE[n], oT[n]) for n in trT.out_names]), replay=rp, nonlinear=True)


def check_mujoco_transparency(ck, names):
    """MuJoCo / G1 components with the physics engine stubbed (uninterpreted, batching rule): traced without Python branching on values, and
    the vmapped component is lane-wise equal to the unbatched one"""
    import lerax.env.mujoco as lm
    from jaxsmt.mjxstubs import MjxStub
    B = 2

    def bstruct(tree):
        return jax.tree_util.tree_map(lambda x: jax.ShapeDtypeStruct((B,) + tuple(x.shape), x.dtype) if hasattr(x, "shape") else x, tree)
    for ename in names:
        if ename.startswith("G1"):
            import lerax.env.unitree.g1 as g1
            env = getattr(g1, ename)()
            model = env.base_model
        else:
            env = getattr(lm, ename)()
            model = env.model
        stub = MjxStub(model)
        ck.stub(*stub.notes(ename))
        with stub, stubs.prng_stubs():
            st = jax.eval_shape(lambda k: env.initial(key=k), jr.key(0))
            act = jax.ShapeDtypeStruct(env.action_space.shape, jnp.float32)
            key = jr.key(0)
            comps = {
                "transition": (lambda s, a, k: env.transition(s, a, key=k), [st, act, key], ["s", "a", "key"]),
                "observation": (lambda s, k: env.observation(s, key=k), [st, key], ["s", "key"]),
                "reward": (lambda s, a, s2, k: env.reward(s, a, s2, key=k), [st, act, st, key], ["s", "a", "s2", "key"]),
                "terminal": (lambda s, k: env.terminal(s, key=k), [st, key], ["s", "key"]),
            }
            for cname, (f, ex, argn) in comps.items():
                try:
                    tr1 = trace(f, *ex, argnames=argn, label=f"{ename}.{cname}")
                    exB = [jr.split(a, B) if (hasattr(a, "dtype") and jax.dtypes.issubdtype(a.dtype, jax.dtypes.prng_key)) else bstruct(a) for a in ex]
                    trB = trace(lambda *a, f=f: jax.vmap(f)(*a), *exB, argnames=argn, label=f"vmap({ename}.{cname})")
                    ok = True
                except jax.errors.TracerBoolConversionError:
                    ok = False
                ck.fact(f"nofork.{ename}.{cname}", ok, "traces without converting a traced value to a Python bool")
                if not ok:
                    continue
                dn = donated_calls(tr1.jaxpr)
                ck.fact(f"arguments_survive.{ename}.{cname}", not dn, f"jit calls inside the component that donate argument buffers: {dn[:4]}")
                itB = Interp()
                SBt = trB.symbols(itB)
                outB = trB.run(itB, SBt)
                goals = []
                for lane in range(B):
                    it1 = Interp()
                    S1 = {n: (arr0(SBt[n][lane]) if not isinstance(SBt[n][lane], np.ndarray) else SBt[n][lane]) for n in tr1.in_names}
                    out1 = tr1.run(it1, S1)
                    for n in tr1.out_names:
                        a = outB[n][lane]
                        a = arr0(a) if not isinstance(a, np.ndarray) else a
                        goals.append(eq_arr(a, out1[n]))
                ck.prove(f"vmap.{ename}.{cname}", [], conj(goals), replay=lambda res, e=ename, c=cname: (True, {"note": f"vmapped {e}.{c} differs from the per-element call (physics stubbed)"}), sample=False, timeout=60)


def check_construction_order(ck):
    """`depends only on its explicit arguments`: the traced program (with its captured constants) of each component of a wrapped environment is
    the same whether the wrapper was built alone in a fresh interpreter process or after other, differently parametrised wrappers (forward and
    reverse order) — a wrapper utility that memoises per-process state keyed on less than its arguments is a violation"""
    import json
    import os
    import subprocess
    import sys
    from concurrent.futures import ThreadPoolExecutor
    from props.c12_worker import targets
    names = [n for n, _ in targets()]
    idx = list(range(len(names)))
    jobs = [("alone:" + names[i], ["--only", str(i)]) for i in idx] + [("forward", ["--order", ",".join(map(str, idx))]), ("reverse", ["--order", ",".join(map(str, reversed(idx)))])]

    def run(job):
        p = subprocess.run([sys.executable, "-W", "ignore", "-m", "props.c12_worker"] + job[1], capture_output=True, text=True, env=dict(os.environ), cwd=core.ROOT, timeout=900)
        line = [l for l in p.stdout.splitlines() if l.startswith("C12WORKER ")]
        if not line:
            raise RuntimeError("c12_worker failed: " + (p.stderr or p.stdout)[-600:])
        return job[0], json.loads(line[0][len("C12WORKER "):])
    with ThreadPoolExecutor(6) as ex:
        res = dict(ex.map(run, jobs))
    for n in names:
        alone = res["alone:" + n][n]
        for order in ("forward", "reverse"):
            diff = [c for c in alone if alone[c] != res[order][n].get(c)]
            ck.fact(f"construction_order.{n}.{order}", not diff,
                    f"components whose traced program or captured constants differ between the instance built alone in a fresh process and the one built in {order} order "
                    f"among {len(names)} wrappers: {diff}")
    ck.encoded({"function": "transition/observation/reward/truncate of 9 wrapped environments (RescaleAction, RescaleObservation, ClipAction, ClipObservation, TimeLimit), "
                            "each built alone and in two construction orders in fresh processes", "equations": 0, "inputs": 0, "outputs": 0})


def main():
    ck = Check("C12", "transformations transparent, lanes never mix")
    ck.mode = "REAL"
    ck.bound(envs=2, rollout_steps=2, batch=2, replay_sampling="E=2 stacked buffers, capacities 2-3 (2-4 thorough), symbolic fill levels, cells and draw", actions=["Discrete(3)", "Box(2)"] if ck.thorough else ["Discrete(3)", "Box(2) (on-policy)"])
    ck.stub("environment and policy uninterpreted (lanes statement)", *stubs.ODE_NOTES, "PRNG samplers: contract stubs (uf of the key), keys: free algebra",
            "probe subclasses cut `train` out of iteration() to expose the collected data (the collection code is the real one)")
    ck.out("floating-point reassociation differences between modes", "MuJoCo component equivalence under vmap is shown with the physics engine stubbed (2 environments quick, all 11 thorough); G1 components and the real MJX kernels under vmap are outside the claim",
           "XLA numerics of jit vs eager", "eager calls of components whose traced program has control flow (an eager recording is a single path); eager calls of the "
           "wrappers, MuJoCo and G1 environments (the eager-mode recorder is applied to the classic-control components)")
    for kind in (("discrete", "box")):
        with ck.section(f"onpolicy.{kind}"):
            check_onpolicy_lanes(ck, kind)
    # more steps than environments (with E == S a reshape and a transposition of the two leading axes coincide)
    with ck.section("onpolicy.discrete.E=2,S=3"):
        check_onpolicy_lanes(ck, "discrete", E=2, S_=3)
    for kind in (("discrete", "box") if ck.thorough else ("box",)):
        with ck.section(f"offpolicy.{kind}"):
            check_offpolicy_lanes(ck, kind)
    with ck.section("offpolicy.warmup.box"):
        check_offpolicy_warmup_lanes(ck, "box")
    # the rows handed to training from the stacked per-environment replay buffers: every leaf of a sampled row comes from one slot of ONE environment
    # (the obligations of C06's vectorised sampling section, E=2 with independent symbolic fill levels, discharged here as part of `never mix`)
    for C_, B_ in (((2, 1), (3, 2)) if not ck.thorough else ((2, 1), (2, 3), (3, 2), (4, 5))):
        with ck.section(f"offpolicy.training_rows@E=2,C={C_},B={B_}"):
            from props import C06
            C06.sec_sample(ck, C_, 2, B_)
    with ck.section("pytree_roundtrip"):
        check_pytree_roundtrip(ck)
    with ck.section("env_transparency"):
        check_env_transparency(ck)
    with ck.section("construction_order"):
        check_construction_order(ck)
    with ck.section("eager_equals_traced"):
        check_eager_equals_traced(ck)
    mj = ["HalfCheetah", "InvertedPendulum"] if not ck.thorough else ["Ant", "HalfCheetah", "Hopper", "Humanoid", "HumanoidStandup", "InvertedDoublePendulum", "InvertedPendulum", "Pusher", "Reacher",
                                                                      "Swimmer", "Walker2d"]
    for ename in mj:
        with ck.section(f"mujoco_transparency.{ename}"):
            check_mujoco_transparency(ck, [ename])
    ck.finish("The vectorised collection code path of iteration() (filter_vmap(collect_rollout) over per-environment step states and split keys) and the "
              "single-environment collect_rollout are both traced over an uninterpreted environment/policy; every output lane (env state, step count, "
              "policy state, observations, actions, rewards, dones, log-probs, values, returns, advantages; replay rows for off-policy) is shown equal to "
              "the single-environment result from (state[e], split(rollout_key,E)[e]), and lane 0 is shown invariant under arbitrary changes of lane 1 "
              "(2-safety). Every component of the classic-control environments traces without Python branching on traced values and its vmapped jaxpr is "
              "shown lane-wise equal to the unbatched one. The program an EAGER call of a classic-control component executes (recorded primitive by primitive from a "
              "real eager call made after another instance of the class was used) is shown equal to the traced program as a function of every array leaf "
              "of (environment, state, action, key), and to read no array besides those.")


if __name__ == "__main__":
    main()
