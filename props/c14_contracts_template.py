"""CrossHair contracts over the real lerax space classes (template: props/c14_xhair.py substitutes the bounds and
writes the result under $VERIF_SCRATCH).  Arity 1..@L@; component sizes are arbitrary positive integers for
equality, and 1..@NH@-1 for hashing (hash() makes CrossHair enumerate the integers)."""
from collections import OrderedDict

from lerax.space import Dict, Discrete, MultiBinary, MultiDiscrete, Tuple

KEYS = ("a", "b", "c")


def leaf(kind: int, l: int, a: int, b: int):
    """a leaf space chosen by symbolic integers and its description as plain Python data"""
    if kind == 0:
        return Discrete(a), ("Discrete", a)
    if kind == 1:
        v = (a, b)[:l]
        return MultiDiscrete(v), ("MultiDiscrete", v)
    v = (a, b)[:l]
    return MultiBinary(v), ("MultiBinary", v)


def same_hash(x, y) -> bool:
    """hash() answers (does not raise) and agrees"""
    try:
        return hash(x) == hash(y)
    except TypeError:
        return False


# ---------------------------------------------------------------- leaves
def discrete_eq(a: int, b: int) -> bool:
    """
    pre: 0 < a and 0 < b
    post: __return__
    """
    s, t = Discrete(a), Discrete(b)
    eq = s == t
    return eq == (a == b) and (s != t) == (not eq)


def discrete_hash(a: int, b: int) -> bool:
    """
    pre: 0 < a < 8 and a == b
    post: __return__
    """
    return same_hash(Discrete(a), Discrete(b))


def multidiscrete_eq(l1: int, l2: int, a0: int, a1: int, a2: int, b0: int, b1: int, b2: int) -> bool:
    """
    pre: 1 <= l1 <= @L@ and 1 <= l2 <= @L@
    pre: all(0 < n for n in (a0, a1, a2, b0, b1, b2))
    post: __return__
    """
    u, v = (a0, a1, a2)[:l1], (b0, b1, b2)[:l2]
    return (MultiDiscrete(u) == MultiDiscrete(v)) == (u == v)


def multidiscrete_hash(l: int, a0: int, a1: int, a2: int, b0: int, b1: int, b2: int) -> bool:
    """
    pre: 1 <= l <= @L@
    pre: all(0 < n < @NH@ for n in (a0, a1, a2)[:l]) and (a0, a1, a2)[:l] == (b0, b1, b2)[:l]
    post: __return__
    """
    return same_hash(MultiDiscrete((a0, a1, a2)[:l]), MultiDiscrete((b0, b1, b2)[:l]))


def multibinary_eq(l1: int, l2: int, a0: int, a1: int, a2: int, b0: int, b1: int, b2: int) -> bool:
    """
    pre: 1 <= l1 <= @L@ and 1 <= l2 <= @L@
    pre: all(0 < n for n in (a0, a1, a2, b0, b1, b2))
    post: __return__
    """
    u, v = (a0, a1, a2)[:l1], (b0, b1, b2)[:l2]
    return (MultiBinary(u) == MultiBinary(v)) == (u == v)


def multibinary_hash(l: int, a0: int, a1: int, a2: int, b0: int, b1: int, b2: int) -> bool:
    """
    pre: 1 <= l <= @L@
    pre: all(0 < n < @NH@ for n in (a0, a1, a2)[:l]) and (a0, a1, a2)[:l] == (b0, b1, b2)[:l]
    post: __return__
    """
    return same_hash(MultiBinary((a0, a1, a2)[:l]), MultiBinary((b0, b1, b2)[:l]))


def multibinary_int_form(a: int, b: int) -> bool:
    """
    pre: 0 < a and 0 < b
    post: __return__
    """
    return (MultiBinary(a) == MultiBinary((b,))) == (a == b)


def multibinary_int_form_hash(a: int, b: int) -> bool:
    """
    pre: 0 < a < 8 and a == b
    post: __return__
    """
    return same_hash(MultiBinary(a), MultiBinary((b,)))


def leaf_kinds_eq(k1: int, k2: int, l1: int, l2: int, a0: int, a1: int, b0: int, b1: int) -> bool:
    """
    pre: 0 <= k1 <= 2 and 0 <= k2 <= 2 and 1 <= l1 <= 2 and 1 <= l2 <= 2
    pre: all(0 < n for n in (a0, a1, b0, b1))
    post: __return__
    """
    s, ds = leaf(k1, l1, a0, a1)
    t, dt = leaf(k2, l2, b0, b1)
    return (s == t) == (ds == dt)


def leaf_vs_non_space(k: int, l: int, a: int, b: int) -> bool:
    """
    pre: 0 <= k <= 2 and 1 <= l <= 2 and 0 < a and 0 < b
    post: __return__
    """
    s, d = leaf(k, l, a, b)
    return not (s == a) and not (s == (a, b)[:l]) and not (s == d) and not (s == None)  # noqa: E711


# ---------------------------------------------------------------- Tuple
def tuple_eq(l1: int, l2: int, a0: int, a1: int, a2: int, b0: int, b1: int, b2: int) -> bool:
    """
    pre: 1 <= l1 <= @L@ and 1 <= l2 <= @L@
    pre: all(0 < n for n in (a0, a1, a2, b0, b1, b2))
    post: __return__ == ((a0, a1, a2)[:l1] == (b0, b1, b2)[:l2])
    """
    s = Tuple(tuple(Discrete(n) for n in (a0, a1, a2)[:l1]))
    t = Tuple(tuple(Discrete(n) for n in (b0, b1, b2)[:l2]))
    return s == t


def tuple_hash(l: int, a0: int, a1: int, a2: int, b0: int, b1: int, b2: int) -> bool:
    """
    pre: 1 <= l <= @L@
    pre: all(0 < n < @NH@ for n in (a0, a1, a2)[:l]) and (a0, a1, a2)[:l] == (b0, b1, b2)[:l]
    post: __return__
    """
    s = Tuple(tuple(Discrete(n) for n in (a0, a1, a2)[:l]))
    t = Tuple(tuple(Discrete(n) for n in (b0, b1, b2)[:l]))
    return same_hash(s, t)


def tuple_mixed_eq(n1: int, n2: int, k0: int, k1: int, j0: int, j1: int, a0: int, a1: int, b0: int, b1: int) -> bool:
    """
    pre: 1 <= n1 <= 2 and 1 <= n2 <= 2
    pre: all(0 <= k <= 2 for k in (k0, k1, j0, j1))
    pre: all(0 < n for n in (a0, a1, b0, b1))
    post: __return__
    """
    p = [leaf(k0, 1, a0, a0), leaf(k1, 1, a1, a1)][:n1]
    q = [leaf(j0, 1, b0, b0), leaf(j1, 1, b1, b1)][:n2]
    s, t = Tuple(tuple(x for x, _ in p)), Tuple(tuple(x for x, _ in q))
    return (s == t) == ([d for _, d in p] == [d for _, d in q])


def tuple_mixed_hash(n: int, k0: int, k1: int, a0: int, a1: int) -> bool:
    """
    pre: 1 <= n <= 2 and 0 <= k0 <= 2 and 0 <= k1 <= 2 and 0 < a0 < @NH@ and 0 < a1 < @NH@
    post: __return__
    """
    s = Tuple(tuple(x for x, _ in [leaf(k0, 1, a0, a0), leaf(k1, 1, a1, a1)][:n]))
    t = Tuple(tuple(x for x, _ in [leaf(k0, 1, a0, a0), leaf(k1, 1, a1, a1)][:n]))
    return same_hash(s, t)


def tuple_vs_non_space(l: int, a0: int, a1: int) -> bool:
    """
    pre: 1 <= l <= 2 and 0 < a0 and 0 < a1
    post: __return__
    """
    parts = tuple(Discrete(n) for n in (a0, a1)[:l])
    s = Tuple(parts)
    return not (s == parts) and not (s == parts[0]) and not (s == None)  # noqa: E711


# ---------------------------------------------------------------- Dict
def dict_items(n: int, i0: int, i1: int, a0: int, a1: int):
    return [(KEYS[i0], Discrete(a0)), (KEYS[i1], Discrete(a1))][:n], [(KEYS[i0], a0), (KEYS[i1], a1)][:n]


def dict_eq(n1: int, n2: int, i0: int, i1: int, j0: int, j1: int, a0: int, a1: int, b0: int, b1: int) -> bool:
    """
    pre: 1 <= n1 <= 2 and 1 <= n2 <= 2
    pre: all(0 <= i <= 2 for i in (i0, i1, j0, j1)) and i0 != i1 and j0 != j1
    pre: all(0 < n for n in (a0, a1, b0, b1))
    post: __return__
    """
    p, dp = dict_items(n1, i0, i1, a0, a1)
    q, dq = dict_items(n2, j0, j1, b0, b1)
    eq = Dict(OrderedDict(p)) == Dict(OrderedDict(q))
    if dp == dq:
        return eq            # same keys, same order, same component spaces
    if dict(dp) != dict(dq):
        return not eq        # a key or a component differs
    return True              # same mapping in another key order: left open by the statement


def dict_hash(n: int, i0: int, i1: int, a0: int, a1: int) -> bool:
    """
    pre: 1 <= n <= 2 and 0 <= i0 <= 2 and 0 <= i1 <= 2 and i0 != i1 and 0 < a0 < @NH@ and 0 < a1 < @NH@
    post: __return__
    """
    p, _ = dict_items(n, i0, i1, a0, a1)
    q, _ = dict_items(n, i0, i1, a0, a1)
    return same_hash(Dict(OrderedDict(p)), Dict(OrderedDict(q)))


def dict_eq_implies_hash(n: int, rev: bool, i0: int, i1: int, a0: int, a1: int, b0: int, b1: int) -> bool:
    """
    pre: 1 <= n <= 2 and 0 <= i0 <= 2 and 0 <= i1 <= 2 and i0 != i1
    pre: all(0 < v < @NH@ for v in (a0, a1, b0, b1))
    post: __return__
    """
    p, _ = dict_items(n, i0, i1, a0, a1)
    q, _ = dict_items(n, i0, i1, b0, b1)
    if rev:
        q = q[::-1]
    s, t = Dict(OrderedDict(p)), Dict(OrderedDict(q))
    return (not (s == t)) or same_hash(s, t)      # whatever == decides about key order, hashing must follow it


def dict_vs_non_space(n: int, i0: int, i1: int, a0: int, a1: int) -> bool:
    """
    pre: 1 <= n <= 2 and 0 <= i0 <= 2 and 0 <= i1 <= 2 and i0 != i1 and 0 < a0 and 0 < a1
    post: __return__
    """
    p, _ = dict_items(n, i0, i1, a0, a1)
    s = Dict(OrderedDict(p))
    return not (s == OrderedDict(p)) and not (s == dict(p)) and not (s == p[0][1]) and not (s == None)  # noqa: E711


# ---------------------------------------------------------------- nestings (depth 2)
def nested_tuple_of_dict(i: int, j: int, a: int, b: int, c: int, d: int, l1: int, l2: int) -> bool:
    """
    pre: 0 <= i <= 2 and 0 <= j <= 2 and 1 <= l1 <= 2 and 1 <= l2 <= 2
    pre: all(0 < n for n in (a, b, c, d))
    post: __return__
    """
    s = Tuple((Dict(OrderedDict([(KEYS[i], Discrete(a))])), MultiDiscrete((b, b)[:l1])))
    t = Tuple((Dict(OrderedDict([(KEYS[j], Discrete(c))])), MultiDiscrete((d, d)[:l2])))
    return (s == t) == ((i, a, b, l1) == (j, c, d, l2))


def nested_dict_of_tuple(i: int, j: int, l1: int, l2: int, a0: int, a1: int, b0: int, b1: int) -> bool:
    """
    pre: 0 <= i <= 2 and 0 <= j <= 2 and 1 <= l1 <= 2 and 1 <= l2 <= 2
    pre: all(0 < n for n in (a0, a1, b0, b1))
    post: __return__
    """
    s = Dict(OrderedDict([(KEYS[i], Tuple(tuple(Discrete(n) for n in (a0, a1)[:l1])))]))
    t = Dict(OrderedDict([(KEYS[j], Tuple(tuple(Discrete(n) for n in (b0, b1)[:l2])))]))
    return (s == t) == (i == j and (a0, a1)[:l1] == (b0, b1)[:l2])


def nested_tuple_of_tuple(l1: int, l2: int, a0: int, a1: int, b0: int, b1: int, c: int, d: int) -> bool:
    """
    pre: 1 <= l1 <= 2 and 1 <= l2 <= 2
    pre: all(0 < n for n in (a0, a1, b0, b1, c, d))
    post: __return__
    """
    s = Tuple((Tuple(tuple(Discrete(n) for n in (a0, a1)[:l1])), MultiBinary(c)))
    t = Tuple((Tuple(tuple(Discrete(n) for n in (b0, b1)[:l2])), MultiBinary(d)))
    return (s == t) == ((a0, a1)[:l1] == (b0, b1)[:l2] and c == d)


def nested_hash(i: int, l: int, a0: int, a1: int, c: int) -> bool:
    """
    pre: 0 <= i <= 2 and 1 <= l <= 2 and 0 < a0 < @NH@ and 0 < a1 < @NH@ and 0 < c < @NH@
    post: __return__
    """
    def mk():
        inner = Tuple(tuple(Discrete(n) for n in (a0, a1)[:l]))
        return Tuple((Dict(OrderedDict([(KEYS[i], inner)])), Tuple((inner, MultiBinary(c)))))
    return same_hash(mk(), mk())


# ---------------------------------------------------------------- negative controls (deliberately wrong contracts)
def control_discrete_eq_ignores_size(a: int, b: int) -> bool:
    """
    pre: 0 < a and 0 < b
    post: __return__
    """
    return Discrete(a) == Discrete(b)


def control_tuple_hash_distinguishes_nothing(a: int, b: int) -> bool:
    """
    pre: 0 < a < @NH@ and 0 < b < @NH@
    post: __return__
    """
    return same_hash(Tuple((Discrete(a),)), Tuple((Discrete(b),)))
