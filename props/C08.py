"""C08 — on-policy losses equal the published objectives (PPO clip, A2C, REINFORCE)."""
import math
from fractions import Fraction

import equinox as eqx
import jax
import jax.numpy as jnp
import numpy as np
import z3

from jaxsmt import concrete, core, solve
from jaxsmt.core import Check, conj, disj, eq_arr, eq_elem, implies, neg
from jaxsmt.harness import UFACPolicy, UFCall, UFEnv
from jaxsmt.interp import Interp
from jaxsmt.lossharness import (Replay, TabACPolicy, bool_int_arr, differs, flat, pick, safe_log, uf_optimizer, within, zabs, zclip,
                                zmax, zmin)
from jaxsmt.trace import trace

from lerax.algorithm import A2C, PPO, REINFORCE
from lerax.buffer import RolloutBuffer
from lerax.space import Discrete

EVS = [((1,), "float32")] + [((), "float32")] * 3
F32EPS = Fraction(float(np.finfo(np.float32).eps))
OUTS = {"ppo": ["loss", "approx_kl", "total", "policy", "value", "entropy"], "a2c": ["loss", "total", "policy", "value", "entropy"],
        "reinforce": ["loss", "total", "policy", "value"]}


def mkbuf(B, tab=False):
    obs = jnp.zeros(B, int) if tab else jnp.zeros((B, 2))
    return RolloutBuffer(observations=obs, actions=jnp.zeros(B, int), rewards=jnp.zeros(B), dones=jnp.zeros(B, bool), log_probs=jnp.zeros(B),
                         values=jnp.zeros(B), states=None, returns=jnp.zeros(B), advantages=jnp.zeros(B))


def loss_fn(algo, NORM, CLIPV):
    """the REAL static loss functions; flags are static configuration, coefficients are symbolic inputs"""
    if algo == "ppo":
        def f(pol, buf, cc, vc, ec):
            loss, st = PPO.ppo_loss(pol, buf, NORM, cc, CLIPV, vc, ec)
            return {"loss": loss, "approx_kl": st.approx_kl, "total": st.total_loss, "policy": st.policy_loss, "value": st.value_loss, "entropy": st.entropy_loss}
    elif algo == "a2c":
        def f(pol, buf, cc, vc, ec):
            loss, st = A2C.a2c_loss(pol, buf, NORM, vc, ec)
            return {"loss": loss, "total": st.total_loss, "policy": st.policy_loss, "value": st.value_loss, "entropy": st.entropy_loss}
    else:
        def f(pol, buf, cc, vc, ec):
            loss, st = REINFORCE.reinforce_loss(pol, buf, NORM, vc)
            return {"loss": loss, "total": st.total_loss, "policy": st.policy_loss, "value": st.value_loss}
    return f


def grad_fn(algo, NORM, CLIPV):
    """the repo's own *_loss_grad functions (JAX differentiates the REAL loss)"""
    def f(pol, buf, cc, vc, ec):
        if algo == "ppo":
            (loss, st), g = PPO.ppo_loss_grad(pol, buf, NORM, cc, CLIPV, vc, ec)
        elif algo == "a2c":
            (loss, st), g = A2C.a2c_loss_grad(pol, buf, NORM, vc, ec)
        else:
            (loss, st), g = REINFORCE.reinforce_loss_grad(pol, buf, NORM, vc)
        return {"loss": loss, "g_logp": g.logp, "g_val": g.val, "g_ent": g.ent}
    return f


def trace_loss(algo, B, NORM, CLIPV):
    pol = UFACPolicy(UFEnv(Discrete(3)), stateful=False)
    return trace(loss_fn(algo, NORM, CLIPV), pol, mkbuf(B), jnp.array(.2), jnp.array(.5), jnp.array(.01), argnames=["pol", "buf", "cc", "vc", "ec"],
                 label=f"{algo.upper()}.{algo}_loss[normalize_advantages={NORM},clip_value_loss={CLIPV},B={B}]")


# ----------------------------------------------------------------------------- the statement's formulas, written independently
class Ref:
    """reference terms over the same symbols: policy outputs are the uninterpreted EV(theta, obs_i, action_i)"""

    def __init__(self, it, S, B, NORM, eps):
        U = UFCall(it)
        self.B, self.S, self.it = B, S, it
        self.v, self.lp, self.ent = [], [], []
        for i in range(B):
            _, vi, lpi, ei = U("EV", EVS, S["pol_theta"], S["buf_observations"][i], S["buf_actions"][i])
            self.v.append(vi[()])
            self.lp.append(lpi[()])
            self.ent.append(ei[()])
        self.oldlp, self.oldv, self.ret = list(S["buf_log_probs"]), list(S["buf_values"]), list(S["buf_returns"])
        self.raw_adv = list(S["buf_advantages"])
        self.adv = normalise(it, self.raw_adv, eps) if NORM else self.raw_adv
        self.ratio = [it.o.unary("exp", self.lp[i] - self.oldlp[i]) for i in range(B)]
        self.cc, self.vc, self.ec = S["cc"][()], S["vc"][()], S["ec"][()]

    def uf_outputs(self):
        return self.v + self.lp + self.ent


def normalise(it, adv, eps, ddof=0):
    n = len(adv)
    mean = sum(adv) / n
    var = sum((a - mean) * (a - mean) for a in adv) / (n - ddof)
    sd = it.o.unary("sqrt", var)
    return [(a - mean) / (sd + z3.RealVal(eps)) for a in adv]


def ppo_policy(R, wrong=None):
    """-E[min(r*A, clip(r, 1-eps, 1+eps)*A)]"""
    tot = 0
    for i in range(R.B):
        r, A = R.ratio[i], R.adv[i]
        if wrong == "one_sided":
            c = z3.If(r > 1 + R.cc, 1 + R.cc, r)
        else:
            c = zclip(r, 1 - R.cc, 1 + R.cc)
        tot = tot + zmin(r * A, c * A)
    return -tot / R.B


def pg_policy(R):
    """-E[log pi * A]"""
    return -sum(R.lp[i] * R.adv[i] for i in range(R.B)) / R.B


def value_err(R, CLIPV, wrong=None):
    """mean squared value error; with value clipping the larger of the clipped and unclipped errors (no 1/2: the
    statement fixes the term only up to a positive constant)"""
    tot = 0
    for i in range(R.B):
        e = (R.v[i] - R.ret[i]) * (R.v[i] - R.ret[i])
        if CLIPV and wrong != "unclipped":
            vc = R.oldv[i] + zclip(R.v[i] - R.oldv[i], -R.cc, R.cc)
            e = zmax(e, (vc - R.ret[i]) * (vc - R.ret[i]))
        if wrong == "abs":
            e = zabs(R.v[i] - R.ret[i])
        tot = tot + e
    return tot / R.B


def entropy_term(R):
    return -sum(R.ent) / R.B


# float64 references used at replay time only
def np_adv(adv, NORM, eps):
    a = np.asarray(adv, np.float64)
    return (a - a.mean()) / (a.std() + float(eps)) if NORM else a


def np_terms(algo, v, lp, ent, buf, cc, NORM, CLIPV, eps):
    v, lp, ent = (np.asarray(x, np.float64) for x in (v, lp, ent))
    oldlp, oldv, ret = (np.asarray(x, np.float64) for x in (buf.log_probs, buf.values, buf.returns))
    A = np_adv(buf.advantages, NORM, eps)
    if algo == "ppo":
        r = np.exp(lp - oldlp)
        P = -np.mean(np.minimum(r * A, np.clip(r, 1 - cc, 1 + cc) * A))
    else:
        P = -np.mean(lp * A)
    e = (v - ret) ** 2
    if CLIPV and algo == "ppo":
        e = np.maximum(e, (oldv + np.clip(v - oldv, -cc, cc) - ret) ** 2)
    return {"policy": float(P), "value_ref": float(e.mean()), "entropy": float(-ent.mean())}


def policy_outputs(rpl):
    """the UF policy evaluated on the replay batch under the model's interpretation"""
    pol, buf, cc, vc, ec = rpl.args()
    _, v, lp, ent = rpl.call(lambda: jax.vmap(pol.evaluate_action)(buf.states, buf.observations, buf.actions, action_mask=buf.action_masks))
    return pol, buf, float(cc), float(vc), float(ec), np.asarray(v, np.float64), np.asarray(lp, np.float64), np.asarray(ent, np.float64)


def repair_ratios(rpl, R):
    """choose the stored log-probs so that the TRUE exp gives the ratio of the model (exp is uninterpreted in the query)"""
    new = []
    for l, r, o in zip(R.lp, R.ratio, R.oldlp):
        lv, rv, ov = rpl.val(l), rpl.val(r), rpl.val(o)
        new.append(lv - math.log(rv) if (rv == rv and rv > 0 and lv == lv) else ov)
    rpl.set("buf_log_probs", new)


# ----------------------------------------------------------------------------- value obligations
def identify_eps(ck):
    """The statement says 'advantage normalisation' without fixing the regulariser added to the standard deviation.
    It is identified from the IR: exact rational evaluation of the traced PPO loss on one point where
    policy_loss = -cc / (2 (1 + eps)); it must be a tiny positive constant, otherwise float32 machine epsilon is used
    and the solver/replay decide."""
    try:
        pol = TabACPolicy(2, 1)
        tr = trace(loss_fn("ppo", True, False), pol, mkbuf(2, tab=True), jnp.array(.5), jnp.array(.5), jnp.array(0.), argnames=["pol", "buf", "cc", "vc", "ec"])
        vals = {n: jnp.zeros(av.shape, av.dtype) for n, av in zip(tr.in_names, tr.in_avals)}
        vals["buf_observations"] = jnp.array([0, 1])
        vals["buf_log_probs"] = jnp.array([0., -8.])
        vals["buf_advantages"] = jnp.array([-1., 1.])
        vals["cc"] = jnp.array(.5)
        ci = concrete.ConcInterp()
        outs = ci.run(tr.jaxpr, tr.consts, [concrete.lift_leaf(ci, vals[n], av) for n, av in zip(tr.in_names, tr.in_avals)])
        p = dict(zip(tr.out_names, outs))["policy"][()]
        e = Fraction(-1, 4) / Fraction(p) - 1
        if 0 < e <= Fraction(1, 10 ** 6):
            ck.notes.append(f"normalisation regulariser identified from the IR: {float(e):.3e}")
            return e
        ck.notes.append(f"normalisation regulariser could not be identified as a tiny positive constant (got {float(e):.3e}); float32 eps used")
    except Exception as ex:  # noqa: BLE001
        ck.notes.append(f"regulariser identification failed ({ex!r}); float32 eps used")
    return F32EPS


def bounds_for(R, S):
    xs = flat(S["buf_log_probs"], S["buf_values"], S["buf_returns"], S["buf_advantages"], S["vc"], S["ec"]) + R.uf_outputs()
    return within(xs, -3, 3) + within(R.ratio, Fraction(1, 5), 5) + [R.cc >= Fraction(1, 20), R.cc <= Fraction(9, 10)]


def sec_loss(ck, algo, B, NORM, CLIPV, eps, controls=False, timeout=None):
    tag = f"B={B},norm={int(NORM)}" + (f",clip={int(CLIPV)}" if algo == "ppo" else "")
    tr = trace_loss(algo, B, NORM, CLIPV)
    ck.encoded(tr)
    concrete.validate(ck, tr, n=1, seed=ck.seed + B)
    it = Interp()
    S = tr.symbols(it)
    out = tr.run(it, S)
    R = Ref(it, S, B, NORM, eps)
    o = {k: out[k][()] for k in OUTS[algo]}
    asm = [R.cc > 0, R.cc < 1] if algo == "ppo" else []
    P = ppo_policy(R) if algo == "ppo" else pg_policy(R)
    bnd = bounds_for(R, S)

    def rp_exact(which):
        def rp(res):
            rpl = Replay(tr, S, res, it.uf_apps)
            if algo == "ppo":
                repair_ratios(rpl, R)
            pol, buf, cc, vc, ec, v, lp, ent = policy_outputs(rpl)
            real = rpl.run()
            want = np_terms(algo, v, lp, ent, buf, cc, NORM, CLIPV, eps)
            diffs = {}
            for k in which:
                if k == "total":
                    w = real["policy"] + vc * real["value"] + (ec * real["entropy"] if "entropy" in real else 0.0)
                    if differs(real["total"], w) or differs(real["loss"], real["total"]):
                        diffs[k] = {"real_total": float(real["total"]), "real_loss": float(real["loss"]), "policy+c_v*value+c_e*entropy": float(w)}
                elif differs(real[k], want[k]):
                    diffs[k] = {"real_code": float(real[k]), "float64_reference": want[k]}
            return bool(diffs), {"function": tr.label, "inputs": rpl.inputs_json(), "policy_outputs": {"values": v.tolist(), "log_probs": lp.tolist(), "entropy": ent.tolist()},
                                 "real_outputs": {k: float(x) for k, x in real.items()}, "differences": diffs}
        return rp

    def margin(a, b, m=Fraction(1, 50)):
        return implies(conj(bnd), zabs(a - b) <= m)

    # ---- policy term (exact)
    pid = ("ppo.adv_norm" if NORM else "ppo.policy_term") if algo == "ppo" else f"{algo}.terms.policy"
    ck.prove(f"{pid}@{tag}", asm, o["policy"] == P, replay=rp_exact(["policy"]), margin_goal=margin(o["policy"], P), nonlinear=True, timeout=timeout)
    # ---- entropy term (exact)
    if "entropy" in o:
        E = entropy_term(R)
        eid = "ppo.entropy_term" if algo == "ppo" else f"{algo}.terms.entropy"
        ck.prove(f"{eid}@{tag}", asm, o["entropy"] == E, replay=rp_exact(["entropy"]), margin_goal=margin(o["entropy"], E), nonlinear=True)
    # ---- total = policy + c_v * value + c_e * entropy on the implementation's own components; the returned loss is that total
    tot = o["policy"] + R.vc * o["value"] + (R.ec * o["entropy"] if "entropy" in o else 0)
    tid = "ppo.total" if algo == "ppo" else f"{algo}.terms.total"
    ck.prove(f"{tid}@{tag}", asm, conj([o["total"] == tot, eq_elem(o["loss"], o["total"])]), replay=rp_exact(["total"]),
             margin_goal=margin(o["total"], tot), nonlinear=True)
    # ---- value term, fixed by the statement only up to ONE positive constant (DESIGN 1.4b):
    #   B = 1: proportionality + sign as a two-instance query;  B > 1: the batch value is the MEAN of the implementation's own
    #   single-sample values (shared sub-results), so the same constant holds for every batch size (mean, not sum)
    vid = f"ppo.value_term@clip={int(CLIPV)},B={B},norm={int(NORM)}" if algo == "ppo" else f"{algo}.terms.value@{tag}"
    L = o["value"]
    S2 = R2 = L2 = None
    if B == 1:
        S2 = tr.symbols(it, prefix="alt_")
        out2 = tr.run(it, S2)
        R2 = Ref(it, S2, B, NORM, eps)
        asm2 = asm + ([R2.cc > 0, R2.cc < 1] if algo == "ppo" else [])
        V, V2 = value_err(R, CLIPV), value_err(R2, CLIPV)
        L2 = out2["value"][()]
        bnd2 = bnd + bounds_for(R2, S2)
        ck.prove(vid, asm2, conj([L * V2 == L2 * V, implies(V > 0, L > 0)]),
                 replay=rp_value(tr, S, S2, it, R, R2, algo, NORM, CLIPV, eps),
                 margin_goal=implies(conj(bnd2), conj([zabs(L * V2 - L2 * V) <= Fraction(1, 20), implies(V > Fraction(1, 10), L > Fraction(1, 1000))])), nonlinear=True)
    else:
        tr1 = trace_loss(algo, 1, NORM, CLIPV)
        singles = []
        for i in range(B):
            S1 = {n: (S[n][i:i + 1] if n.startswith("buf_") else S[n]) for n in tr1.in_names}
            singles.append((S1, tr1.run(it, S1)["value"][()]))

        def rp_mean(res):
            rpl = Replay(tr, S, res, it.uf_apps)
            real = float(rpl.run()["value"])
            ones = [float(Replay(tr1, S1, res, it.uf_apps).run()["value"]) for S1, _ in singles]
            return differs(real, float(np.mean(ones))), {"function": tr.label, "inputs": rpl.inputs_json(), "real_value_loss_of_batch": real, "real_value_loss_of_each_sample_alone": ones,
                                                          "what": "the value term of a batch must be the mean of the value terms of its samples"}
        ck.prove(vid, asm, L == sum(v for _, v in singles) / B, replay=rp_mean, nonlinear=True, sample=False,
                 margin_goal=implies(conj(bnd), zabs(L - sum(v for _, v in singles) / B) <= Fraction(1, 50)))

    if algo == "ppo":
        # ---- on data collected by the current policy: every ratio is 1 (the surrogate is -mean(A)) and the approximate KL is 0
        onp = [R.oldlp[i] == R.lp[i] for i in range(B)]

        def rp_kl(res):
            rpl = Replay(tr, S, res, it.uf_apps)
            pol, buf, cc, vc, ec, v, lp, ent = policy_outputs(rpl)
            rpl.set("buf_log_probs", lp)
            real = rpl.run()
            want = -float(np.mean(np_adv(rpl.get("buf_advantages"), NORM, eps)))
            bad = abs(float(real["approx_kl"])) > 1e-4 or differs(real["policy"], want)
            return bad, {"function": tr.label, "inputs": rpl.inputs_json(), "approx_kl": float(real["approx_kl"]), "policy_loss": float(real["policy"]), "minus_mean_advantage": want}
        ck.prove(f"ppo.kl_zero_on_policy@{tag}", asm + onp, conj([o["approx_kl"] == 0, o["policy"] == -sum(R.adv) / B]), replay=rp_kl, nonlinear=True, timeout=timeout)
        if controls:
            ck.witness(f"witness.on_policy_reachable@{tag}", asm + onp, nonlinear=True)

    if controls:
        if algo == "ppo":
            if B > 1:
                ck.control(f"control.one_sided_clip@{tag}", asm, o["policy"] == ppo_policy(R, "one_sided"), nonlinear=True)
            if B == 1:
                wrongV, wrongV2 = (value_err(R, CLIPV, "unclipped"), value_err(R2, CLIPV, "unclipped")) if CLIPV else (value_err(R, CLIPV, "abs"), value_err(R2, CLIPV, "abs"))
                ck.control(f"control.value_{'unclipped' if CLIPV else 'abs_error'}@{tag}", asm2, L * wrongV2 == L2 * wrongV, nonlinear=True)
            else:
                ck.control(f"control.value_sum_not_mean@{tag}", asm, L == sum(v for _, v in singles), nonlinear=True)
            if NORM and B > 1:
                Rw = Ref(it, S, B, False, eps)
                Rw.adv = normalise(it, Rw.raw_adv, eps, ddof=1)
                ck.control(f"control.std_ddof1@{tag}", asm, o["policy"] == ppo_policy(Rw), nonlinear=True)
        elif B > 1:
            ck.control(f"control.{algo}.sign@{tag}", asm, o["policy"] == -pg_policy(R), nonlinear=True)
    return tr, it, S, out, R


def rp_value(tr, S, S2, it, R, R2, algo, NORM, CLIPV, eps, trB=None):
    """replay of a proportionality counterexample: both instances on the real code, reference in float64"""
    trB = trB or tr

    def rp(res):
        a = Replay(tr, S, res, it.uf_apps)
        b = Replay(trB, S2, res, it.uf_apps)
        rows = []
        for rpl in (a, b):
            pol, buf, cc, vc, ec, v, lp, ent = policy_outputs(rpl)
            real = rpl.run()
            want = np_terms(algo, v, lp, ent, buf, cc, NORM, CLIPV, eps)
            rows.append((float(real["value"]), want["value_ref"], rpl.inputs_json(), v.tolist()))
        (L, V, ia, va), (L2, V2, ib, vb) = rows
        cross = abs(L * V2 - L2 * V)
        bad = cross > 2e-3 * (1 + abs(L * V2)) or (V > 1e-2 and L <= 1e-5) or (V2 > 1e-2 and L2 <= 1e-5)
        return bad, {"function": tr.label, "what": "value_loss must be one positive constant times mean((clipped-max) squared error)",
                     "instance_a": {"inputs": ia, "values": va, "real_value_loss": L, "float64_reference": V, "ratio": (L / V if V else None)},
                     "instance_b": {"inputs": ib, "values": vb, "real_value_loss": L2, "float64_reference": V2, "ratio": (L2 / V2 if V2 else None)}}
    return rp


# ----------------------------------------------------------------------------- gradient obligations (tabular policy)
def int_gen(S_, A_):
    def gen(name, av, rng):
        if name == "buf_observations":
            return jnp.asarray(rng.integers(0, S_, size=av.shape), dtype=av.dtype)
        if name == "buf_actions":
            return jnp.asarray(rng.integers(0, A_, size=av.shape), dtype=av.dtype)
        if name == "cc":
            return jnp.asarray(0.25, dtype=av.dtype)
        return None
    return gen


def sec_grad(ck, B, NORM, CLIPV, eps, S_=2, A_=2, controls=False):
    tag = f"B={B},norm={int(NORM)},clip={int(CLIPV)}"
    pol = TabACPolicy(S_, A_)
    tr = trace(grad_fn("ppo", NORM, CLIPV), pol, mkbuf(B, tab=True), jnp.array(.2), jnp.array(.5), jnp.array(.01), argnames=["pol", "buf", "cc", "vc", "ec"],
               label=f"PPO.ppo_loss_grad[tabular policy {S_}x{A_},normalize_advantages={NORM},clip_value_loss={CLIPV},B={B}]")
    ck.encoded(tr)
    concrete.validate(ck, tr, n=2, seed=ck.seed + 3, gen=int_gen(S_, A_), use_world=False)
    it = Interp()
    S = tr.symbols(it, given={"buf_observations": bool_int_arr("s", (B,), S_), "buf_actions": bool_int_arr("a", (B,), A_)})
    out = tr.run(it, S)
    cc = S["cc"][()]
    s, a = list(S["buf_observations"]), list(S["buf_actions"])
    raw = list(S["buf_advantages"])
    adv = normalise(it, raw, eps) if NORM else raw
    asm = [cc > 0, cc < 1]
    for i in range(B):
        lp_i = pick(S["pol_logp"], s[i], a[i])
        r_i = it.o.unary("exp", lp_i - S["buf_log_probs"][i])
        alone = [neg(z3.And(s[j] == s[i], a[j] == a[i])) for j in range(B) if j != i]
        fav = z3.Or(z3.And(adv[i] > 0, r_i > 1 + cc), z3.And(adv[i] < 0, r_i < 1 - cc))
        g_i = pick(out["g_logp"], s[i], a[i])

        def rp(res, i=i, lp_i=lp_i, r_i=r_i):
            rpl = Replay(tr, S, res)
            old = rpl.get("buf_log_probs")
            old[i] = rpl.val(lp_i) - safe_log(rpl.val(r_i), 0.0)
            rpl.set("buf_log_probs", old)
            pol_, buf, cc_, vc_, ec_ = rpl.args()
            si, ai = int(buf.observations[i]), int(buf.actions[i])
            lp = float(pol_.logp[si, ai])
            ratio = math.exp(lp - float(buf.log_probs[i]))
            A = np_adv(buf.advantages, NORM, eps)[i]
            cc_ = float(cc_)
            only = all((int(buf.observations[j]), int(buf.actions[j])) != (si, ai) for j in range(B) if j != i)
            hyp = only and ((A > 1e-3 and ratio > 1 + cc_ + 1e-3) or (A < -1e-3 and ratio < 1 - cc_ - 1e-3))
            real = rpl.run()
            g = float(real["g_logp"][si, ai])
            return hyp and abs(g) > 1e-5, {"function": tr.label, "inputs": rpl.inputs_json(), "sample": i, "ratio": ratio, "advantage": float(A), "clip": cc_,
                                            "d_loss_d_logp": g, "what": "ratio outside the clip interval on the favoured side must give zero policy gradient"}
        mg = implies(conj(within(flat(S["pol_logp"], S["buf_log_probs"], S["buf_advantages"]), -3, 3) + [cc >= Fraction(1, 10), cc <= Fraction(1, 2), r_i >= Fraction(1, 5), r_i <= 5,
                           z3.Or(z3.And(adv[i] > Fraction(1, 4), r_i > 1 + cc + Fraction(1, 10)), z3.And(adv[i] < -Fraction(1, 4), r_i < 1 - cc - Fraction(1, 10)))]),
                     zabs(g_i) <= Fraction(1, 100))
        ck.prove(f"ppo.grad_zero_when_clipped@{tag},i={i}", asm + alone + [fav], g_i == 0, replay=rp, margin_goal=mg, nonlinear=True)
        if controls and i == 0:
            ck.witness(f"witness.clipped_favoured_reachable@{tag}", asm + alone + [fav], nonlinear=True)
            inside = z3.And(adv[i] > 0, r_i > 1 - cc, r_i < 1 + cc)
            ck.control(f"control.grad_zero_inside_interval@{tag}", asm + alone + [inside], g_i == 0, nonlinear=True)
            unfav = z3.And(adv[i] < 0, r_i > 1 + cc)
            ck.control(f"control.grad_zero_unfavoured_side@{tag}", asm + alone + [unfav], g_i == 0, nonlinear=True)


# ----------------------------------------------------------------------------- optimiser
def sec_train_applies_optimizer(ck, algo_name, B=2, S_=2, A_=2):
    """a training step applies `self.optimizer.update` to the gradient of the loss with the configured flags and
    coefficients: the optimiser is replaced by an uninterpreted gradient transformation OPT(grads, state, params)"""
    kw = dict(num_envs=1, num_steps=B, value_loss_coefficient=0.5, max_grad_norm=0.5)
    NORM, CLIPV = False, False
    # non-default, pairwise different configuration values: a step that ignores or swaps a configured value is refuted
    if algo_name == "ppo":
        algo = PPO(num_batches=1, clip_coefficient=0.125, clip_value_loss=True, entropy_loss_coefficient=0.25, normalize_advantages=True, **kw)
        NORM, CLIPV = True, True
    elif algo_name == "a2c":
        algo = A2C(entropy_loss_coefficient=0.25, normalize_advantages=False, **kw)
    else:
        algo = REINFORCE(normalize_advantages=True, **kw)
        NORM = True
    opt = uf_optimizer()
    algo = eqx.tree_at(lambda a: a.optimizer, algo, opt)
    pol = TabACPolicy(S_, A_)
    st0 = opt.init(eqx.filter(pol, eqx.is_inexact_array))

    def step(pol, st, buf):
        if algo_name == "ppo":
            p, ns, _ = algo.train_batch(pol, st, buf)
        else:
            p, ns, _ = algo.train(pol, st, buf, key=jax.random.key(0))
        return {"logp": p.logp, "val": p.val, "ent": p.ent, "state": ns["s"]}
    tr = trace(step, pol, st0, mkbuf(B, tab=True), argnames=["pol", "st", "buf"], label=f"{type(algo).__name__}.{'train_batch' if algo_name == 'ppo' else 'train'}[optimizer=OPT]")
    trg = trace(grad_fn(algo_name, NORM, CLIPV), pol, mkbuf(B, tab=True), jnp.array(.2), jnp.array(.5), jnp.array(.01), argnames=["pol", "buf", "cc", "vc", "ec"],
                label=f"{algo_name}_loss_grad[tabular]")
    ck.encoded(tr, trg)
    concrete.validate(ck, tr, n=1, seed=ck.seed + 5, gen=int_gen(S_, A_))
    it = Interp()
    S = tr.symbols(it, given={"buf_observations": bool_int_arr("s", (B,), S_), "buf_actions": bool_int_arr("a", (B,), A_)})
    out = tr.run(it, S)
    # the gradient of the real loss with the configured coefficients (exactly representable: no rounding of the constants)
    Sg = {n: S[n] for n in trg.in_names if n in S}
    Sg.update(cc=it.lift(np.float32(0.125)), vc=it.lift(np.float32(0.5)), ec=it.lift(np.float32(0.25)))
    G = trg.run(it, Sg)
    U = UFCall(it)
    params = [S["pol_logp"], S["pol_val"], S["pol_ent"]]
    upd = U("OPT", [((S_, A_), "float32"), ((S_,), "float32"), ((S_,), "float32"), ((), "float32")], G["g_logp"], G["g_val"], G["g_ent"], S["st_s"], *params)
    want = {"logp": np.vectorize(it.o.add, otypes=[object])(params[0], upd[0]), "val": np.vectorize(it.o.add, otypes=[object])(params[1], upd[1]),
            "ent": np.vectorize(it.o.add, otypes=[object])(params[2], upd[2]), "state": upd[3]}
    ck.prove(f"opt.applied_through_optimizer@{algo_name}", [], conj([eq_arr(out[k], want[k]) for k in want]),
             replay=lambda res: concrete.replay_outputs(tr, S, res, uf_apps=it.uf_apps, oracle=want), nonlinear=True)
    ck.control(f"control.opt_ignores_gradient@{algo_name}", [], eq_arr(out["logp"], params[0]), nonlinear=True)


def sec_optimizer(ck, algo_name):
    """the chain built by the constructor: clip_by_global_norm(max_grad_norm) then adam"""
    kw = dict(num_envs=1, num_steps=2, max_grad_norm=0.25)   # not the default 0.5: the configured value must be the one used
    algo = {"ppo": lambda: PPO(num_batches=1, **kw), "a2c": lambda: A2C(**kw), "reinforce": lambda: REINFORCE(**kw)}[algo_name]()
    mx = Fraction(float(np.float32(algo.max_grad_norm)))
    params = {"b": jnp.zeros(()), "w": jnp.zeros(2)}
    st0 = algo.optimizer.init(params)

    def upd(g, st, p):
        u, ns = algo.optimizer.update(g, st, p)
        return {"u": u, "ns": ns}
    tr = trace(upd, params, st0, params, argnames=["g", "st", "p"], label=f"{type(algo).__name__}().optimizer.update")
    ck.encoded(tr)

    def gen(name, av, rng):
        if "count" in name:
            return jnp.asarray(rng.integers(0, 3), dtype=av.dtype)
        if "hyperparams" in name or "_nu_" in name:
            return jnp.asarray(rng.uniform(0.1, 0.9, size=av.shape), dtype=av.dtype)
        return None
    concrete.validate(ck, tr, n=2, seed=ck.seed + 7, gen=gen, use_world=False)
    it = Interp()
    zero = {n: it.lift(np.zeros(av.shape, av.dtype)) for n, av in zip(tr.in_names, tr.in_avals) if n.startswith("st_") and "hyperparams" not in n}
    S = tr.symbols(it, given=zero)                                  # first update from a zero optimiser state
    out = tr.run(it, S)
    g = flat(S["g_b"], S["g_w"])
    def hpname(k):
        # wherever the adam hyper-parameters live in the optimiser state (robust to a different chain layout)
        c = [n for n in tr.in_names if n.startswith("st_") and n.endswith("hyperparams_" + k)]
        if len(c) != 1:
            raise RuntimeError(f"optimiser state has no unique adam hyper-parameter {k}: {c}")
        return c[0]
    hp = {k: S[hpname(k)][()] for k in ("b1", "b2", "eps", "eps_root", "learning_rate")}
    norm = it.o.unary("sqrt", sum(x * x for x in g))
    ghat = [z3.If(norm <= mx, x, x * mx / norm) for x in g]
    u = flat(out["u_b"], out["u_w"])
    pow1 = {"pow": lambda t, a: [z3.Implies(a[1] == 1, t == a[0])]}
    asm = [hp["b1"] >= 0, hp["b1"] < 1, hp["b2"] >= 0, hp["b2"] < 1, hp["eps"] > 0, hp["eps_root"] >= 0, hp["learning_rate"] > 0]
    ref = [-hp["learning_rate"] * gh / (it.o.unary("sqrt", gh * gh + hp["eps_root"]) + hp["eps"]) for gh in ghat]

    def rp_first(res):
        rpl = Replay(tr, S, res)
        real = rpl.run()
        gv = np.concatenate([rpl.get("g_b").reshape(-1), rpl.get("g_w").reshape(-1)])
        h = {k: float(rpl.get(hpname(k))) for k in hp}
        n = float(np.sqrt(np.sum(gv ** 2)))
        gh = gv if n <= float(mx) else gv * float(mx) / n
        want = -h["learning_rate"] * gh / (np.sqrt(gh ** 2 + h["eps_root"]) + h["eps"])
        got = np.concatenate([real["u_b"].reshape(-1), real["u_w"].reshape(-1)])
        return differs(got, want, rtol=5e-3, atol=1e-4), {"function": tr.label, "inputs": rpl.inputs_json(), "real_update": got.tolist(), "float64_reference": want.tolist()}
    bnd = within(g, -3, 3) + [hp["b1"] <= Fraction(9, 10), hp["b2"] <= Fraction(9, 10), hp["eps"] >= Fraction(1, 100), hp["eps"] <= 1, hp["eps_root"] <= 1,
                              hp["learning_rate"] >= Fraction(1, 10), hp["learning_rate"] <= 1]
    ck.prove(f"opt.clip_then_adam.first_update@{algo_name}", asm, conj([a == b for a, b in zip(u, ref)]), replay=rp_first,
             margin_goal=implies(conj(bnd), conj([zabs(a - b) <= Fraction(1, 50) for a, b in zip(u, ref)])), nonlinear=True, extra_axioms=pow1)
    ck.control(f"control.opt_without_clipping@{algo_name}", asm,
               conj([a == -hp["learning_rate"] * x / (it.o.unary("sqrt", x * x + hp["eps_root"]) + hp["eps"]) for a, x in zip(u, g)]), nonlinear=True)

    # from an arbitrary optimiser state: the update depends on the gradient only through its global-norm clipping
    it2 = Interp()
    S1 = tr.symbols(it2)
    cnt = {n: it2.lift(np.zeros(av.shape, av.dtype)) for n, av in zip(tr.in_names, tr.in_avals) if "count" in n}
    S1.update(cnt)
    g1 = flat(S1["g_b"], S1["g_w"])
    n1 = it2.o.unary("sqrt", sum(x * x for x in g1))
    gh1 = [z3.If(n1 <= mx, x, x * mx / n1) for x in g1]
    S2 = dict(S1)
    S2["g_b"] = np.array(gh1[0], dtype=object).reshape(())
    S2["g_w"] = np.array(gh1[1:], dtype=object)
    o1, o2 = tr.run(it2, S1), tr.run(it2, S2)
    keys = [k for k in tr.out_names if k.startswith("u_") or "_mu_" in k or "_nu_" in k]

    def rp_inv(res):
        a = Replay(tr, S1, res)
        ra = a.run()
        gv = np.concatenate([a.get("g_b").reshape(-1), a.get("g_w").reshape(-1)])
        n = float(np.sqrt(np.sum(gv ** 2)))
        gh = gv if n <= float(mx) else gv * float(mx) / n
        a.set("g_b", gh[0])
        a.set("g_w", gh[1:])
        rb = a.run()
        bad = any(differs(ra[k], rb[k], rtol=5e-3, atol=1e-4) for k in keys)
        return bad, {"function": tr.label, "inputs": a.inputs_json(), "update_on_g": {k: ra[k].tolist() for k in keys}, "update_on_clipped_g": {k: rb[k].tolist() for k in keys}}
    hp1 = {k: S1[hpname(k)][()] for k in hp}
    asm1 = [hp1["b1"] >= 0, hp1["b1"] < 1, hp1["b2"] >= 0, hp1["b2"] < 1, hp1["eps"] > 0, hp1["eps_root"] >= 0, hp1["learning_rate"] > 0]
    ck.prove(f"opt.clip_then_adam.depends_on_clipped_gradient_only@{algo_name}", asm1, conj([eq_arr(o1[k], o2[k]) for k in keys]), replay=rp_inv, nonlinear=True)
    scaled = dict(S1)
    k_ = z3.Real("scale_k")
    scaled["g_b"] = np.array(g1[0] * k_, dtype=object).reshape(())
    scaled["g_w"] = np.array([x * k_ for x in g1[1:]], dtype=object)
    o3 = tr.run(it2, scaled)
    ck.control(f"control.opt_scale_invariant_below_max_norm@{algo_name}", asm1 + [k_ > 1], conj([eq_arr(o1[k], o3[k]) for k in keys]), nonlinear=True)


# ----------------------------------------------------------------------------- main
def sec_rows_evaluated_with_their_own_mask_and_state(ck, algo, B=2):
    """the loss re-evaluates every stored sample with ITS OWN policy state and action mask (masks offered by the environment are the ones applied;
    on data collected by the current policy the ratios are 1): traced with a stateful, mask-taking uninterpreted policy"""
    from jaxsmt.harness import UFACPolicy, UFCall, UFEnv, UFPolState
    from lerax.space import Discrete
    env = UFEnv(Discrete(3), masked=True)
    pol = UFACPolicy(env, stateful=True)
    buf = RolloutBuffer(observations=jnp.zeros((B, 2)), actions=jnp.zeros(B, int), rewards=jnp.zeros(B), dones=jnp.zeros(B, bool), log_probs=jnp.zeros(B), values=jnp.zeros(B),
                        states=UFPolState(jnp.zeros((B, 1))), action_masks=jnp.ones((B, 3), bool), returns=jnp.zeros(B), advantages=jnp.zeros(B))
    f = loss_fn(algo, False, False)
    tr = trace(f, pol, buf, jnp.array(0.25), jnp.array(0.5), jnp.array(0.125), argnames=["pol", "buf", "cc", "vc", "ec"], label=f"{algo}_loss with policy state and action masks")
    ck.encoded(tr)
    it = Interp()
    S = tr.symbols(it)
    out = tr.run(it, S)
    U = UFCall(it)
    ents, lps, vs = [], [], []
    for i in range(B):
        h, v, lp, ent = U("EV", [((1,), "float32")] + [((), "float32")] * 3, S["pol_theta"], S["buf_states_h"][i], S["buf_observations"][i], np.array([S["buf_actions"][i]], dtype=object),
                          S["buf_action_masks"][i])
        ents.append(ent[()])
        lps.append(lp[()])
        vs.append(v[()])
    # structural: every evaluation in the traced loss is one of these row-wise applications (its own state, observation, action and mask)
    want_ids = {x.get_id() for x in ents + lps + vs}
    got = {t.get_id() for nm, oi, idx, ops, t in it.uf_apps if nm == "EV" and oi in (1, 2, 3)}
    ck.fact(f"{algo}.rows_evaluated_with_own_state_and_mask", got == want_ids and len(got) == 3 * B,
            f"{len(got)} evaluate_action outputs in the trace; {len(got & want_ids)} of them are EV(theta, state_i, obs_i, action_i, mask_i) of their own row")
    if "entropy" in out:
        want = it.o.neg(it.o.fdiv(sum(ents[1:], ents[0]), B))
        ck.prove(f"{algo}.entropy_term_with_masks@B={B}", [], core.eq_elem(out["entropy"][()], want),
                 replay=lambda res: concrete.replay_outputs(tr, S, res, uf_apps=it.uf_apps, oracle={"entropy": arr0(want)}))
    if algo == "ppo":
        # on data collected by the current (masked) policy every ratio is 1 and the approximate KL is 0
        A = [S["buf_log_probs"][i] == lps[i] for i in range(B)]
        ck.prove(f"ppo.kl_zero_on_policy_with_masks@B={B}", A, core.eq_elem(out["approx_kl"][()], 0), nonlinear=True,
                 replay=lambda res: concrete.replay_outputs(tr, S, res, uf_apps=it.uf_apps, oracle={"approx_kl": arr0(0)}))


def main():
    ck = Check("C08", "on-policy losses equal the published objectives")
    ck.mode = "REAL"
    th = ck.thorough
    ck.bound(batch_with_normalisation=[1, 2, 3] if th else [1, 2], batch_without_normalisation=[1, 3, 4] if th else [1, 3], flags="all 4 (normalize_advantages x clip_value_loss)",
             tabular_policy="2 states x 2 actions, batch 2" + (" and 3" if th else ""), optimiser_parameters=3,
             note="rollout-buffer contents, policy outputs (uninterpreted functions of parameter, observation, action), clip/value/entropy coefficients are symbolic reals; 0 < clip < 1")
    ck.stub("policy = uninterpreted function EV(theta, observation, action) -> (value, log_prob, entropy) for value obligations (UFACPolicy)",
            "policy = parameter tables (log_prob[s,a], value[s], entropy[s]) for gradient obligations (TabACPolicy); JAX differentiates the real loss",
            "optimiser = uninterpreted gradient transformation OPT(grads, state, params) for opt.applied_through_optimizer; the real optax chain for opt.clip_then_adam",
            "exp, sqrt, pow are uninterpreted with axioms exp>0, exp(0)=1, sqrt(x)>=0 and sqrt(x)^2=x for x>=0, pow(x,1)=x")
    ck.out("float32 rounding (identities are over the reals)",
           "the approximate-KL estimator itself (the statement only fixes its value 0 on on-policy data)",
           "the constant in front of the squared value error (B=1: proportionality + sign as a two-instance query; B>1: the batch value is the mean of the implementation's own "
           "single-sample values, so the constant is independent of inputs and batch size)",
           "the regulariser added to the advantage standard deviation is identified from the IR and only required to be a constant in (0, 1e-6]",
           "adam beyond its first update from a zero state; learning-rate schedules",
           "E[.] is the minibatch mean; how minibatches are formed is C09")
    # `on data collected by the current policy every ratio is 1`: the premise is that the collected row holds the sampled action together with the
    # log-probability and value the policy gave for THAT action -- the on-policy record obligations of C04 for a clipped (Box) and a discrete action
    # space, discharged here as part of this clause
    from props import C04
    for kind_ in ("box", "discrete"):
        with ck.section(f"onpolicy_record_premise.{kind_}"):
            C04.check_step(ck, kind_, False, True)
    with ck.section("regulariser"):
        eps = identify_eps(ck)
    # ---- PPO, all four flag combinations
    for NORM in (False, True):
        for CLIPV in (False, True):
            Bs = ([1, 2, 3] if th else [1, 2]) if NORM else ([1, 3, 4] if th else [1, 3])
            for B in Bs:
                with ck.section(f"ppo@B={B},norm={int(NORM)},clip={int(CLIPV)}"):
                    sec_loss(ck, "ppo", B, NORM, CLIPV, eps, controls=(B in Bs[:2]), timeout=300 if (NORM and B >= 3) else None)
    # ---- A2C, REINFORCE
    for algo in ("a2c", "reinforce"):
        for NORM in (False, True):
            Bs = ([1, 2, 3] if th else [1, 2]) if NORM else ([1, 3, 4] if th else [1, 3])
            for B in Bs:
                with ck.section(f"{algo}@B={B},norm={int(NORM)}"):
                    sec_loss(ck, algo, B, NORM, False, eps, controls=(B == Bs[1]), timeout=300 if (NORM and B >= 3) else None)
    for algo in ("ppo", "a2c", "reinforce"):
        with ck.section(f"masks_and_states.{algo}"):
            sec_rows_evaluated_with_their_own_mask_and_state(ck, algo)
    # ---- gradient consequence
    gcfg = [(2, False, False)] + ([(2, True, True), (3, False, True)] if th else [])
    for B, NORM, CLIPV in gcfg:
        with ck.section(f"grad@B={B},norm={int(NORM)},clip={int(CLIPV)}"):
            sec_grad(ck, B, NORM, CLIPV, eps, controls=(B == 2 and not NORM))
    # ---- optimiser
    for algo in ("ppo", "a2c", "reinforce"):
        with ck.section(f"train_applies_optimizer.{algo}"):
            sec_train_applies_optimizer(ck, algo)
        with ck.section(f"optimizer.{algo}"):
            sec_optimizer(ck, algo)
    ck.finish("PPO.ppo_loss (all four normalize_advantages x clip_value_loss combinations), A2C.a2c_loss and REINFORCE.reinforce_loss are traced on a symbolic "
              "rollout batch with an uninterpreted policy and interpreted over z3 reals; policy term, entropy term and total are proved equal to the statement's "
              "formulas written independently, the value term is proved proportional (two-instance query, also across batch sizes) to the mean (clipped-max) squared "
              "error with a positive constant; on-policy data gives approx-KL 0 and surrogate -mean(A). The repo's own ppo_loss_grad over a tabular policy is interpreted "
              "to show that a favoured-side clipped sample has zero policy gradient. Training steps are shown to apply self.optimizer.update to that gradient "
              "(uninterpreted optimiser), and the constructors' optax chains are shown to be global-norm clipping followed by adam (first update formula, and dependence "
              "on the gradient only through its clipping).")


if __name__ == "__main__":
    main()
