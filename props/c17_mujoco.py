"""C17, MuJoCo half: the 11 MJX environments follow the Gymnasium v5 semantics.

Per environment (one worker process each; the physics engine is replaced by uninterpreted functions, jaxsmt/mjxstubs.py):

* FORMULAS over arbitrary data.  `observation`, `reward`, `terminal`, `transition_info`, `state_info` of the real lerax
  class are traced with the environment (weights, ranges, dt, model) and two complete `mjx.Data` records (before / after)
  as symbolic inputs and compared with the reference model of the v5 semantics (refs/mujoco_v5.py) written over the SAME
  symbols, so the physics cancels and formulas are compared exactly.  The reference is validated in this run against the
  installed gymnasium.envs.mujoco.*_v5 class (physical trajectories + synthetic data with the physics replaced by
  "load these data"), and a deliberately mutated reference must be rejected by that validation.
* PIPELINE with physics stubbed.  `AbstractMujocoEnv.transition`: control written before stepping, exactly frame_skip
  applications of STEP, t + dt.  `reads_only_written_fields`: after a transition every Data leaf the environment reads
  is what the MJX pipeline computes from the state (FWD_leaf of it) — fails for a leaf that mjx.step never writes.
  `reset_consistent`: every derived leaf read on the state returned by `initial()` is FWD_leaf of a state with that qpos,
  qvel, ctrl.
* Counterexamples are replayed on the real lerax functions and on the installed Gymnasium class from the same data /
  the same qpos, qvel, action.  A leaf the pipeline never writes is replayed without running the physics (the jaxpr of the
  real, unstubbed transition passes it through; real initial() gives zeros; Gymnasium stepped into contact has it non-zero);
  the thorough tier additionally runs the real MJX transition in a helper process (20-50 s of XLA compilation).
"""
import json
import os
import subprocess
import sys
import tempfile
import time
import traceback
from fractions import Fraction

import numpy as np

ENV_IDS = {"Ant": "ant", "HalfCheetah": "half_cheetah", "Hopper": "hopper", "Humanoid": "humanoid", "HumanoidStandup": "humanoid_standup",
           "InvertedDoublePendulum": "inverted_double_pendulum", "InvertedPendulum": "inverted_pendulum", "Pusher": "pusher", "Reacher": "reacher",
           "Swimmer": "swimmer", "Walker2d": "walker2d"}
STATE_FIELDS = ("qpos", "qvel", "ctrl", "time")
BOX = 8


# ================================================================== helpers (worker side)
def data_view(S, prefix):
    """{leaf name: array} of the mjx.Data record whose traced input names start with `prefix`sim_state_"""
    out = {}
    p = prefix + "sim_state_"
    for n, arr in S.items():
        if n.startswith(p):
            f = n[len(p):]
            out[f[6:] if f.startswith("_impl_") else f] = arr
    return out


def params_view(S, ref, get=lambda a: a):
    P = {}
    for k in ref.params:
        a = get(S["env_" + k])
        P[k] = a[()] if a.ndim == 0 else a
    P["dt"] = get(S["env_dt"])[()]
    P["timestep"] = get(S["env_model_opt_timestep"])[()]
    P["init_qpos"] = get(S["env_init_qpos"])
    P["body_mass"] = get(S["env_model_body_mass"])
    return P


def used_inputs(tr):
    """names of traced inputs that some equation (or an output) of the jaxpr reads"""
    used = set()
    for e in tr.jaxpr.eqns:
        for v in e.invars:
            used.add(id(v))
    for v in tr.jaxpr.outvars:
        used.add(id(v))
    return [n for n, v in zip(tr.in_names, tr.jaxpr.invars) if id(v) in used]


def free_consts(terms):
    import z3
    seen, out = set(), {}
    stack = [t for t in terms if isinstance(t, z3.ExprRef)]
    while stack:
        t = stack.pop()
        i = t.get_id()
        if i in seen:
            continue
        seen.add(i)
        if z3.is_const(t) and t.decl().kind() == z3.Z3_OP_UNINTERPRETED and z3.is_real(t):
            out[i] = t
        stack.extend(t.children())
    return list(out.values())


def flat_obj(a):
    return list(np.asarray(a, dtype=object).reshape(-1))


def objarr(xs):
    out = np.empty((len(xs),), dtype=object)
    for i, x in enumerate(xs):
        out[i] = x
    return out


def margin(pairs, extra=()):
    """negated-with-margin form of `impl == ref` (so that what the solver finds survives float32 rounding at replay time)"""
    import z3
    from jaxsmt.core import conj, implies
    from jaxsmt.ops import RealOps, isconc
    o = RealOps()
    eps = z3.Q(1, 8)
    ds = []
    ts = []
    for a, b in pairs:
        if isconc(a) and isconc(b):
            continue
        if (not isconc(a) and z3.is_bool(a)) or (not isconc(b) and z3.is_bool(b)) or isinstance(a, bool) or isinstance(b, bool):
            continue
        d = o.sub(a, b)
        ds.append(z3.And(d <= eps, -d <= eps))
        ts += [x for x in (a, b) if not isconc(x)]
    if not ds:
        return None
    vs = free_consts(ts)
    bounded = [z3.And(v >= -BOX, v <= BOX) for v in vs] + list(extra)
    return implies(conj(bounded), conj(ds))


class _Rec:
    def __init__(self):
        self.seen = set()

    def wrap(self, d):
        rec = self

        class D(dict):
            def __getitem__(self, k):
                rec.seen.add(k)
                return dict.__getitem__(self, k)
        return D(d)


def rec_params(ref):
    P = {k: np.array([-1.0, 1.0]) if k.endswith("range") else 1.0 for k in ref.params}
    P.update(dt=1.0, timestep=1.0, init_qpos=np.zeros(40), body_mass=np.ones(40))
    return P


def fast_model_leaf(res, arr, av, declared, jnp):
    """value of an input leaf under the model; symbols the model does not mention are 0 (no per-element model evaluation)"""
    import z3
    from jaxsmt import solve
    from jaxsmt.ops import isconc
    out = np.zeros(av.shape, dtype=np.float64)
    flat = out.reshape(-1)
    for i, x in enumerate(arr.reshape(-1)):
        if isconc(x):
            flat[i] = float(x)
        elif x.decl().name() in declared:
            v = solve.num(res.value(x))
            flat[i] = float(v) if v is not None else 0.0
    dt = np.dtype(av.dtype)
    if dt == np.bool_:
        return jnp.asarray(out != 0)
    return jnp.asarray(out.astype(dt))


class EnvCheck:
    def prove(self, oid, assumptions, goal, **kw):
        """default solver first (linear / ite / UF reasoning), Ackermann + nlsat when it does not decide"""
        from jaxsmt import solve
        from jaxsmt.core import neg
        from jaxsmt.ops import isconc
        ck = self.ck
        if (ck.only is not None and oid != ck.only) or (isconc(goal) and goal):
            return ck.prove(oid, assumptions, goal, **kw)
        fs = [a for a in assumptions if not (isconc(a) and a)] + [neg(goal)]
        fs += solve.instantiate_axioms(fs)
        pre = solve.decide(fs, timeout_s=12, nonlinear=False)
        ck.solver_time += pre.time
        ck.queries += 1
        return ck.prove(oid, assumptions, goal, nonlinear=pre.status not in ("sat", "unsat"), **kw)

    def __init__(self, ck, name, flags=None):
        import jax
        import jax.numpy as jnp
        from jax import random as jr

        import lerax.env.mujoco as lm
        from jaxsmt import stubs
        from refs import mujoco_v5 as R
        # flags: documented boolean observation options set to a non-default value (same names in lerax and Gymnasium v5); the variant is a check of
        # the OBSERVATION only (sizes, advertised space, layout), its id carries the option
        self.flagcfg = dict(flags or {})
        self.ck, self.name = ck, name
        self.eid = ENV_IDS[name] + ("" if not flags else "[" + ",".join(f"{k}={v}" for k, v in self.flagcfg.items()) + "]")
        self.R = R
        self.ref = R.REFS[name](**self.flagcfg)
        self.t0 = time.time()
        self.phys = None
        # the real-physics helper takes 30-50 s (XLA compilation of mjx.step): it is started speculatively when the v5 semantics reads
        # force-type leaves (cfrc_*, cacc) and killed as soon as the measured write-set shows that it is not needed
        if ck.thorough and not flags and (ck.only is None or ck.only == f"{self.eid}.reads_only_written_fields"):
            rec = _Rec()
            try:
                z = {f: np.zeros((40, 12)) for f in R.FIELDS}
                self.ref.obs(R.num_ops(), rec_params(self.ref), rec.wrap(z))
            except Exception:  # noqa: BLE001
                pass
            if any(f.startswith(("cfrc", "cacc")) for f in rec.seen):
                self.start_physics()
        # ---- reference vs the installed Gymnasium
        ok, pts, bad, self.G = R.validate(self.ref, n_physical=(3 if not ck.thorough else 6) if not flags else 2, n_synthetic=(4 if not ck.thorough else 12) if not flags else 2, seed=ck.seed)
        ck.fact(f"ref.{self.eid}.validated_against_gymnasium", ok, f"{pts} points (physical trajectories and synthetic data through the installed {self.ref.gym_id} "
                f"step()/_get_obs()); mismatches: {bad[:3]}")
        self.ref_ok = ok
        # a deliberately wrong reference must be rejected by the same validation
        if not flags:
            mut = self.mutant()
            okm = R.validate(mut, n_physical=2, n_synthetic=2, seed=ck.seed)[0]
            ob = ck._new(f"control.ref.{self.eid}.mutant_rejected_by_gymnasium", "control")
            ob.status = "sat (as required)" if not okm else "unsat"
            if okm:
                ob.detail = "a mutated reference passed the validation against Gymnasium"
                ck.inconclusive.append(ob)
        self.env = getattr(lm, name)(**self.flagcfg)
        self.jr, self.jnp, self.jax = jr, jnp, jax
        with stubs.prng_stubs():
            self.s0 = jax.eval_shape(lambda k: self.env.initial(key=k), jr.key(0))
        self.a0 = jnp.zeros(self.env.action_space.shape, jnp.float32)

    def log(self, msg):
        self.ck.log(f"[{self.eid}] {msg}")

    def mutant(self):
        ref = self.ref

        class Mut(type(ref)):
            def obs(self, o, P, D):
                r = type(ref).obs(self, o, P, D)
                return r[1:] + r[:1]

            def step(self, o, P, D, a, D2):
                r, t, i = type(ref).step(self, o, P, D, a, D2)
                return o.add(r, r), t, i
        m = Mut()
        if hasattr(ref, "bodies"):
            m.bodies = ref.bodies
        return m

    # ------------------------------------------------------------------ static facts
    def defaults(self):
        env, g, ref, ck = self.env, self.G.g, self.ref, self.ck
        mm = env.mujoco_model
        bad = []

        def eq(what, a, b, tol=1e-6):
            a, b = np.asarray(a, dtype=np.float64), np.asarray(b, dtype=np.float64)
            if a.shape != b.shape or not np.allclose(a, b, rtol=tol, atol=tol, equal_nan=True):
                bad.append((what, a.reshape(-1)[:4].tolist(), b.reshape(-1)[:4].tolist()))
        for what in ("nq", "nv", "nu", "nbody", "nsite", "ngeom", "njnt"):
            eq(what, getattr(mm, what), getattr(g.model, what))
        eq("opt.timestep", mm.opt.timestep, g.model.opt.timestep)
        eq("frame_skip", env.frame_skip, g.frame_skip)
        eq("frame_skip(ref)", ref.frame_skip, g.frame_skip)
        eq("dt", env.dt, g.dt)
        eq("dt=timestep*frame_skip", env.dt, float(np.asarray(env.model.opt.timestep)) * env.frame_skip)
        import mujoco
        fresh = mujoco.MjData(g.model)     # (Pusher-v5 overwrites entries of its own init_qpos at every reset)
        eq("init_qpos", env.init_qpos, fresh.qpos)
        eq("init_qvel", env.init_qvel, fresh.qvel)
        eq("body_mass", env.model.body_mass, g.model.body_mass)
        eq("action low", env.action_space.low, g.action_space.low)
        eq("action high", env.action_space.high, g.action_space.high)
        eq("observation size", env.observation_space.shape[0], g.observation_space.shape[0])
        for k, a in ref.params.items():
            eq("default " + k, getattr(env, k), getattr(g, a))
        for k, a in ref.flags.items():
            eq("flag " + k, bool(getattr(env, k)), bool(getattr(g, a)))
        for n, bid in getattr(ref, "bodies", {}).items():
            eq("body id " + n, getattr(env, n + "_body_id"), bid)
        if hasattr(ref, "main_body"):
            eq("main body id", env.main_body_id, ref.main_body)
        ck.fact(f"{self.eid}.model_and_defaults", not bad, f"sizes, timestep, frame_skip, dt, initial pose, action bounds, default weights and flags equal those of the "
                f"installed {ref.gym_id}; differences: {bad}")

    # ------------------------------------------------------------------ formulas over arbitrary data
    def trace_formulas(self):
        from jaxsmt import concrete
        from jaxsmt.trace import trace
        ck, env, ref, eid = self.ck, self.env, self.ref, self.eid
        jr = self.jr

        def f_all(env, s, a, s2, k):
            return {"obs": env.observation(s2, key=k), "reward": env.reward(s, a, s2, key=k), "terminal": env.terminal(s2, key=k),
                    "info": env.transition_info(s, a, s2), "sinfo": env.state_info(s2)}
        tr = trace(f_all, env, self.s0, self.a0, self.s0, jr.key(0), argnames=["env", "s", "a", "s2", "k"],
                   label=f"{self.name}.observation/reward/terminal/transition_info/state_info")
        self.tr_all = tr
        ck.encoded(tr)

        def gen(name, av, rng):
            if name in ("env_model_body_mass",):
                return self.jnp.asarray(rng.uniform(0.5, 2.0, size=av.shape), av.dtype)
            if name in ("env_dt", "env_model_opt_timestep"):
                return self.jnp.asarray(rng.choice([0.125, 0.25, 0.5]), av.dtype)
            return None
        concrete.validate(ck, tr, n=1, seed=ck.seed, gen=gen, use_world=False)
        used = used_inputs(tr)
        self.reads = {}
        for n in used:
            for pre in ("s_", "s2_"):
                if n.startswith(pre + "sim_state_"):
                    f = n[len(pre) + len("sim_state_"):]
                    self.reads.setdefault(f[6:] if f.startswith("_impl_") else f, set()).add("state" if pre == "s_" else "next_state")
        self.log(f"Data leaves read by observation/reward/terminal/infos: {sorted(self.reads)}")
        self.used_all = used

    def measure(self):
        """write-set of the real mjx.forward / mjx.step of this model (from their jaxprs); start the real-physics helper early when it will be needed"""
        from jaxsmt.mjxstubs import MjxStub
        ck = self.ck
        t = time.time()
        st = MjxStub(self.env.model)
        self.stub = st
        ck.stub(*st.notes(label=f"measured on the {self.name} model"))
        self.log(f"write-set of the real mjx.forward/step read from their jaxprs in {time.time() - t:.1f}s: {st.stats}")
        W = set(st.written["step"]) | set(st.written["forward"])
        self.derived_reads = sorted(f for f in self.reads if f not in STATE_FIELDS)
        self.unwritten = [f for f in self.derived_reads if f not in W]
        if self.unwritten and self.phys is None and ck.thorough and (ck.only is None or ck.only == f"{self.eid}.reads_only_written_fields"):
            self.start_physics()
        if not self.unwritten and self.phys is not None:
            self.phys.kill()
            self.phys = None

    def formulas(self, only_obs=False):
        from jaxsmt.core import conj, eq_arr, eq_elem, neg
        from jaxsmt.interp import Interp
        import z3
        ck, env, ref, eid = self.ck, self.env, self.ref, self.eid
        tr, used = self.tr_all, self.used_all
        it = Interp()
        zero = {}
        for n, av in zip(tr.in_names, tr.in_avals):
            if n not in used and n != "a" and not n.startswith(("env_dt", "env_model_opt_timestep", "env_init_qpos", "env_model_body_mass", "s_sim_state", "s2_sim_state")) \
                    and "key" not in str(av.dtype) and not any(n == "env_" + k for k in ref.params):
                zero[n] = it.lift(np.zeros(av.shape, av.dtype))
        S = tr.symbols(it, given=zero)
        out = tr.run(it, S)
        self.S_all, self.it_all, self.out_all = S, it, out
        o = it.o
        D, D2 = data_view(S, "s_"), data_view(S, "s2_")
        P = params_view(S, ref)
        a = S["a"]
        fs = int(env.frame_skip)
        link = [P["dt"] == P["timestep"] * fs, P["timestep"] > 0]
        # every successor produced by transition() carries the action as its control (obligation mujoco.transition_frame_skip)
        link += [eq_elem(x, y) for x, y in zip(flat_obj(D2["ctrl"]), flat_obj(a))]
        for k, v in ref.unused_by_v5.items():
            link.append(eq_elem(P[k], Fraction(v)))
            ck.assume_note(f"{self.name}: {k} is fixed to its default {v} (the installed {ref.gym_id} accepts the parameter but never uses it)")
        if "env_model_body_mass" in used:
            bm = flat_obj(P["body_mass"])
            link += [m >= 0 for m in bm] + [sum(bm[1:], bm[0]) >= 1]
        self.link = link
        ck.witness(f"witness.{eid}.assumptions_satisfiable", link)
        D2r = dict(D2)
        r_obs = np.array(ref.obs(o, P, D2), dtype=object)
        r_rew, r_term, r_info = ref.step(o, P, D, a, D2r)
        r_sinfo = ref.reset_info(o, P, D2)
        extra = [P["dt"] >= z3.Q(1, 64), P["dt"] <= 1]
        tw = bool(getattr(env, "terminate_when_unhealthy", True))

        def rp_for(outname, want_kind, key=None):
            return lambda res: self.replay_formula(res, outname, want_kind, key)

        # observation
        pairs = list(zip(flat_obj(out["obs"]), flat_obj(r_obs)))
        self.prove(f"{eid}.obs_layout", link, eq_arr(out["obs"], r_obs) if out["obs"].shape == r_obs.shape else False,
                 margin_goal=margin(pairs, extra), replay=rp_for("obs", "obs"))
        # a wrong layout (entries rotated by one) must be refuted
        if r_obs.size > 1 and out["obs"].shape == r_obs.shape:
            ck.control(f"control.{eid}.obs_rotated", link, eq_arr(out["obs"], np.roll(r_obs, 1)), nonlinear=True)
        if only_obs:
            return
        # reward
        self.prove(f"{eid}.reward", link, eq_elem(out["reward"][()], r_rew), margin_goal=margin([(out["reward"][()], r_rew)], extra),
                 replay=rp_for("reward", "reward"))
        ck.control(f"control.{eid}.reward_shifted", link, eq_elem(out["reward"][()], o.add(r_rew, Fraction(1))), nonlinear=True)
        # termination
        if ref.terminates and tw:
            self.prove(f"{eid}.terminal", link, eq_elem(out["terminal"][()], r_term), replay=rp_for("terminal", "terminated"))
            ck.control(f"control.{eid}.terminal_negated", link, eq_elem(out["terminal"][()], neg(r_term)), nonlinear=True)
        else:
            self.prove(f"{eid}.terminal", link, eq_elem(out["terminal"][()], r_term), replay=rp_for("terminal", "terminated"))
        # reward components and the other entries of the v5 info dictionary
        for k, want in r_info.items():
            fam = "components" if k in ref.reward_components else "info"
            oid = f"{eid}.{fam}.{k}"
            name = "info_" + k
            if fam != "components":
                # the statement speaks of reward components only; other v5 info entries are recorded, not asserted
                if name not in out:
                    ck.notes.append(f"informational (outside the claim): v5 step() info['{k}'] has no counterpart in lerax {self.name}.transition_info")
                continue
            if name not in out:
                ck.fact(oid, False, f"v5 step() returns info['{k}'] but lerax {self.name}.transition_info has no such entry (its keys: "
                        f"{sorted(n[5:] for n in out if n.startswith('info_'))})")
                continue
            got = out[name]
            want = np.asarray(want, dtype=object)
            pairs = list(zip(flat_obj(got), flat_obj(want)))
            self.prove(oid, link, eq_arr(got, want) if got.shape == want.shape else False, margin_goal=margin(pairs, extra),
                     replay=rp_for(name, "info", k), sample=(fam == "components"))
        for k, want in r_sinfo.items():
            oid = f"{eid}.reset_info.{k}"
            name = "sinfo_" + k
            if name not in out:
                ck.notes.append(f"informational (outside the claim): v5 reset() info['{k}'] has no counterpart in lerax {self.name}.state_info")
                continue
            if True:
                continue
            if name not in out:
                ck.fact(oid, False, f"v5 reset() returns info['{k}'] but lerax {self.name}.state_info has no such entry (its keys: "
                        f"{sorted(n[6:] for n in out if n.startswith('sinfo_'))})")
                continue
            want = np.asarray(want, dtype=object)
            self.prove(oid, link, eq_arr(out[name], want) if out[name].shape == want.shape else False, sample=False,
                     replay=rp_for(name, "sinfo", k))

    def concrete_inputs(self, res, tr, S):
        """float32 inputs of the traced function under the model (leaves that were fixed to zero stay zero)"""
        from jaxsmt import concrete
        from jaxsmt.ops import isconc
        keys = concrete.KeyBinding(res)
        declared = {d.name() for d in res.model.decls()} if res.model is not None else set()
        vals = []
        for n, av in zip(tr.in_names, tr.in_avals):
            if "key" in str(av.dtype):
                vals.append(concrete.model_leaf(res, S[n], av, keys))
            else:
                vals.append(fast_model_leaf(res, S[n], av, declared, self.jnp))
        return vals

    def replay_formula(self, res, outname, kind, key=None):
        """real lerax function and the installed Gymnasium v5 code on the SAME data (the solver's counterexample)"""
        from jaxsmt import concrete
        tr, S = self.tr_all, self.S_all
        vals = self.concrete_inputs(res, tr, S)
        real = dict(zip(tr.out_names, concrete.run_real(tr, vals)))
        V = {n: np.asarray(v, dtype=np.float64) for n, v in zip(tr.in_names, vals) if "key" not in str(v.dtype)}
        D, D2 = data_view(V, "s_"), data_view(V, "s2_")
        P = params_view(V, self.ref)
        a = V["a"]
        G = self.G
        try:
            G.set_params(P)
            ob, r, term, info = G.step_on(D, a, dict(D2))
            sinfo = G.reset_info_on(dict(D2, ctrl=a))
        finally:
            G.restore_params()
        gym = {"obs": ob, "reward": r, "terminated": float(term)}
        got = np.asarray(real[outname], dtype=np.float64)
        want = {"obs": ob, "reward": r, "terminated": float(term), "info": info.get(key), "sinfo": sinfo.get(key)}[kind]
        want = np.asarray(want, dtype=np.float64)
        if got.shape != want.shape:
            diff = True
            where = []
        else:
            bad = np.abs(got - want) > 2e-3 * (1 + np.abs(want))
            diff = bool(np.any(bad))
            where = np.argwhere(bad.reshape(-1)).reshape(-1)[:8].tolist()
        small = {f: D2[f].reshape(-1)[:12].tolist() for f in sorted(self.reads) if f in D2}
        info_d = {"environment": self.name, "output": outname, "lerax_real_code": got.reshape(-1)[:12].tolist(), "gymnasium_v5_installed": want.reshape(-1)[:12].tolist(),
                  "differing_entries": where, "action": a.reshape(-1)[:8].tolist(), "data_after(first entries of the leaves lerax reads)": small,
                  "parameters": {k: np.asarray(v).reshape(-1)[:3].tolist() for k, v in P.items() if k not in ("init_qpos", "body_mass")},
                  "how": "same mjx.Data/MjData field values loaded on both sides; Gymnasium step() run with do_simulation replaced by loading the successor data"}
        return diff, info_d

    # ------------------------------------------------------------------ pipeline with physics stubbed
    def pipeline(self):
        from jaxsmt import concrete, stubs
        from jaxsmt.core import conj, eq_arr, eq_elem
        from jaxsmt.interp import Interp
        from jaxsmt.trace import trace
        ck, env, ref, eid = self.ck, self.env, self.ref, self.eid
        jr = self.jr
        st, derived_reads, unwritten = self.stub, self.derived_reads, self.unwritten

        # ---- transition
        def f_tr(env, s, a, k):
            with st:
                return env.transition(s, a, key=k)
        tr = trace(f_tr, env, self.s0, self.a0, jr.key(0), argnames=["env", "s", "a", "k"], label=f"{self.name}.transition (AbstractMujocoEnv.transition, physics stubbed)")
        ck.encoded(tr)
        if self.name not in ("Humanoid", "HumanoidStandup") or ck.thorough:
            concrete.validate(ck, tr, n=1, seed=ck.seed)
        it = Interp()
        used = set(used_inputs(tr))
        zero = {n: it.lift(np.zeros(av.shape, av.dtype)) for n, av in zip(tr.in_names, tr.in_avals)
                if n.startswith("env_") and n not in used and "key" not in str(av.dtype) and n != "env_dt"}
        S = tr.symbols(it, given=zero)
        out = tr.run(it, S)
        D = data_view(S, "s_")
        a = S["a"]
        n = int(ref.frame_skip)

        def oracle(nsteps, ctrl_first=True):
            """the statement: ctrl <- action, then `nsteps` applications of STEP; derived leaves lag one sub-step (FWD of the state the
            last STEP started from), exactly as mjx.step = forward + integrate"""
            cur = {"qpos": D["qpos"], "qvel": D["qvel"], "ctrl": a if ctrl_first else D["ctrl"], "time": D["time"]}
            last = None
            for _ in range(nsteps):
                flat = st.sym_operands(it, cur)
                last = flat
                nxt = st.sym_step_state(it, flat)
                cur = dict(cur, **nxt)
            return cur, last
        cur, last = oracle(n)
        goals = [eq_arr(out["sim_state_qpos"], cur["qpos"]), eq_arr(out["sim_state_qvel"], cur["qvel"]), eq_arr(out["sim_state_time"], cur["time"]),
                 eq_arr(out["sim_state_ctrl"], a), eq_elem(out["t"][()], S["s_t"][()] + S["env_dt"][()])]
        outD = data_view({"x_" + k: v for k, v in out.items()}, "x_")
        for f in st.written["forward"]:
            if f in ("qpos",):
                continue
            if outD[f].size:
                goals.append(eq_arr(outD[f], st.sym_field(it, "FWD", f, last)))
        for f in st.untouched["step"]:
            if f != "ctrl" and outD[f].size:
                goals.append(eq_arr(outD[f], D[f]))
        oracle_out = {"sim_state_qpos": cur["qpos"], "sim_state_qvel": cur["qvel"], "sim_state_ctrl": a}
        ck.prove(f"mujoco.transition_frame_skip@{eid}", [], conj(goals), replay=lambda res: self.replay_transition(res, tr, S, n))
        cur_w, _ = oracle(n + 1)
        ck.control(f"control.{eid}.transition_one_step_too_many", [], eq_arr(out["sim_state_qpos"], cur_w["qpos"]))
        cur_w, _ = oracle(n, ctrl_first=False)
        ck.control(f"control.{eid}.transition_control_written_after_stepping", [], eq_arr(out["sim_state_qpos"], cur_w["qpos"]))

        # ---- every leaf read is one the pipeline computes from the state
        goals = []
        for f in derived_reads:
            if outD[f].size:
                goals.append(eq_arr(outD[f], st.sym_field(it, "FWD", f, last)))
        detail = f"leaves read: {derived_reads}; never written by the real mjx.forward/mjx.step of this model (measured from their jaxprs): {unwritten}"
        self.log(detail)
        ck.prove(f"{eid}.reads_only_written_fields", [], conj(goals), replay=lambda res: self.replay_physics(unwritten))

        # ---- reset consistency
        def f_init(env, k):
            with st, stubs.prng_stubs():
                return env.initial(key=k)
        tri = trace(f_init, env, jr.key(0), argnames=["env", "k"], label=f"{self.name}.initial (physics and PRNG stubbed)")
        ck.encoded(tri)
        iti = Interp(while_bound=2)
        usedi = set(used_inputs(tri))
        zero = {nm: iti.lift(np.zeros(av.shape, av.dtype)) for nm, av in zip(tri.in_names, tri.in_avals)
                if nm.startswith("env_") and nm not in usedi and "key" not in str(av.dtype)}
        Si = tri.symbols(iti, given=zero)
        outi = tri.run(iti, Si)
        Di = data_view({"x_" + k: v for k, v in outi.items()}, "x_")
        # candidates for "the state forward was applied to": operand tuples of the FWD applications that occur, else the returned state itself
        cands = []
        seen = set()
        for nm, oi, idx, operands, term in iti.uf_apps:
            if nm == "PHYS":
                key = tuple(x.get_id() for x in operands)
                if key not in seen:
                    seen.add(key)
                    cands.append(list(operands))
        nq, nv = Di["qpos"].size, Di["qvel"].size
        raw = st.sym_operands(iti, {"qpos": Di["qpos"], "qvel": Di["qvel"], "ctrl": Di["ctrl"]})
        cands.append(raw)
        check_fields = [f for f in derived_reads if f in st.written["forward"]]
        from jaxsmt.core import disj
        alts = []
        for c in cands:
            g = [eq_arr(objarr(raw[nq:]), objarr(c[nq:])),
                 disj([eq_arr(objarr(raw[:nq]), objarr(c[:nq])), eq_arr(Di["qpos"], st.sym_field(iti, "FWD", "qpos", c))])]
            for f in check_fields:
                if Di[f].size:
                    g.append(eq_arr(Di[f], st.sym_field(iti, "FWD", f, c)))
            alts.append(conj(g))
        assum = stubs.contracts(iti)
        ck.bound(**{"initial.while_unwind": 2})
        ck.prove(f"{eid}.reset_consistent", assum, disj(alts) if check_fields else True, replay=lambda res: self.replay_reset(check_fields))

    def replay_transition(self, res, tr, S, n):
        """the real transition (physics = a GENERIC concrete interpretation of the uninterpreted functions: a fixed pseudo-random function of
        all operands) on the model's state and action, against the statement evaluated with the same interpretation: ctrl <- action, n times
        (time, qpos, qvel) <- STEP(PHYS(qpos, qvel, ctrl)), t + dt.  A wrong operand / wrong count reproduces under any generic interpretation."""
        from jaxsmt import concrete
        from jaxsmt.uf import GenericWorld
        vals = self.concrete_inputs(res, tr, S)
        V = dict(zip(tr.in_names, vals))
        # make sure action and stored control differ (they are independent inputs)
        a = np.asarray(V["a"], dtype=np.float32)
        if np.allclose(a, np.asarray(V["s_sim_state_ctrl"], dtype=np.float32)):
            a = a + np.float32(0.25)
            vals[tr.in_names.index("a")] = self.jnp.asarray(a)
        real = dict(zip(tr.out_names, concrete.run_real(tr, vals, GenericWorld(seed=7))))
        w = GenericWorld(seed=7)
        st = self.stub
        cur = {"qpos": np.asarray(V["s_sim_state_qpos"], np.float32), "qvel": np.asarray(V["s_sim_state_qvel"], np.float32), "ctrl": a,
               "time": np.asarray(V["s_sim_state_time"], np.float32)}
        group = [nm for nm in st.names if nm in ("qpos", "qvel", "time") and nm in st.written["step"]]
        spec = tuple((st.avals[st.names.index(nm)][0], np.dtype(st.avals[st.names.index(nm)][1]).name) for nm in group)
        for _ in range(n):
            ops = [cur[k] for k in st.data_operands]
            if st.factor:
                ops = [w.apply("PHYS", (((), "float32"),), ops, (False,) * len(ops), None)[0]]
            outs = w.apply("STEP", spec, ops, (False,) * len(ops), None)
            cur.update({nm: np.asarray(o_, np.float32) for nm, o_ in zip(group, outs)})
        want = {"sim_state_qpos": cur["qpos"], "sim_state_qvel": cur["qvel"], "sim_state_time": cur["time"], "sim_state_ctrl": a,
                "t": np.float32(V["s_t"]) + np.float32(V["env_dt"])}
        diffs = {}
        for k, wv in want.items():
            got = np.asarray(real[k], dtype=np.float64)
            if got.shape != np.shape(wv) or np.abs(got - np.asarray(wv, dtype=np.float64)).max() > 1e-5:
                diffs[k] = {"real_transition": got.reshape(-1)[:5].tolist(), "statement": np.asarray(wv, dtype=np.float64).reshape(-1)[:5].tolist()}
        return bool(diffs), {"environment": self.name, "frame_skip": n, "dt": float(V["env_dt"]), "differences": diffs,
                             "how": "real lerax transition with mjx.step bound to a generic concrete function of (qpos, qvel, ctrl); statement = ctrl<-action, "
                                    "frame_skip applications of that function, t+dt"}

    # ------------------------------------------------------------------ replays on the real pipeline
    def replay_reset(self, fields):
        """real lerax initial() vs the installed Gymnasium at the same qpos, qvel (set_state runs mj_forward)"""
        env, G, jr = self.env, self.G, self.jr
        s0 = env.initial(key=jr.key(self.ck.seed + 5))
        q, v = np.asarray(s0.sim_state.qpos, dtype=np.float64), np.asarray(s0.sim_state.qvel, dtype=np.float64)
        G.g.reset(seed=self.ck.seed)
        G.g.set_state(q, v)
        gd = G.get()
        diffs = {}
        for f in fields:
            mine = np.asarray(getattr(s0.sim_state, f), dtype=np.float64)
            if f in gd and gd[f].size and (mine.shape != gd[f].shape or np.abs(mine - gd[f]).max() > 1e-3):
                diffs[f] = {"lerax_initial": mine.reshape(-1)[:6].tolist(), "gymnasium_after_set_state": gd[f].reshape(-1)[:6].tolist(),
                            "lerax_all_zero": bool(np.all(mine == 0))}
        ob_l = np.asarray(env.observation(s0, key=jr.key(1)), dtype=np.float64)
        ob_g = np.asarray(G.g._get_obs(), dtype=np.float64)
        bad = np.argwhere(np.abs(ob_l - ob_g) > 1e-3 * (1 + np.abs(ob_g))).reshape(-1)
        term_l = bool(env.terminal(s0, key=jr.key(2)))
        term_g = bool(self.ref.terminated(self.R.num_ops(), G.params(), gd)) if self.ref.terminates else False
        info = {"environment": self.name, "qpos": q[:8].tolist(), "qvel": v[:8].tolist(), "derived_leaves_differing": diffs,
                "reset_observation_entries_differing": f"{len(bad)} of {ob_l.size}", "first_differing_entries": bad[:6].tolist(),
                "lerax_obs_there": ob_l[bad[:6]].tolist(), "gymnasium_obs_there": ob_g[bad[:6]].tolist(),
                "terminal_of_reset_state": {"lerax": term_l, "gymnasium_v5_predicate": term_g},
                "how": "real lerax initial(); Gymnasium set_state(qpos, qvel) (runs mj_forward) from the same qpos, qvel"}
        return bool(diffs) or len(bad) > 0 or term_l != term_g, info

    def start_physics(self):
        fd, path = tempfile.mkstemp(suffix=".json", prefix=f"c17_phys_{self.eid}_", dir=os.environ.get("VERIF_SCRATCH", tempfile.gettempdir()))
        os.close(fd)
        self.phys_path = path
        self.phys = subprocess.Popen([sys.executable, "-W", "ignore", "-m", "props.c17_mujoco", "--physics", self.name, str(self.ck.seed), path],
                                     stdout=subprocess.DEVNULL, stderr=subprocess.DEVNULL)
        self.log("real-physics differential run (lerax MJX transition vs Gymnasium step from the same qpos, qvel, action) started in a helper process")

    def replay_passthrough(self, unwritten):
        """Without running the physics: (1) in the jaxpr of the REAL, unstubbed lerax transition (real mjx.step inside lax.scan) the output leaf IS
        the input variable, (2) the real initial() delivers zeros for it, so it is zero along every lerax episode; (3) the installed Gymnasium,
        stepped into a contact state, has it non-zero, and the real lerax observation / transition_info evaluated on Gymnasium's own successor
        data with lerax's value of the leaf differ from Gymnasium's outputs exactly there."""
        import equinox as eqx
        import jax
        from jaxsmt.mjxstubs import leaf_table
        env, G, jr, jnp = self.env, self.G, self.jr, self.jnp
        t0 = time.time()
        jp, _, _ = eqx.filter_make_jaxpr(lambda e, s, a, k: e.transition(s, a, key=k).sim_state)(env, self.s0, self.a0, jr.key(0))
        in_names = [n for n, _ in leaf_table(self.s0.sim_state)]
        n_env = len([l for l in jax.tree_util.tree_leaves(env) if eqx.is_array(l)])
        ins = jp.jaxpr.invars[n_env:n_env + len(in_names)]
        outs = jp.jaxpr.outvars
        ident = {f: (outs[in_names.index(f)] is ins[in_names.index(f)]) for f in unwritten}
        # value of the leaf after the real initial(): only that output is requested, so a forward() that initial() may run is dead code for it
        zero0 = {f: bool(np.all(np.asarray(jax.jit(lambda k, f=f: getattr(env.initial(key=k).sim_state, f))(jr.key(self.ck.seed + 3))) == 0)) for f in unwritten}
        from mujoco import mjx
        from lerax.env.mujoco.base_mujoco import MujocoEnvState
        s0 = MujocoEnvState(sim_state=mjx.make_data(env.model), t=jnp.array(0.0))
        g = G.g
        g.reset(seed=self.ck.seed)
        g.action_space.seed(self.ck.seed)
        for i in range(300):
            Db = G.get()
            a = g.action_space.sample().astype(np.float64)
            ob_g, r_g, term_g, _, info_g = g.step(a)
            if i >= 3 and all(np.abs(getattr(g.data, f)).max() > 1.0 for f in unwritten):
                break
        Da = G.get()

        def state_from(D, ctrl):
            d = s0.sim_state
            top = {}
            imp = {}
            for f in self.R.FIELDS:
                if f in unwritten or not np.asarray(getattr(d, f)).size:
                    continue
                v = jnp.asarray(D[f] if f != "ctrl" else ctrl, jnp.float32).reshape(np.asarray(getattr(d, f)).shape)
                (top if f in d.__dataclass_fields__ else imp)[f] = v
            d = d.replace(**top)
            if imp:
                d = d.tree_replace({"_impl." + k: v for k, v in imp.items()})
            return eqx.tree_at(lambda s: s.sim_state, s0, d)
        sb, sa = state_from(Db, Db["ctrl"]), state_from(Da, a)
        ob_l = np.asarray(env.observation(sa, key=jr.key(1)), dtype=np.float64)
        info_l = env.transition_info(sb, jnp.asarray(a, jnp.float32), sa)
        ob_g = np.asarray(ob_g, dtype=np.float64)
        bad = np.argwhere(np.abs(ob_l - ob_g) > 1e-3 * (1 + np.abs(ob_g))).reshape(-1) if ob_l.shape == ob_g.shape else np.arange(0)
        comp = {k: {"lerax": float(np.asarray(info_l[k])), "gymnasium": float(info_g[k])} for k in sorted(set(info_l) & set(info_g))
                if k.startswith("reward") and abs(float(np.asarray(info_l[k])) - float(info_g[k])) > 1e-4 * (1 + abs(float(info_g[k])))}
        rec = {"environment": self.name, "never_written_leaves_read": unwritten,
               "output_leaf_is_input_variable_in_the_jaxpr_of_the_real_transition": ident, "zero_after_real_initial": zero0,
               "gymnasium_max_abs_after_a_step_into_contact": {f: float(np.abs(getattr(g.data, f)).max()) for f in unwritten},
               "gymnasium_steps_before_the_compared_step": i, "observation_entries_differing": f"{len(bad)} of {ob_l.size}",
               "lerax_obs_there": ob_l[bad[:6]].tolist(), "gymnasium_obs_there": ob_g[bad[:6]].tolist(), "reward_components_differing": comp,
               "seconds": round(time.time() - t0, 1),
               "how": "real lerax transition traced WITHOUT stubs (IR pass-through), real initial(), installed Gymnasium stepped into contact; real lerax "
                      "observation/transition_info on Gymnasium's own successor data with lerax's value of the never-written leaf"}
        rep = all(ident.values()) and all(zero0.values()) and (len(bad) > 0 or bool(comp))
        return rep, rec

    def replay_physics(self, unwritten):
        rep0, rec0 = self.replay_passthrough(unwritten)
        if not self.ck.thorough:
            return rep0, rec0
        rep1, rec1 = self.replay_real_physics(unwritten)
        rec1["without_running_the_physics"] = rec0
        return rep0 or rep1, rec1

    def replay_real_physics(self, unwritten):
        if self.phys is None:
            self.start_physics()
        try:
            self.phys.wait(timeout=600)
            rec = json.load(open(self.phys_path))
        finally:
            try:
                os.unlink(self.phys_path)
            except OSError:
                pass
        rec["never_written_leaves_read"] = unwritten
        rep = False
        for f in unwritten:
            d = rec["leaves"].get(f)
            if d and d["lerax_max_abs"] == 0.0 and d["gymnasium_max_abs"] > 1e-6:
                rep = True
        return rep, rec


# ================================================================== real-physics helper process
def physics_main(name, seed, path):
    import gymnasium as gym
    import equinox as eqx
    import jax.numpy as jnp
    from jax import random as jr

    import lerax.env.mujoco as lm
    from refs import mujoco_v5 as R
    ref = R.REFS[name]()
    rec = {"environment": name, "how": "Gymnasium: reset(seed), a few random steps, set_state(qpos, qvel), step(action); lerax: the real transition (real mjx.step, "
           "frame_skip times) from the same qpos, qvel, action, then the real observation / transition_info"}
    try:
        g = gym.make(ref.gym_id).unwrapped
        g.reset(seed=seed)
        g.action_space.seed(seed)
        for i in range(300):       # a step whose successor is in contact (external contact forces non-zero in Gymnasium)
            q, v = g.data.qpos.copy(), g.data.qvel.copy()
            a = g.action_space.sample()
            g.set_state(q, v)
            ob_g, r_g, term_g, _, info_g = g.step(a)
            if i >= 3 and np.abs(g.data.cfrc_ext).max() > 1.0:
                break
        rec["gymnasium_steps_before_the_compared_step"] = i
        env = getattr(lm, name)()
        from mujoco import mjx
        from lerax.env.mujoco.base_mujoco import MujocoEnvState
        s = MujocoEnvState(sim_state=mjx.make_data(env.model).replace(qpos=jnp.asarray(q, jnp.float32), qvel=jnp.asarray(v, jnp.float32)), t=jnp.array(0.0))
        s1 = env.transition(s, jnp.asarray(a, jnp.float32), key=jr.key(seed + 1))
        ob_l = np.asarray(env.observation(s1, key=jr.key(2)), dtype=np.float64)
        info_l = env.transition_info(s, jnp.asarray(a, jnp.float32), s1)
        rec["qpos"], rec["qvel"], rec["action"] = q[:8].tolist(), v[:8].tolist(), np.asarray(a).tolist()
        rec["leaves"] = {}
        for f in R.FIELDS:
            gl = np.asarray(getattr(g.data, f), dtype=np.float64)
            ll = np.asarray(getattr(s1.sim_state, f), dtype=np.float64)
            if gl.size:
                rec["leaves"][f] = {"lerax_max_abs": float(np.abs(ll).max()), "gymnasium_max_abs": float(np.abs(gl).max())}
        n = ob_l.size
        rec["observation_entries_zero_in_lerax_nonzero_in_gymnasium"] = int(np.sum((ob_l == 0) & (np.abs(np.asarray(ob_g)) > 1e-6))) if np.asarray(ob_g).size == n else None
        rec["info"] = {k: {"lerax": np.asarray(info_l[k]).reshape(-1)[:3].tolist(), "gymnasium": np.asarray(info_g[k]).reshape(-1)[:3].tolist()}
                       for k in sorted(set(info_l) & set(info_g)) if k.startswith("reward")}
    except Exception as ex:  # noqa: BLE001
        rec["error"] = repr(ex) + traceback.format_exc()[-800:]
        rec.setdefault("leaves", {})
    with open(path, "w") as f:
        json.dump(rec, f, default=str)


# ================================================================== worker / driver
def _worker(name, argv, pid):
    """one environment, own process: returns the picklable part of its Check"""
    from jaxsmt.core import Check
    ck = Check(pid, "Gymnasium reference MDPs (MuJoCo worker)", argv=argv)
    ck.mode = "REAL"
    eid = ENV_IDS[name]
    ec = None
    with ck.section(f"mujoco.{eid}.reference"):
        ec = EnvCheck(ck, name)
        ec.defaults()
    if ec is not None:
        with ck.section(f"mujoco.{eid}.formulas"):
            ec.trace_formulas()
            ec.measure()
            ec.formulas()
        with ck.section(f"mujoco.{eid}.pipeline"):
            ec.pipeline()
        if ec.phys is not None and ec.phys.poll() is None:
            ec.phys.kill()
        # documented observation options at their non-default value, one at a time (and all of them together): sizes / advertised space (`defaults`)
        # and the observation layout against the flag-aware v5 reference, itself validated against Gymnasium built with the same options
        opts = [k for k in ec.ref.flags if k != "terminate_when_unhealthy"]
        variants = [{k: False} for k in opts] + ([{k: False for k in opts}] if len(opts) > 1 and ck.thorough else [])
        for fl in variants:
            tag = ",".join(f"{k}={v}" for k, v in fl.items())
            with ck.section(f"mujoco.{eid}.options[{tag}]"):
                ev = EnvCheck(ck, name, flags=fl)
                ev.defaults()
                ev.trace_formulas()
                ev.formulas(only_obs=True)
    ck.log(f"[{eid}] done in {time.time() - ck.t0:.1f}s")
    keep = ("obls", "functions", "bounds", "stubs", "assumptions", "out_of_claim", "samples", "violations", "known_hits", "validation", "solver_time",
            "queries", "notes", "errors")
    d = {k: getattr(ck, k) for k in keep}
    d["inconclusive"] = [ck.obls.index(o) for o in ck.inconclusive]
    return d


def merge(ck, d):
    base = len(ck.obls)
    ck.obls += d["obls"]
    for f in d["functions"]:
        if f not in ck.functions:
            ck.functions.append(f)
    ck.bounds.update(d["bounds"])
    ck.stub(*d["stubs"])
    ck.assume_note(*d["assumptions"])
    ck.out(*d["out_of_claim"])
    have = {s.get("obligation") for s in ck.samples}
    for s in d["samples"]:
        if len(ck.samples) < 10 and (s.get("status") != "unsat" or len(ck.samples) < 4):
            ck.samples.append(s)
    ck.violations += d["violations"]
    ck.known_hits += d["known_hits"]
    ck.inconclusive += [ck.obls[base + i] for i in d["inconclusive"]]
    for k in ("programs", "points", "mismatches"):
        ck.validation[k] += d["validation"][k]
    ck.solver_time += d["solver_time"]
    ck.queries += d["queries"]
    ck.notes += d["notes"]
    ck.errors += d["errors"]


def run(ck, names=None):
    import concurrent.futures as cf
    import multiprocessing as mp
    names = list(names or ENV_IDS)
    if ck.only is not None:     # --replay <file>: only the environment the obligation belongs to (none if it belongs to the classic half)
        names = [n for n in names if ck.only.startswith(ENV_IDS[n] + ".") or ck.only.startswith(ENV_IDS[n] + "[") or ck.only.endswith("@" + ENV_IDS[n]) or f".{ENV_IDS[n]}." in ck.only]
        if not names:
            return
    ck.bound(mujoco_envs=names, mujoco_note="actual model sizes (no reduction); every array field of the environment (weights, ranges, dt, model) and two complete "
             "mjx.Data records are symbolic reals; frame_skip is the constructor default; the boolean observation options are the defaults in the full obligations and, for the observation layout / sizes, each option at its non-default value (one at a time; all together in the thorough tier)")
    ck.out("MJX-vs-MuJoCo physics agreement (physics is uninterpreted), multi-step trajectories, non-finite states (isfinite is true over the reals), "
           "float32 rounding, the distribution of the reset noise")
    argv = ["--tier", ck.tier] + (["--replay", ck.replay_path] if ck.replay_path else [])
    t0 = time.time()
    with ck.section("mujoco.workers"):
        ctx = mp.get_context("spawn")
        with cf.ProcessPoolExecutor(max_workers=min(len(names), max(2, (os.cpu_count() or 4) - 3)), mp_context=ctx) as ex:
            futs = {ex.submit(_worker, n, argv, ck.pid): n for n in names}
            res = {}
            for f in cf.as_completed(futs):
                n = futs[f]
                try:
                    res[n] = f.result()
                except Exception as exn:  # noqa: BLE001
                    ob = ck._new(f"section.mujoco.{ENV_IDS[n]}", "error")
                    ob.status = "harness-error"
                    ob.detail = repr(exn)
                    ck.inconclusive.append(ob)
                    ck.log(f"INCONCLUSIVE worker {n}: {exn!r}")
        for n in names:
            if n in res:
                merge(ck, res[n])
    ck.log(f"MuJoCo half: {len(names)} environments in {time.time() - t0:.1f}s")


if __name__ == "__main__":
    if len(sys.argv) >= 5 and sys.argv[1] == "--physics":
        physics_main(sys.argv[2], int(sys.argv[3]), sys.argv[4])
    else:
        from jaxsmt.core import Check
        ck = Check("C17", "Gymnasium reference MDPs (MuJoCo half only)")
        sel = [a for a in sys.argv[1:] if a in ENV_IDS]
        run(ck, sel or None)
        ck.finish("MuJoCo half of C17 run on its own (development entry point)")
