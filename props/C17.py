"""C17 — built-in environments realise their Gymnasium reference MDPs (classic control + MuJoCo v5)."""
import importlib

from jaxsmt.core import Check


def main():
    ck = Check("C17", "Gymnasium reference MDPs")
    ck.mode = "REAL"
    parts = []
    for mod in ("props.c17_classic", "props.c17_mujoco"):
        try:
            m = importlib.import_module(mod)
        except ModuleNotFoundError as ex:
            if ex.name != mod:
                raise
            continue
        parts.append(mod)
        m.run(ck)
    ck.finish("Classic control: vector fields, limits, rewards, termination and initial ranges of the real lerax environments (symbolic constructor "
              "parameters, transcendental functions uninterpreted) are compared with short reference models of the Gymnasium semantics, which are "
              "themselves validated against the installed Gymnasium on every run. MuJoCo: observation layout, reward, reward components, termination "
              "and reset consistency with the physics engine replaced by uninterpreted functions of (qpos, qvel, ctrl) whose write-set is read from "
              "the IR of the real mjx.forward/step. Parts run: " + ", ".join(parts))


if __name__ == "__main__":
    main()
