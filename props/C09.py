"""C09 — each epoch partitions the rollout into disjoint, intact minibatches.

Encoded (real lerax code, traced from the current tree): `AbstractBuffer.batch_indices`, `gather`, `batches`, `flatten_axes`,
`RolloutBuffer.sample`, `PPO.train` / `train_epoch` / `train_batch` (index plumbing, over a tabular harness policy), and
`AbstractBuffer.resolve_axes` (pure Python, by CrossHair).  `jax.random.permutation` / `choice` are contract stubs: an ARBITRARY
permutation (distinct, in range) / arbitrary distinct indices.

Ghost tags: the integer observation leaf `tag` identifies the collected sample (assumed pairwise distinct); all other leaves
(nested dict / tuple observations and actions, mask, policy state, scalars) are free symbols.  "A minibatch row is one collected
sample with all of its fields" is then "every leaf of the row equals the leaf of the collected sample that has the row's tag".
"""
import os
import re
import subprocess
import sys
import time
from fractions import Fraction
from typing import ClassVar

import equinox as eqx
import jax
import jax.numpy as jnp
import numpy as np
import optax
import z3
from jax import random as jr

from jaxsmt import concrete, solve, stubs
from jaxsmt.core import Check, conj, disj, eq_elem, implies
from jaxsmt.harness import UFPolState
from jaxsmt.interp import Interp
from jaxsmt.ops import KeyS
from jaxsmt.trace import trace

from lerax.algorithm import PPO
from lerax.buffer import RolloutBuffer
from lerax.buffer.base_buffer import AbstractBuffer
from lerax.policy import AbstractActorCriticPolicy
from lerax.space import Discrete

TAG = "observations_tag"
ROOT = os.path.dirname(os.path.dirname(os.path.abspath(__file__)))


# ------------------------------------------------------------------------------------------------ harness objects
def mkrb(lead):
    """a rollout buffer with pytree-structured observations / actions, an action mask and a policy state; leading axes `lead`"""
    lead = tuple(lead)

    def z(*t, dt=float):
        return jnp.zeros(lead + t, dt)
    obs = {"cam": {"pix": z(2), "img": z(2, 2)}, "tag": z(dt=int)}       # img: an image-like leaf (two feature axes)
    act = (z(dt=int), {"torque": z(1)})
    return RolloutBuffer(observations=obs, actions=act, rewards=z(), dones=z(dt=bool), log_probs=z(), values=z(), states=UFPolState(z(1)),
                         action_masks=z(3, dt=bool), returns=z(), advantages=z())


def lead_of(E, S):
    return (S,) if E == 1 else (E, S)          # on-policy algorithms build (S,) buffers for one environment, (E,S) otherwise


class Rows:
    """row view of the symbolic input buffer (rows = collected samples, in any enumeration) and of an output"""

    def __init__(self, tr, S, nlead, prefix="buf_"):
        self.leaves = [n[len(prefix):] for n in tr.in_names if n.startswith(prefix)]
        self.rows = {}
        for L in self.leaves:
            a = S[prefix + L]
            self.rows[L] = a.reshape((int(np.prod(a.shape[:nlead])),) + a.shape[nlead:])
        self.n = self.rows[TAG].shape[0]
        self.tags = list(self.rows[TAG])

    def distinct(self):
        return [z3.Distinct(self.tags)] if self.n > 1 else []


def out_rows(out, leaves, nlead):
    r = {}
    for L in leaves:
        a = out[L]
        r[L] = a.reshape((int(np.prod(a.shape[:nlead])),) + a.shape[nlead:])
    return r


def g_member(R, orow):
    return conj([disj([eq_elem(t, s) for s in R.tags]) for t in orow[TAG]])


def g_distinct(orow):
    ts = list(orow[TAG])
    return conj([ts[a] != ts[b] for a in range(len(ts)) for b in range(a + 1, len(ts))])


def g_aligned(R, orow):
    cs = []
    for b, t in enumerate(orow[TAG]):
        for i, s in enumerate(R.tags):
            same = []
            for L in R.leaves:
                for x, y in zip(np.asarray(orow[L][b], dtype=object).reshape(-1), np.asarray(R.rows[L][i], dtype=object).reshape(-1)):
                    same.append(eq_elem(x, y))
            cs.append(implies(eq_elem(t, s), conj(same)))
    return conj(cs)


def bounded_inputs(S, tr, ilim=1000, flim=64):
    """only used to pick a replayable (int32 / float32 friendly) model, never in the main query"""
    out = []
    for n, av in zip(tr.in_names, tr.in_avals):
        if "key" in str(av.dtype) or np.dtype(av.dtype) == np.bool_:
            continue
        lim = ilim if np.issubdtype(np.dtype(av.dtype), np.integer) else flim
        for x in S[n].reshape(-1):
            if isinstance(x, z3.ExprRef):
                out.append(z3.And(x >= -lim, x <= lim))
    return out


def real_rows(tr, S, res, it, nlead_in, nlead_out):
    """run the real function on the model's inputs (PRNG stub bound to the model's draw) and return row views of input and output"""
    keys = concrete.KeyBinding(res)
    w = concrete.ModelWorld(res, it.uf_apps, keys)
    vals = [concrete.model_leaf(res, S[n], av, keys) for n, av in zip(tr.in_names, tr.in_avals)]
    inp = dict(zip(tr.in_names, vals))
    m = dict(zip(tr.out_names, concrete.run_real(tr, vals, w)))

    def rows(d, names, nl, pre=""):
        r = {}
        for L in names:
            a = np.asarray(d[pre + L])
            r[L] = a.reshape((int(np.prod(a.shape[:nl])),) + a.shape[nl:])
        return r
    leaves = [n[4:] for n in tr.in_names if n.startswith("buf_")]
    return rows(inp, leaves, nlead_in, "buf_"), rows(m, [L for L in leaves if L in m], nlead_out), w, inp, m


def concrete_check(irow, orow, what, expect_rows=None):
    """the statement evaluated on concrete data: tags of the output rows are collected samples, no tag twice, every leaf of a row
    equals the leaf of the collected sample with that tag"""
    it_, ot = irow[TAG].tolist(), orow[TAG].tolist()
    bad = []
    if expect_rows is not None and len(ot) != expect_rows:
        bad.append({"rows_returned": len(ot), "expected": expect_rows})
    if "member" in what:
        for b, t in enumerate(ot):
            if t not in it_:
                bad.append({"row": b, "tag": t, "problem": "not a collected sample"})
    if "distinct" in what and len(set(ot)) < len(ot):
        bad.append({"returned_tags": ot, "problem": "a sample is used twice"})
    if "aligned" in what:
        for b, t in enumerate(ot):
            if t in it_:
                i = it_.index(t)
                for L in irow:
                    if L in orow and not np.array_equal(orow[L][b], irow[L][i]):
                        bad.append({"row": b, "tag": t, "leaf": L, "returned": np.asarray(orow[L][b]).tolist(), "collected": np.asarray(irow[L][i]).tolist()})
    return bad


def mk_replay(tr, S, it, nlead_in, nlead_out, what, label, expect_rows=None):
    def rp(res):
        irow, orow, w, inp, m = real_rows(tr, S, res, it, nlead_in, nlead_out)
        bad = concrete_check(irow, orow, what, expect_rows)
        info = {"function": label, "collected_tags": irow[TAG].tolist(), "returned_tags": orow[TAG].tolist(), "draw_bound_to_model": w.hits, "failures": bad[:6],
                "note": "the PRNG stub returns the model's draw, which satisfies the documented contract of the stubbed sampler"}
        return bool(bad), info
    return rp



def stubbed(real):
    """the same call with jax.random.permutation / choice replaced by their contract stubs (tracing, translator validation, replay)"""
    def fn(*a):
        with stubs.prng_stubs():
            return real(*a)
    return fn


def trace_or_violation(ck, oid, real, args, argnames, label, stub=True):
    """trace the real callable; if it cannot even be called for this (valid) static configuration -- the same exception when it is simply
    run on concrete data with the real PRNG -- the statement fails for the configuration: reported as a reproduced violation"""
    try:
        return trace(stubbed(real) if stub else real, *args, argnames=argnames, label=label)
    except Exception as ex:  # noqa: BLE001
        try:
            jax.block_until_ready(real(*args))
        except Exception as ex2:  # noqa: BLE001
            ck.fact(oid, False, f"{label} raises {type(ex2).__name__}: {str(ex2)[:300]} when called concretely for this configuration (real PRNG); tracing failed with {type(ex).__name__}")
            return None
        raise


# ------------------------------------------------------------------------------------------------ batch_indices
def sec_indices(ck, N, B, first=False, tail=()):
    # tail: further (unflattened) batch axes behind the leading one -- the buffer a partial flattening leaves (batches(batch_axes=0): whole trajectories
    # per minibatch row): the indices still address the LEADING axis only
    buf = mkrb((N,) + tuple(tail))
    if tail:
        return _sec_indices_tail(ck, buf, N, B, tail)

    tr = trace_or_violation(ck, f"idx.count@N={N},B={B}", lambda b, k: b.batch_indices(B, key=k), (buf, jr.key(0)), ["buf", "key"], "AbstractBuffer.batch_indices")
    if tr is None:
        return
    if first:
        ck.encoded(tr)
        concrete.validate(ck, tr, n=2, seed=ck.seed)
    it = Interp()
    S = tr.symbols(it)
    out = tr.run(it, S)
    (oname,) = tr.out_names
    idx = out[oname]
    nb = N // B
    ck.fact(f"idx.count@N={N},B={B}", tuple(idx.shape) == (nb, B) or (idx.ndim == 2 and idx.shape[1] == B and idx.size == nb * B),
            f"index matrix shape {tuple(idx.shape)}; the statement requires floor(N/B)={nb} minibatches of B={B} (fewer than B samples dropped)")
    flat = list(idx.reshape(-1))
    A = stubs.contracts(it)
    g = conj([z3.And(x >= 0, x < N) if isinstance(x, z3.ExprRef) else (0 <= x < N) for x in flat]
             + [flat[a] != flat[b] for a in range(len(flat)) for b in range(a + 1, len(flat))])

    def rp(res):
        keys = concrete.KeyBinding(res)
        w = concrete.ModelWorld(res, it.uf_apps, keys)
        vals = [concrete.model_leaf(res, S[n], av, keys) for n, av in zip(tr.in_names, tr.in_avals)]
        got = np.asarray(concrete.run_real(tr, vals, w)[0]).reshape(-1).tolist()
        bad = (len(set(got)) < len(got)) or any(not (0 <= x < N) for x in got) or len(got) != nb * B
        return bad, {"function": tr.label, "N": N, "B": B, "index_matrix": got, "draw_bound_to_model": w.hits}
    if flat:
        ck.prove(f"idx.partition@N={N},B={B}", A, g, replay=rp)
    # key=None: sequential indices (concrete program, no inputs that matter)
    seq = np.asarray(buf.batch_indices(B, key=None))
    ck.fact(f"idx.partition.sequential@N={N},B={B}", seq.shape == (nb, B) and sorted(seq.reshape(-1).tolist()) == list(range(nb * B)),
            f"key=None gives {seq.tolist()}")
    if first and flat:
        ck.control(f"control.idx.needs_permutation_contract@N={N},B={B}", [], g)
        ck.control(f"control.idx.last_sample_never_used@N={N},B={B}", A, conj([x < N - 1 for x in flat]))


def _sec_indices_tail(ck, buf, N, B, tail):
    cfg = f"N={N},B={B},trailing_batch_axes={tuple(tail)}".replace(" ", "")
    tr = trace_or_violation(ck, f"idx.count@{cfg}", lambda b, k: b.batch_indices(B, key=k), (buf, jr.key(0)), ["buf", "key"], f"AbstractBuffer.batch_indices on a {(N,) + tuple(tail)} buffer")
    if tr is None:
        return
    it = Interp()
    S = tr.symbols(it)
    idx = tr.run(it, S)[tr.out_names[0]]
    nb = N // B
    ck.fact(f"idx.count@{cfg}", idx.ndim == 2 and idx.shape[1] == B and idx.size == nb * B, f"index matrix shape {tuple(idx.shape)}; floor(N/B)={nb} minibatches of B={B} rows of the leading axis")
    flat = list(idx.reshape(-1))
    g = conj([z3.And(x >= 0, x < N) if isinstance(x, z3.ExprRef) else (0 <= x < N) for x in flat] + [flat[a] != flat[b] for a in range(len(flat)) for b in range(a + 1, len(flat))])

    def rp(res):
        keys = concrete.KeyBinding(res)
        w = concrete.ModelWorld(res, it.uf_apps, keys)
        vals = [concrete.model_leaf(res, S[n], av, keys) for n, av in zip(tr.in_names, tr.in_avals)]
        got = np.asarray(concrete.run_real(tr, vals, w)[0]).reshape(-1).tolist()
        bad = (len(set(got)) < len(got)) or any(not (0 <= x < N) for x in got) or len(got) != nb * B
        return bad, {"function": tr.label, "leading_axis": N, "B": B, "index_matrix": got, "note": "indices beyond the leading axis make gather/take fill rows with NaN / clamp to the last row"}
    ck.prove(f"idx.partition@{cfg}", stubs.contracts(it), g, replay=rp)


# ------------------------------------------------------------------------------------------------ batches (flatten + indices + take)
def sec_batches(ck, E, S_, B, first=False, controls=False):
    N = E * S_
    lead = lead_of(E, S_)
    buf = mkrb(lead)
    cfg = f"E={E},S={S_},B={B}"

    tr = trace_or_violation(ck, f"idx.count@batches,{cfg}", lambda b, k: b.batches(B, key=k), (buf, jr.key(0)), ["buf", "key"], "AbstractBuffer.batches")
    if tr is None:
        return
    if first:
        ck.encoded(tr)
        concrete.validate(ck, tr, n=2, seed=ck.seed)
    it = Interp()
    S = tr.symbols(it)
    out = tr.run(it, S)
    R = Rows(tr, S, len(lead))
    nb = N // B
    shp = tuple(out[TAG].shape)
    ck.fact(f"idx.count@batches,{cfg}", shp == (nb, B), f"stacked minibatches have leading shape {shp}; required ({nb},{B})")
    if nb == 0:
        return
    orow = out_rows(out, R.leaves, 2)
    A = R.distinct() + stubs.contracts(it)
    small = bounded_inputs(S, tr)
    for oid, g, what in ((f"idx.partition@batches,{cfg}", conj([g_member(R, orow), g_distinct(orow)]), "member distinct"),
                         (f"gather.aligned@batches,{cfg}", g_aligned(R, orow), "aligned")):
        ck.prove(oid, A, g, replay=mk_replay(tr, S, it, len(lead), 2, what, tr.label + f"[{cfg}]", expect_rows=nb * B), margin_goal=implies(conj(small), g))
    if controls:
        ck.witness(f"witness.batches.assumptions@{cfg}", A)
        ck.control(f"control.batches.distinct_needs_contract@{cfg}", R.distinct(), g_distinct(orow))
        # wrong reference: every leaf except the rewards taken with the minibatch index, the rewards with the identity
        wrong = dict(orow)
        wrong["rewards"] = np.array([R.rows["rewards"][b % N] for b in range(nb * B)], dtype=object)
        ck.control(f"control.batches.rewards_not_shuffled@{cfg}", A, g_aligned(R, wrong))


# ------------------------------------------------------------------------------------------------ gather
def sec_gather(ck, N, B, first=False):
    buf = mkrb((N,))
    tr = trace_or_violation(ck, f"gather.aligned@N={N},B={B}", lambda b, i: b.gather(i), (buf, jnp.zeros(B, jnp.int32)), ["buf", "idx"], "AbstractBuffer.gather", stub=False)
    if tr is None:
        return
    if first:
        ck.encoded(tr)
        concrete.validate(ck, tr, n=2, seed=ck.seed)
    it = Interp()
    S = tr.symbols(it)
    out = tr.run(it, S)
    R = Rows(tr, S, 1)
    orow = out_rows(out, R.leaves, 1)
    idx = list(S["idx"])
    A = R.distinct() + [z3.And(i >= 0, i < N) for i in idx]
    # row b is the collected sample number idx[b] (ite over the index), and all of its leaves come from that sample
    pick = conj([disj([z3.And(idx[b] == i, orow[TAG][b] == R.tags[i]) for i in range(N)]) for b in range(B)])
    g = conj([pick, g_aligned(R, orow)])
    small = bounded_inputs(S, tr)
    ck.prove(f"gather.aligned@N={N},B={B}", A, g, replay=mk_replay(tr, S, it, 1, 1, "member aligned", tr.label), margin_goal=implies(conj(small), g))
    if first:
        ck.control(f"control.gather.row_is_next_index@N={N},B={B}", A, conj([disj([z3.And(idx[b] == i, orow[TAG][b] == R.tags[(i + 1) % N]) for i in range(N)]) for b in range(B)]))


# ------------------------------------------------------------------------------------------------ flatten_axes
def sec_flatten(ck, E, S_, first=False, axes=None):
    lead = (E, S_)
    buf = mkrb(lead)
    if axes is not None:
        # an explicit order of the batch axes (any order is a valid request): every leaf, whatever its rank, must be rearranged the same way
        tag = f"E={E},S={S_},batch_axes={axes}".replace(" ", "")
        tr = trace_or_violation(ck, f"flatten.count@{tag}", lambda b: b.flatten_axes(axes), (buf,), ["buf"], f"AbstractBuffer.flatten_axes({axes})", stub=False)
        if tr is None:
            return
        it = Interp()
        S = tr.symbols(it)
        out = tr.run(it, S)
        R = Rows(tr, S, 2)
        N = E * S_
        ok_shape = all(tuple(out[L].shape) == (N,) + tuple(S["buf_" + L].shape[2:]) for L in R.leaves)
        ck.fact(f"flatten.count@{tag}", ok_shape, f"every leaf has {N} rows after flattening the batch axes in the order {axes}")
        if not ok_shape:
            return
        orow = out_rows(out, R.leaves, 1)
        onto = conj([disj([eq_elem(orow[TAG][i], t) for i in range(N)]) for t in R.tags])
        g = conj([onto, g_aligned(R, orow)])

        def rp(res):
            irow, orow_, w, inp, m = real_rows(tr, S, res, it, 2, 1)
            bad = concrete_check(irow, orow_, "member distinct aligned", expect_rows=N)
            return bool(bad), {"function": tr.label, "collected_tags": irow[TAG].tolist(), "flattened_tags": orow_[TAG].tolist(), "failures": bad[:6]}
        ck.prove(f"flatten.bijection@{tag}", R.distinct(), g, replay=rp, margin_goal=implies(conj(bounded_inputs(S, tr)), g))
        return
    tr = trace_or_violation(ck, f"flatten.count@E={E},S={S_}", lambda b: b.flatten_axes(), (buf,), ["buf"], "AbstractBuffer.flatten_axes", stub=False)
    if tr is None:
        return
    if first:
        ck.encoded(tr)
        concrete.validate(ck, tr, n=2, seed=ck.seed)
    it = Interp()
    S = tr.symbols(it)
    out = tr.run(it, S)
    R = Rows(tr, S, 2)
    N = E * S_
    ok_shape = all(tuple(out[L].shape) == (N,) + tuple(S["buf_" + L].shape[2:]) for L in R.leaves)
    ck.fact(f"flatten.count@E={E},S={S_}", ok_shape, f"every leaf has {N} rows after flattening the (environment, step) axes")
    if not ok_shape:
        return
    orow = out_rows(out, R.leaves, 1)
    A = R.distinct()
    # bijection: every collected sample occurs among the N flattened rows (N rows, N distinct samples => exactly once) ...
    onto = conj([disj([eq_elem(orow[TAG][i], t) for i in range(N)]) for t in R.tags])
    g = conj([onto, g_aligned(R, orow)])          # ... and the same rearrangement is applied to every leaf

    def rp(res):
        irow, orow_, w, inp, m = real_rows(tr, S, res, it, 2, 1)
        bad = concrete_check(irow, orow_, "member distinct aligned", expect_rows=N)
        return bool(bad), {"function": tr.label, "collected_tags": irow[TAG].tolist(), "flattened_tags": orow_[TAG].tolist(), "failures": bad[:6]}
    small = bounded_inputs(S, tr)
    ck.prove(f"flatten.bijection@E={E},S={S_}", A, g, replay=rp, margin_goal=implies(conj(small), g))
    if first and E > 1 and S_ > 1:
        wrong = dict(orow)
        wrong["rewards"] = np.array([R.rows["rewards"][(i % E) * S_ + i // E] for i in range(N)], dtype=object)       # one leaf flattened step-major
        ck.control(f"control.flatten.one_leaf_step_major@E={E},S={S_}", A, g_aligned(R, wrong))


# ------------------------------------------------------------------------------------------------ RolloutBuffer.sample
def sec_sample(ck, E, S_, B, first=False):
    lead = lead_of(E, S_)
    buf = mkrb(lead)
    cfg = f"E={E},S={S_},B={B}"

    tr = trace_or_violation(ck, f"gather.aligned@sample,{cfg}", lambda b, k: b.sample(B, key=k), (buf, jr.key(0)), ["buf", "key"], "RolloutBuffer.sample")
    if tr is None:
        return
    if first:
        ck.encoded(tr)
        concrete.validate(ck, tr, n=2, seed=ck.seed)
    it = Interp()
    S = tr.symbols(it)
    out = tr.run(it, S)
    R = Rows(tr, S, len(lead))
    orow = out_rows(out, R.leaves, 1)
    A = R.distinct() + stubs.contracts(it)
    g = conj([g_member(R, orow), g_distinct(orow), g_aligned(R, orow)])
    small = bounded_inputs(S, tr)
    ck.prove(f"gather.aligned@sample,{cfg}", A, g, replay=mk_replay(tr, S, it, len(lead), 1, "member distinct aligned", tr.label + f"[{cfg}]", expect_rows=B),
             margin_goal=implies(conj(small), g))


# ------------------------------------------------------------------------------------------------ PPO.train over a tabular policy
class TabPolicy(AbstractActorCriticPolicy):
    """value-only tabular policy: the observation is the number of the collected sample, which owns one table entry; the action
    distribution is constant (log-probability 0, entropy 0), so only the value loss moves the parameters"""
    name: ClassVar[str] = "Tab"
    action_space: Discrete
    observation_space: Discrete
    table: jax.Array

    def __init__(self, n):
        self.action_space = Discrete(2)
        self.observation_space = Discrete(n)
        self.table = jnp.zeros(n)

    def reset(self, *, key):
        return None

    def __call__(self, state, observation, *, key=None, action_mask=None):
        return None, jnp.array(0)

    def action_and_value(self, state, observation, *, key, action_mask=None):
        return None, jnp.array(0), self.table[observation], jnp.array(0.0)

    def value(self, state, observation):
        return None, self.table[observation]

    def evaluate_action(self, state, observation, action, *, action_mask=None):
        return None, self.table[observation], jnp.array(0.0), jnp.array(0.0)


class SGDPPO(PPO):
    """the real PPO (train / train_epoch / train_batch / ppo_loss untouched) with a plain-SGD optimiser instead of clip+adam"""

    def __init__(self, lr, **kw):
        super().__init__(**kw)
        self.optimizer = optax.sgd(lr)


LR = 0.5


def trace_train(ck, oid, E, S_, K, NB):
    N = E * S_
    lead = lead_of(E, S_)
    algo = SGDPPO(LR, num_envs=E, num_steps=S_, num_epochs=K, num_batches=NB, normalize_advantages=False, clip_value_loss=False,
                  value_loss_coefficient=1.0, entropy_loss_coefficient=0.0)
    pol = TabPolicy(N)

    def z(dt=float):
        return jnp.zeros(lead, dt)
    buf = RolloutBuffer(observations=jnp.arange(N).reshape(lead), actions=z(int), rewards=z(), dones=z(bool), log_probs=z(), values=z(), states=None,
                        returns=z(), advantages=z())
    opt_state = algo.optimizer.init(eqx.filter(pol, eqx.is_inexact_array))

    def real(pol, opt_state, buf, key):
        p, o, log = algo.train(pol, opt_state, buf, key=key)
        return {"table": p.table}
    tr = trace_or_violation(ck, oid, real, (pol, opt_state, buf, jr.key(0)), ["pol", "opt", "buf", "key"], "PPO.train[TabPolicy,SGD]")
    return tr, algo, lead


def perm_keys(it):
    ks = []
    for name, oi, idx, ops, t in it.uf_apps:
        if name == "RAND_permutation" and tuple(idx) == (0,):
            ks.append(ops[0])
    return ks


def sec_keys(ck, E, S_, K, NB, first=False):
    cfg = f"E={E},S={S_},epochs={K},batches={NB}"
    tr, algo, lead = trace_train(ck, f"epochs.one_shuffle_per_epoch@{cfg}", E, S_, K, NB)
    if tr is None:
        return
    N = E * S_
    if first:
        ck.encoded(tr)
    it = Interp()
    S = tr.symbols(it, given={"buf_observations": it.lift(np.arange(N).reshape(lead))})
    tr.run(it, S)
    ks = perm_keys(it)
    ck.fact(f"epochs.one_shuffle_per_epoch@{cfg}", len(ks) == K, f"{len(ks)} applications of jax.random.permutation reach the symbolic execution of PPO.train; num_epochs={K}")
    root = S["key"][()]

    def derived(t):
        return any(c.eq(root) for c in concrete.key_terms([t]))
    ck.fact(f"epochs.keys_derived_from_train_key@{cfg}", all(derived(k) for k in ks),
            "every permutation key is derived from the key given to train (so the shuffle changes with it): " + ", ".join(str(k) for k in ks))
    if len(ks) < 2:
        return
    ax = concrete.key_axioms(ks + [root])
    goal = conj([(ks[a] != ks[b]) if not ks[a].eq(ks[b]) else False for a in range(len(ks)) for b in range(a + 1, len(ks))])

    def rp(res):
        # run the real PPO.train on concrete data and record the keys that reach the (stubbed) permutation
        from jaxsmt.uf import GenericWorld
        w = GenericWorld(seed=7)
        rng = np.random.default_rng(0)
        vals = [concrete.random_leaf(av, rng, nm) for nm, av in zip(tr.in_names, tr.in_avals)]
        vals[tr.in_names.index("buf_observations")] = jnp.arange(N).reshape(lead)
        concrete.run_real(tr, vals, w)
        seen = [np.asarray(ops[0]).tolist() for name, ops, r in w.calls if name == "RAND_permutation"]
        # a pure draw with loop-invariant arguments may be hoisted out of the epoch scan and executed once: fewer than K distinct keys = reuse
        dup = len({str(s) for s in seen}) < K
        return dup, {"function": tr.label, "num_epochs": K, "key_data_reaching_permutation": seen,
                     "problem": f"{len({str(s) for s in seen})} distinct shuffle key(s) for {K} epochs" if dup else ""}
    ck.prove(f"epochs.fresh_keys@{cfg}", ax, goal, replay=rp)
    if first:
        ck.control(f"control.epochs.keys_equal_without_key_axioms@{cfg}", [], goal)


def sec_visits(ck, E, S_, K, NB, timeout=None):
    N = E * S_
    B = N // NB
    nb = N // B
    cfg = f"E={E},S={S_},B={B},epochs={K}"
    tr, algo, lead = trace_train(ck, f"train.visit_counts@{cfg}", E, S_, K, NB)
    if tr is None:
        return None
    ck.encoded(tr)
    it = Interp()
    S = tr.symbols(it, given={"buf_observations": it.lift(np.arange(N).reshape(lead))})
    out = tr.run(it, S)
    fin = out["table"]
    tab = S["pol_table"]
    ret = S["buf_returns"].reshape(-1)
    # one visit of sample i by plain SGD on mean_b (v_b - ret_b)^2 / 2 moves (table_i - ret_i) to r * (table_i - ret_i), r = 1 - lr/B
    r = 1 - Fraction(LR) / B
    assert 0 < r < 1
    maxc = K * nb * B
    A = stubs.contracts(it) + [tab[i] != ret[i] for i in range(N)]
    cnt = []
    readable = []
    for i in range(N):
        d, g0 = fin[i] - ret[i], tab[i] - ret[i]
        c = z3.IntVal(-1)
        for k in range(maxc, -1, -1):
            c = z3.If(d == g0 * (r ** k), k, c)
        cnt.append(c)
        readable.append(c >= 0)
    used = nb * B
    goal = conj(readable + [c <= K for c in cnt] + [z3.Sum(cnt) == K * used] + ([c == K for c in cnt] if used == N else []))

    def rp(res):
        keys = concrete.KeyBinding(res)
        w = concrete.ModelWorld(res, it.uf_apps, keys)
        vals = [concrete.model_leaf(res, S[n], av, keys) for n, av in zip(tr.in_names, tr.in_avals)]
        inp = dict(zip(tr.in_names, vals))
        fin_ = np.asarray(concrete.run_real(tr, vals, w)[0], dtype=np.float64)
        t0, rt = np.asarray(inp["pol_table"], dtype=np.float64), np.asarray(inp["buf_returns"], dtype=np.float64).reshape(-1)
        counts = []
        for i in range(N):
            ratio = (fin_[i] - rt[i]) / (t0[i] - rt[i])
            c = np.log(max(ratio, 1e-30)) / np.log(float(r))
            counts.append(float(c))
        rc = [int(round(c)) for c in counts]
        bad = any(abs(c - k) > 0.05 for c, k in zip(counts, rc)) or any(k > K or k < 0 for k in rc) or sum(rc) != K * used or (used == N and any(k != K for k in rc))
        return bad, {"function": tr.label, "config": cfg, "visit_counts_read_off_final_parameters": counts, "required": f"each <= {K}, sum == {K * used}",
                     "draw_bound_to_model": w.hits}
    small = bounded_inputs(S, tr, flim=8) + [z3.Or(tab[i] - ret[i] >= 1, ret[i] - tab[i] >= 1) for i in range(N)]
    ck.prove(f"train.visit_counts@{cfg}", A, goal, replay=rp, margin_goal=implies(conj(small), goal), timeout=timeout)
    return it, S, cnt, A, K, used, N


# ------------------------------------------------------------------------------------------------ resolve_axes (CrossHair)
CH_HEAD = '''"""generated by props/C09.py -- CrossHair harness for the REAL AbstractBuffer.resolve_axes (pure Python integer logic)."""
from typing import Optional, Tuple
from lerax.buffer.base_buffer import AbstractBuffer


class _Shape:
    def __init__(self, ndim):
        self.shape = (1,) * ndim


class _Axes(tuple):
    """a tuple whose text form does not depend on its elements: the error message of resolve_axes formats its argument, which would
    force CrossHair to enumerate concrete values; everything else about the argument is an ordinary tuple of symbolic ints"""
    def __format__(self, spec):
        return "<axes>"


def _call(ndim, axes):
    try:
        return AbstractBuffer.resolve_axes(_Shape(ndim), axes)
    except ValueError:
        return None


def _valid(ndim, axes):
    norm = [a + ndim if a < 0 else a for a in axes]
    return all(0 <= a < ndim for a in norm) and len(set(norm)) == len(norm)


def _ok(ndim, ret, axes):
    return len(ret) == len(axes) and len(set(ret)) == len(ret) and all(0 <= x < ndim for x in ret) and all((x - y) % ndim == 0 for x, y in zip(ret, axes))

'''


def ch_source(ndims, arities):
    body = ""
    for nd in ndims:
        body += f'''
def ra_none_{nd}() -> Optional[Tuple[int, ...]]:
    """
    post: __return__ == tuple(range({nd}))
    """
    return _call({nd}, None)

''' + (f'''
def ra_int_valid_{nd}(a: int) -> Optional[Tuple[int, ...]]:
    \"\"\"
    pre: -{nd} <= a < {nd}
    post: __return__ is not None and _ok({nd}, __return__, (a,))
    \"\"\"
    return _call({nd}, a)
''' if nd > 0 else '') + f'''

def ra_int_invalid_{nd}(a: int) -> Optional[Tuple[int, ...]]:
    """
    pre: not (-{nd} <= a < {nd})
    pre: -{nd} - 4 <= a <= {nd} + 4
    post: __return__ is None
    """
    return _call({nd}, a)

'''
        for ar in arities:
            args = ", ".join(f"a{i}: int" for i in range(ar))
            tup = "(" + ", ".join(f"a{i}" for i in range(ar)) + ("," if ar == 1 else "") + ")"
            body += f'''
def ra_tuple{ar}_{nd}({args}) -> Optional[Tuple[int, ...]]:
    """
    post: (__return__ is None) == (not _valid({nd}, {tup}))
    post: __return__ is None or _ok({nd}, __return__, {tup})
    """
    return _call({nd}, _Axes({tup}))

'''
    return CH_HEAD + body


def sec_resolve_axes(ck, ndims, arities, per_cond):
    scratch = os.environ.get("VERIF_SCRATCH", os.path.join(ROOT, ".scratch"))
    os.makedirs(scratch, exist_ok=True)
    path = os.path.join(scratch, "C09_resolve_axes_harness.py")
    src = ch_source(ndims, arities)
    with open(path, "w") as f:
        f.write(src)
    lines = src.splitlines()
    # line number -> (function, condition text)
    conds = {}
    cur = None
    for ln, text in enumerate(lines, 1):
        m = re.match(r"def (ra_\w+)\(", text)
        if m:
            cur = m.group(1)
        if text.strip().startswith("post:") and cur:
            conds[ln] = (cur, text.strip())
    env = dict(os.environ)
    t0 = time.time()
    p = subprocess.run([os.path.join(ROOT, ".venv", "bin", "crosshair"), "check", "--report_all", "--per_condition_timeout", str(per_cond), path],
                       capture_output=True, text=True, env=env, timeout=per_cond * len(conds) + 120)
    dt = time.time() - t0
    ck.log(f"crosshair: {len(conds)} conditions on {os.path.basename(path)} in {dt:.1f}s")
    ck.solver_time += dt
    seen = {}
    for line in (p.stdout + "\n" + p.stderr).splitlines():
        m = re.match(r".*?:(\d+): (info|error): (.*)", line)
        if m and int(m.group(1)) in conds:
            seen[int(m.group(1))] = (m.group(2), m.group(3))
    import lerax.buffer.base_buffer as bb
    ck.functions.append({"function": "AbstractBuffer.resolve_axes (Python source, CrossHair)", "equations": 0, "inputs": 1, "outputs": 1})
    for ln, (fname, text) in sorted(conds.items()):
        oid = f"resolve_axes.crosshair@{fname}:{'iff_valid' if '_valid' in text and '==' in text else 'result'}" if "tuple" in fname else f"resolve_axes.crosshair@{fname}"
        ob = ck._new(oid, "prove")
        ob.solver = "crosshair (z3)"
        ck.queries += 1
        kind, msg = seen.get(ln, ("missing", "no verdict reported"))
        if kind == "info" and "Confirmed over all paths" in msg:
            ob.status = "unsat"
            continue
        if kind == "error":
            # replay the counterexample on the real method of a real buffer
            m = re.search(r"when calling (\w+)\((.*?)\)(?: \(which|$)", msg)
            rep, info = False, {"crosshair": msg}
            if m:
                nd = int(fname.rsplit("_", 1)[1])
                argv = [int(x) for x in re.findall(r"(?<![\w.])-?\d+", re.sub(r"\w+\s*=", "", m.group(2)))]
                axes = None if "none" in fname else (argv[0] if "int" in fname else tuple(argv))
                real = mkrb((1,) * nd) if nd else None
                try:
                    got = AbstractBuffer.resolve_axes(real if real is not None else type("S", (), {"shape": ()})(), axes)
                except ValueError:
                    got = None
                tup = () if axes is None else ((axes,) if isinstance(axes, int) else tuple(axes))
                norm = [a + nd if a < 0 else a for a in tup]
                valid = all(0 <= a < nd for a in norm) and len(set(norm)) == len(norm)
                want = tuple(range(nd)) if axes is None else (tuple(norm) if valid else None)
                rep = got != want
                info.update({"ndim": nd, "batch_axes": axes, "real_method_returns": got, "required": want if want is not None else "ValueError"})
            if rep:
                ck._violation(ob, info, replay_info=info, reproduced=True)
            else:
                ob.status = "sat-unreproduced"
                ob.detail = str(info)[:600]
                ck.inconclusive.append(ob)
                ck.log(f"INCONCLUSIVE {oid}: CrossHair counterexample did not reproduce on the real method: {ob.detail}")
            continue
        ob.status = "unknown"
        ob.detail = f"crosshair: {msg}"
        ck.inconclusive.append(ob)
        ck.log(f"INCONCLUSIVE {oid}: crosshair answered '{msg}' ({text})")
    if p.returncode not in (0, 1):
        ob = ck._new("resolve_axes.crosshair.run", "error")
        ob.status = "harness-error"
        ob.detail = (p.stdout + p.stderr)[-800:]
        ck.inconclusive.append(ob)


# ------------------------------------------------------------------------------------------------ driver
def shapes(maxN):
    out = []
    for E in (1, 2, 3, 4):
        for S_ in range(1, maxN // E + 1):
            if E * S_ <= maxN:
                out.append((E, S_))
    return out


def main():
    ck = Check("C09", "Each epoch partitions the rollout into disjoint, intact minibatches")
    ck.mode = "REAL"
    if ck.thorough:
        maxN = 12
        cfgs = []
        for E, S_ in shapes(8):
            N = E * S_
            cfgs += [(E, S_, b) for b in sorted({b for b in (1, 2, 3, N // 2, N - 1, N) if 1 <= b <= N})]
        cfgs += [(1, 9, 2), (1, 10, 3), (1, 11, 4), (1, 12, 5), (2, 5, 3), (2, 6, 4), (3, 3, 2), (3, 4, 5), (4, 3, 6), (2, 6, 12)]
        idx_cfgs = [(N, B) for N in range(1, maxN + 1) for B in range(1, N + 1)]
        gather_cfgs = [(N, B) for N in (1, 2, 3, 5, 8, 12) for B in (1, 2, 3)]
        flat_cfgs = [(E, S_) for E, S_ in shapes(maxN) if E > 1]
        sample_cfgs = [(1, 5, 2), (2, 2, 3), (2, 3, 6), (3, 2, 4), (4, 3, 5), (2, 6, 4)]
        key_cfgs = [(2, 2, 2, 2), (2, 2, 3, 1), (1, 4, 4, 2)]
        visit_cfgs = [(2, 2, 1, 2), (1, 5, 1, 2), (1, 5, 1, 3), (2, 2, 2, 2), (2, 3, 1, 3), (1, 5, 2, 2), (2, 3, 2, 3), (2, 4, 1, 2), (2, 4, 1, 4), (1, 7, 1, 3), (1, 7, 1, 4), (2, 3, 1, 4)]   # N<=8 one epoch, N<=6 two epochs (N=8, 2 epochs: > 150 s)
        ch = ((0, 1, 2, 3), (1, 2, 3), 60)
    else:
        maxN = 8
        cfgs = [(1, 4, 2), (1, 5, 2), (1, 7, 3), (2, 2, 2), (2, 2, 3), (2, 3, 4), (2, 4, 3), (2, 4, 8), (3, 2, 4), (4, 2, 3), (2, 3, 1), (1, 3, 4)]
        idx_cfgs = [(N, B) for N in range(1, maxN + 1) for B in range(1, N + 1)]
        gather_cfgs = [(1, 1), (3, 2), (5, 3), (8, 2)]
        flat_cfgs = [(2, 1), (2, 2), (2, 3), (3, 2), (4, 2), (2, 4)]
        sample_cfgs = [(1, 4, 2), (2, 2, 3), (2, 3, 6)]
        key_cfgs = [(2, 2, 2, 2), (1, 4, 3, 2)]
        # (E, S, epochs, num_batches); (1,5,1,3): num_batches does not divide N and floor(N/B) > num_batches (B = N // num_batches = 1)
        visit_cfgs = [(2, 2, 1, 2), (1, 5, 1, 2), (1, 5, 1, 3), (2, 2, 2, 2)]
        ch = ((0, 1, 2), (1, 2), 30)
    ck.bound(max_samples_N=maxN, batches_configs_E_S_B=[list(c) for c in cfgs], batch_indices_N_B="all 1<=B<=N<=%d" % maxN, gather_N_B=[list(c) for c in gather_cfgs],
             flatten_E_S=[list(c) for c in flat_cfgs], flatten_explicit_axis_orders="(0,1), (1,0), (-1,-2) on " + ("every E,S > 1 configuration" if ck.thorough else "E,S = 2,3 and 3,2"), rollout_sample_E_S_B=[list(c) for c in sample_cfgs], train_keys_E_S_epochs_batches=[list(c) for c in key_cfgs],
             train_visit_counts_E_S_epochs_batches=[list(c) for c in visit_cfgs], resolve_axes_ndim=list(ch[0]), resolve_axes_tuple_lengths=list(ch[1]),
             note="(E,S,B), epochs and ndim are static (enumerated); buffer cells, the permutation / choice draw and the keys are symbolic; buffers with one environment have "
                  "shape (S,), otherwise (E,S), as the on-policy algorithms build them")
    ck.stub(*[s for s in stubs.STUB_NOTES if "permutation" in s or "choice" in s or "same key" in s])
    ck.stub("PPO.train is executed over a harness policy (TabPolicy: value = table[sample number], constant action distribution) and plain SGD (optax.sgd) instead of clip+adam; "
            "train / train_epoch / train_batch / ppo_loss / flatten_axes / batch_indices / gather are the real ones")
    ck.assume_note("replay of PRNG-dependent obligations runs the real function with jax.random.permutation / choice replaced by the contract stub bound to the model's draw (ModelWorld)",
                   "ghost tags: the integer observation leaf `tag` identifies the collected sample (pairwise distinct); all other leaves are free symbols",
                   "distinct key terms of the free key algebra denote distinct keys (idealised PRNG) in epochs.fresh_keys",
                   "resolve_axes is called through the real, unmodified method on an object with a `shape`; tuple arguments are passed as a tuple subclass with a constant __format__ "
                   "so that the error message does not force CrossHair to enumerate values; scalar arguments on the error path are bounded by |a| <= ndim+4")
    ck.out("uniformity / independence of the shuffle (only 'a permutation of 0..N-1' is used)",
           "which samples are dropped when B does not divide N (the statement only fixes how many)",
           "per-epoch visit counts for num_epochs > 1 when B does not divide N (only the total over epochs is readable from the final parameters; per-epoch claims are covered by the num_epochs=1 "
           "configurations and by idx.partition)",
           "optimisers other than plain SGD and policies other than the tabular harness policy in train.visit_counts (the index plumbing does not depend on them)",
           "float32 rounding")
    for i, (N, B) in enumerate(idx_cfgs):
        with ck.section(f"batch_indices@N={N},B={B}"):
            sec_indices(ck, N, B, first=(N, B) == (5, 2))
    second = ck.second
    for i, (E, S_, B) in enumerate(cfgs):
        with ck.section(f"batches@E={E},S={S_},B={B}"):
            ck.second = second and E * S_ <= 6          # the system z3 4.8.12 needs 10-40 s per query beyond that
            sec_batches(ck, E, S_, B, first=(i == 0), controls=(E, S_, B) in ((2, 3, 4), (2, 2, 2)))
    for i, (N, B) in enumerate(gather_cfgs):
        with ck.section(f"gather@N={N},B={B}"):
            ck.second = second and N <= 8
            sec_gather(ck, N, B, first=(N, B) == (3, 2))
    for (N, B, tail) in (((3, 2, (2,)),) if not ck.thorough else ((3, 2, (2,)), (4, 2, (3,)), (2, 1, (2, 2)))):
        with ck.section(f"indices@N={N},B={B},tail={tail}"):
            sec_indices(ck, N, B, tail=tail)
    ck.second = second
    for i, (E, S_) in enumerate(flat_cfgs):
        with ck.section(f"flatten@E={E},S={S_}"):
            sec_flatten(ck, E, S_, first=(E, S_) == (2, 3))
        if E > 1 and S_ > 1 and (ck.thorough or (E, S_) in ((2, 3), (3, 2))):
            for axes in ((0, 1), (1, 0), (-1, -2)):
                with ck.section(f"flatten@E={E},S={S_},axes={axes}"):
                    sec_flatten(ck, E, S_, axes=axes)
    for i, (E, S_, B) in enumerate(sample_cfgs):
        with ck.section(f"sample@E={E},S={S_},B={B}"):
            ck.second = second and E * S_ <= 6
            sec_sample(ck, E, S_, B, first=(i == 0))
    ck.second = second
    for i, c in enumerate(key_cfgs):
        with ck.section(f"keys@{c}"):
            sec_keys(ck, *c, first=(i == 0))
    with ck.section("resolve_axes"):
        sec_resolve_axes(ck, *ch)
    for i, c in enumerate(visit_cfgs):
        with ck.section(f"visits@{c}"):
            ck.second = second and c[0] * c[1] <= 5
            r = sec_visits(ck, *c, timeout=150 if ck.thorough else 40)
            if i == 0 and r is not None:
                it, S, cnt, A, K, used, N = r
                ck.witness("witness.train.assumptions_sat", A)
                ck.control("control.train.some_sample_visited_twice", A, conj([c <= 0 for c in cnt]))
    ck.second = second
    if second:
        ck.notes.append("second solver (/usr/bin/z3 4.8.12): every query of batch_indices / flatten / keys / resolve-free families, and the batches / sample / gather / visit-count queries up to "
                        "N<=6 (N<=8 gather, N<=5 visit counts); larger instances of the same query shapes are decided by z3 5.1 only (the old build needs 10-40 s each)")
    ck.finish("batch_indices / batches / gather / flatten_axes / RolloutBuffer.sample are traced on a rollout buffer with nested dict/tuple observations and actions, an action mask and a "
              "policy state, and interpreted over z3 terms with jax.random.permutation / choice as contract stubs (an arbitrary permutation / arbitrary distinct indices): the index matrix "
              "has floor(N/B) rows of B pairwise distinct in-range entries; every row of every minibatch carries the tag of exactly one collected sample, no tag twice, and every leaf of the "
              "row equals that sample's leaf; flatten_axes is onto the collected samples with the same rearrangement on every leaf. The permutation keys reaching the symbolic execution of "
              "PPO.train are pairwise distinct descendants of the train key. End to end, PPO.train over a tabular value-only policy with plain SGD: the number of visits of each sample is "
              "read off the symbolic final parameters ((final-ret) = (init-ret)*r^visits) and equals the statement's count. resolve_axes is decided by CrossHair on the real method.")


if __name__ == "__main__":
    main()
