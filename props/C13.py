"""C13 — wrappers and adapters change only what they declare; TimeLimit is exact."""
import itertools
from fractions import Fraction

import jax
import jax.numpy as jnp
import numpy as np
import z3
from jax import random as jr

from jaxsmt import concrete, core, solve
from jaxsmt.core import Check, conj, eq_arr, eq_elem, implies
from jaxsmt.harness import UFCall
from jaxsmt.interp import Interp, arr0
from jaxsmt.trace import trace
from jaxsmt.uf import uf
from props import stacks
from props.C01 import example_action, fixed_inputs, stack_name
from props.stacks import Ref, applicable, build, out_parts, state_parts

from lerax import wrapper as W
from lerax.space import Box, Discrete


def keyterm(it, uname):
    for nm, oi, idx, ops, t in it.uf_apps:
        if nm == uname:
            for x in ops:
                if isinstance(x, z3.ExprRef) and x.sort().name() == "Key":
                    return x
    return None


def mk_ref(it, S, spec, kind, masked=False):
    theta = [v for n, v in S.items() if n.endswith("theta")][0]
    limits = [v[()] for n, v in sorted(((n, v) for n, v in S.items() if n.endswith("max_episode_steps")), key=lambda t: -t[0].count("_env"))]
    crs = sorted(((n, v) for n, v in S.items() if n.endswith("_min") or n.endswith("_max")), key=lambda t: -t[0].count("_env"))
    mins = [v[()] for n, v in crs if n.endswith("_min")]
    maxs = [v[()] for n, v in crs if n.endswith("_max")]
    return Ref(it, spec, kind, theta[()], limits, masked=masked, clip_reward=list(zip(mins, maxs)))


def methods(env):
    """the functional components, each as a traceable function of explicit arguments"""
    return {
        "initial": (lambda e, k: {"state": e.initial(key=k)}, ["env", "key"]),
        "transition": (lambda e, st, a, k: {"state": e.transition(st, a, key=k)}, ["env", "st", "a", "key"]),
        "observation": (lambda e, st, k: {"obs": e.observation(st, key=k)}, ["env", "st", "key"]),
        "reward": (lambda e, st, a, st2, k: {"reward": e.reward(st, a, st2, key=k)}, ["env", "st", "a", "st2", "key"]),
        "terminal": (lambda e, st, k: {"terminal": e.terminal(st, key=k)}, ["env", "st", "key"]),
        "truncate": (lambda e, st: {"truncate": e.truncate(st)}, ["env", "st"]),
        "state_info": (lambda e, st: {"info": e.state_info(st)}, ["env", "st"]),
        "transition_info": (lambda e, st, a, st2: {"info": e.transition_info(st, a, st2)}, ["env", "st", "a", "st2"]),
        "action_mask": (lambda e, st, k: {"mask": e.action_mask(st, key=k)}, ["env", "st", "key"]),
    }


def check_methods(ck, spec, kind, masked=False):
    name = f"{stack_name(spec)}/{kind}" + ("/masked" if masked else "")
    env = build(spec, kind, masked=masked)
    st0 = jax.eval_shape(lambda k: env.initial(key=k), jr.key(0))
    ex = {"env": env, "st": st0, "st2": st0, "a": example_action(kind), "key": jr.key(0)}
    for mname, (fn, argn) in methods(env).items():
        if mname == "action_mask" and not masked:
            continue
        if masked and mname != "action_mask":
            continue
        tr = trace(fn, *[ex[a] for a in argn], argnames=argn, label=f"{type(env).__name__}.{mname}")
        it = Interp()
        S = tr.symbols(it, given=fixed_inputs(tr, env))
        out = tr.run(it, S)
        ref = mk_ref(it, S, spec, kind, masked)
        key = S["key"][()] if "key" in S else None
        if "st_" in "".join(S):
            s, counters = state_parts(S, "st_", spec)
        if mname in ("reward", "transition_info"):
            s2, counters2 = state_parts({k: v for k, v in S.items() if k.startswith("st2_")}, "st2_", spec)
        a = S.get("a")
        oracle = {}
        if mname == "initial":
            si, ci = ref.initial(key)
            sname = [n for n in tr.out_names if n.endswith("_s")][0]
            oracle[sname] = si
            for n_, c in zip(sorted([n for n in tr.out_names if n.endswith("step_count")], key=lambda n: -n.count("env_state")), ci):
                oracle[n_] = arr0(c)
        elif mname == "transition":
            sn, cn = ref.transition(s, counters, a, key)
            sname = [n for n in tr.out_names if n.endswith("_s")][0]
            oracle[sname] = sn
            for n_, c in zip(sorted([n for n in tr.out_names if n.endswith("step_count")], key=lambda n: -n.count("env_state")), cn):
                oracle[n_] = arr0(c)
        elif mname == "observation":
            oracle["obs"] = ref.observation(s, key)
        elif mname == "reward":
            oracle["reward"] = arr0(ref.reward(s, a, s2, key))
        elif mname == "terminal":
            oracle["terminal"] = arr0(ref.terminal(s, key))
        elif mname == "truncate":
            oracle["truncate"] = arr0(ref.truncate(s, counters))
        elif mname == "state_info":
            oracle["info_sinfo"] = arr0(ref.state_info(s))
        elif mname == "transition_info":
            oracle["info_tinfo"] = arr0(ref.transition_info(s, a, s2))
        elif mname == "action_mask":
            oracle["mask"] = ref.mask(s, key)
        shapes_ok = all(k in out and tuple(out[k].shape) == tuple(np.asarray(v, dtype=object).shape) for k, v in oracle.items()) and len(oracle) == len(out)
        if not shapes_ok:
            ck.fact(f"{mname}.delegates@{name}", False, f"outputs {list(out)} vs expected {list(oracle)}")
            continue
        g = conj([eq_arr(out[k], v) for k, v in oracle.items()])
        ck.prove(f"{mname}.delegates@{name}", [], g,
                 replay=lambda res, tr=tr, S=S, it=it, oracle=oracle: concrete.replay_outputs(tr, S, res, uf_apps=it.uf_apps, oracle=oracle))
        if spec == ["TimeLimit"] and mname == "truncate" and kind == "discrete":
            ck.encoded(tr)
            N = [v for n, v in S.items() if n.endswith("max_episode_steps")][0][()]
            c = counters[0]
            inner = ref.U("Trunc", [((), "bool")], ref.theta, s)[0][()]
            # exactness lemma: with the count restarting at 0 and +1 per transition (proved by the delegate obligations), the k-th state of
            # an episode has count k; the limit alone raises truncation at k iff k >= N, i.e. first at exactly the N-th step
            k = z3.Int("k")
            lim = out["truncate"][()]
            ck.prove("timelimit.exact_lemma", [N >= 1, c == k, k >= 0, z3.Not(inner)], conj([implies(k < N, z3.Not(lim)), implies(k == N, lim), implies(k > N, lim)]),
                     replay=lambda res, tr=tr, S=S, it=it: concrete.replay_outputs(tr, S, res, uf_apps=it.uf_apps, oracle={"truncate": arr0(res.value(c) >= res.value(N))}))
            ck.witness("witness.timelimit_below_limit", [N >= 1, c >= 0, c < N])
            ck.control("control.timelimit_off_by_one", [N >= 1, c >= 0, z3.Not(inner)], lim == (c > N))


def check_spaces(ck):
    """advertised spaces and images of the declared maps (REAL mode on the dyadic configuration)"""
    lo, hi = stacks.frac(stacks.ACT_LOW), stacks.frac(stacks.ACT_HIGH)
    mn, mx = stacks.frac(stacks.RS_MIN), stacks.frac(stacks.RS_MAX)
    olo, ohi = stacks.frac(stacks.OBS_LOW), stacks.frac(stacks.OBS_HIGH)

    def space_eq(sp, low, high):
        return isinstance(sp, Box) and np.array_equal(np.asarray(sp.low, np.float64), np.asarray(low, np.float64)) and np.array_equal(np.asarray(sp.high, np.float64), np.asarray(high, np.float64))
    base_b, base_d = stacks.base_env("box"), stacks.base_env("discrete")
    inf = [np.inf, np.inf]
    e = build(["ClipAction"], "box")
    ck.fact("ClipAction.space", space_eq(e.action_space, [-np.inf] * 2, inf) and e.observation_space is e.env.observation_space, "advertises an unbounded box; observation space passes through")
    e = build(["RescaleAction"], "box")
    ck.fact("RescaleAction.space", space_eq(e.action_space, stacks.RS_MIN, stacks.RS_MAX) and e.observation_space is e.env.observation_space, "advertises Box(min,max)")
    e = build(["ClipObservation"], "box")
    ck.fact("ClipObservation.space", space_eq(e.observation_space, stacks.OBS_LOW, stacks.OBS_HIGH) and e.action_space is e.env.action_space, "advertises the inner box")
    e = build(["RescaleObservation"], "box")
    ck.fact("RescaleObservation.space", space_eq(e.observation_space, stacks.RS_MIN, stacks.RS_MAX) and e.action_space is e.env.action_space, "advertises Box(min,max)")
    e = build(["FlattenObservation"], "box")
    ck.fact("FlattenObservation.space", space_eq(e.observation_space, [-np.inf] * 2, inf) and e.observation_space.shape == (2,), "advertises an unbounded flat box of flat_size")
    # the exactness obligations treat the limit N as a symbol read from the constructed wrapper: N must be the constructor's argument
    lims = {n: int(np.asarray(W.TimeLimit(base_d, n).max_episode_steps)) for n in (1, 2, 3, 1000)}
    ck.fact("TimeLimit.keeps_its_limit", all(k == v for k, v in lims.items()), f"TimeLimit(env, N).max_episode_steps for N in {list(lims)}: {list(lims.values())}")
    for nm in ("Identity", "TimeLimit", "ClipReward", "TransformReward"):
        try:
            e = build([nm], "box")
        except TypeError:
            continue
        ck.fact(f"{nm}.space", e.action_space is e.env.action_space and e.observation_space is e.env.observation_space, "both spaces pass through unchanged")
    # images: symbolic action / observation
    for nm, inner_lo, inner_hi, dom in (("ClipAction", lo, hi, None), ("RescaleAction", lo, hi, (mn, mx))):
        e = build([nm], "box")
        tr = trace(lambda a: e.func(a), jnp.zeros(2), argnames=["a"], label=f"{nm}.func")
        it = Interp()
        S = tr.symbols(it)
        y = tr.run(it, S)[tr.out_names[0]]
        a = S["a"]
        pre = [] if dom is None else [z3.And(a[i] >= dom[0][i], a[i] <= dom[1][i]) for i in range(2)]
        inside = conj([z3.And(y[i] >= inner_lo[i], y[i] <= inner_hi[i]) for i in range(2)])

        def rp(res, tr=tr, S=S, lo_=inner_lo, hi_=inner_hi):
            vals = [concrete.model_leaf(res, S[n], av, concrete.KeyBinding(res)) for n, av in zip(tr.in_names, tr.in_avals)]
            out = np.asarray(concrete.run_real(tr, vals)[0], dtype=np.float64)
            bad = bool(np.any(out < np.array([float(x) for x in lo_]) - 1e-5) or np.any(out > np.array([float(x) for x in hi_]) + 1e-5))
            return bad, {"action": np.asarray(vals[0]).tolist(), "mapped": out.tolist(), "inner_low": [float(x) for x in lo_], "inner_high": [float(x) for x in hi_]}
        ck.prove(f"{nm}.image_in_inner_action_space", pre, inside, replay=rp)
        if nm == "RescaleAction":
            ck.encoded(tr)
            it2 = Interp()
            S2 = tr.symbols(it2, prefix="b_")
            y2 = tr.run(it2, S2)[tr.out_names[0]]
            b = S2["a"]
            ends = conj([implies(a[i] == mn[i], y[i] == lo[i]) for i in range(2)] + [implies(a[i] == mx[i], y[i] == hi[i]) for i in range(2)])

            def rp_end(res, tr=tr):
                outs = []
                bad = False
                for v, want in ((stacks.RS_MIN, stacks.ACT_LOW), (stacks.RS_MAX, stacks.ACT_HIGH)):
                    o_ = np.asarray(concrete.run_real(tr, [jnp.asarray(v)])[0])
                    outs.append(o_.tolist())
                    bad = bad or not np.allclose(o_, want, atol=1e-5)
                return bad, {"mapped_new_bounds": outs, "original_bounds": [stacks.ACT_LOW.tolist(), stacks.ACT_HIGH.tolist()]}
            ck.prove("rescale.endpoints", [], ends, replay=rp_end)
            mono = conj([implies(a[i] < b[i], y[i] < y2[i]) for i in range(2)])
            ck.prove("rescale.monotone", [], mono, replay=lambda res: (True, {"note": "monotonicity counterexample", "a": [str(res.value(x)) for x in a], "b": [str(res.value(x)) for x in b]}))
            ck.control("control.rescale_wrong_span", [], conj([implies(a[1] == mx[1], y[1] == hi[1] - 1)]))
    for nm, dom in (("ClipObservation", None), ("RescaleObservation", (olo, ohi))):
        e = build([nm], "box")
        tr = trace(lambda o_: e.func(o_), jnp.zeros(2), argnames=["o"], label=f"{nm}.func")
        it = Interp()
        S = tr.symbols(it)
        y = tr.run(it, S)[tr.out_names[0]]
        o_ = S["o"]
        adv_lo, adv_hi = (olo, ohi) if nm == "ClipObservation" else (mn, mx)
        pre = [] if dom is None else [z3.And(o_[i] >= dom[0][i], o_[i] <= dom[1][i]) for i in range(2)]

        def rp(res, tr=tr, S=S, lo_=adv_lo, hi_=adv_hi):
            vals = [concrete.model_leaf(res, S[n], av, concrete.KeyBinding(res)) for n, av in zip(tr.in_names, tr.in_avals)]
            out = np.asarray(concrete.run_real(tr, vals)[0], dtype=np.float64)
            bad = bool(np.any(out < np.array([float(x) for x in lo_]) - 1e-5) or np.any(out > np.array([float(x) for x in hi_]) + 1e-5))
            return bad, {"observation": np.asarray(vals[0]).tolist(), "mapped": out.tolist()}
        ck.prove(f"{nm}.image_in_advertised_space", pre, conj([z3.And(y[i] >= adv_lo[i], y[i] <= adv_hi[i]) for i in range(2)]), replay=rp)
        if nm == "RescaleObservation":
            ends = conj([implies(o_[i] == olo[i], y[i] == mn[i]) for i in range(2)] + [implies(o_[i] == ohi[i], y[i] == mx[i]) for i in range(2)])
            ck.prove("rescale.obs_endpoints", [], ends, replay=lambda res: (True, {"o": [str(res.value(x)) for x in o_]}))


def check_rescale_grid(ck):
    """rescale_box on a grid of bounded dyadic boxes: backward takes the new bounds exactly onto the original bounds"""
    from lerax.wrapper.utils import rescale_box
    grid = [(([-1.0], [1.0]), ([0.0], [4.0])), (([0.0, -4.0], [2.0, 4.0]), ([-1.0, -1.0], [1.0, 1.0])), (([-8.0], [8.0]), ([-0.5], [0.5])),
            (([1.0, 2.0, 3.0], [2.0, 4.0, 7.0]), ([0.0, 0.0, 0.0], [1.0, 0.5, 0.25]))]
    if not ck.thorough:
        grid = grid[:3]
    for gi, ((lo, hi), (mn, mx)) in enumerate(grid):
        box = Box(jnp.asarray(lo), jnp.asarray(hi))
        new_box, fwd, bwd = rescale_box(box, jnp.asarray(mn), jnp.asarray(mx))
        n = len(lo)
        for nm, f, src, dst in (("backward", bwd, (mn, mx), (lo, hi)), ("forward", fwd, (lo, hi), (mn, mx))):
            tr = trace(lambda x: f(x), jnp.zeros(n), argnames=["x"], label=f"rescale_box.{nm}")
            it = Interp()
            S = tr.symbols(it)
            y = tr.run(it, S)[tr.out_names[0]]
            x = S["x"]
            F = lambda v: Fraction(float(v))
            g = conj([implies(x[i] == F(src[0][i]), y[i] == F(dst[0][i])) for i in range(n)] + [implies(x[i] == F(src[1][i]), y[i] == F(dst[1][i])) for i in range(n)]
                     + [implies(z3.And(x[i] >= F(src[0][i]), x[i] <= F(src[1][i])), z3.And(y[i] >= F(dst[0][i]), y[i] <= F(dst[1][i]))) for i in range(n)])

            def rp(res, tr=tr, src=src, dst=dst):
                bad = False
                rec = []
                for v, want in ((src[0], dst[0]), (src[1], dst[1])):
                    o_ = np.asarray(concrete.run_real(tr, [jnp.asarray(v)])[0])
                    rec.append(o_.tolist())
                    bad = bad or not np.allclose(o_, want, atol=1e-5)
                return bad, {"images_of_bounds": rec, "expected": [list(dst[0]), list(dst[1])]}
            ck.prove(f"rescale_box.{nm}.bounds_onto_bounds@grid{gi}", [], g, replay=rp)


def check_unwrapped(ck, depth):
    names = [n for n in stacks.LAYERS]
    bad = []
    n = 0
    for d in range(1, depth + 1):
        for spec in itertools.product(names, repeat=d):
            spec = list(spec)
            if not applicable(spec, "box"):
                continue
            try:
                env = build(spec, "box")
            except TypeError:
                continue
            n += 1
            base = env
            for _ in spec:
                base = base.env
            if env.unwrapped is not base:
                bad.append(stack_name(spec) + ":env")
                continue
            st0 = jax.eval_shape(lambda k: env.initial(key=k), jr.key(0))
            try:
                tr = trace(lambda st: st.unwrapped.s, st0, argnames=["st"])
            except AttributeError as ex:
                bad.append(stack_name(spec) + f":state.unwrapped is not the base environment's state ({ex})")
                continue
            pt = tr.passthrough()
            inner = [nm for nm in tr.in_names if nm.endswith("_s") or nm == "st_s"]
            if not (len(pt) == 1 and list(pt.values())[0] == inner[0]):
                bad.append(stack_name(spec) + ":state")
    ck.fact(f"unwrapped.env_and_state@depth<={depth}", not bad, f"{n} stacks; failing: {bad[:10]}")


def check_constructs(ck):
    for nm in stacks.LAYERS:
        try:
            build([nm], "box")
            ok, why = True, "constructed over a Box-action / Box-observation environment"
        except Exception as ex:  # noqa: BLE001
            ok, why = False, f"{type(ex).__name__}: {str(ex)[:300]}"
        ck.fact(f"{nm}.constructs", ok, why)


# ------------------------------------------------------------------------------------------ adapters
def check_gymnax(ck):
    from gymnax.environments import environment as genv
    from gymnax.environments import spaces as gspaces
    from flax import struct
    from lerax.compatibility.gymnax import GymnaxToLeraxEnv, LeraxToGymnaxEnv, LeraxEnvState, LeraxEnvParams

    @struct.dataclass
    class GState(genv.EnvState):
        x: jax.Array

    @struct.dataclass
    class GParams(genv.EnvParams):
        p: jax.Array = struct.field(default_factory=lambda: jnp.zeros(()))

    class UFGymnax(genv.Environment):
        @property
        def name(self):
            return "UFGymnax"

        @property
        def default_params(self):
            return GParams()

        def step_env(self, key, state, action, params):
            obs, x, r, d = uf("GStep", [((2,), "float32"), ((2,), "float32"), ((), "float32"), ((), "bool")], params.p, state.x, state.time, action, key)
            return obs, GState(time=state.time + 1, x=x), r, d, {}

        def reset_env(self, key, params):
            obs, x = uf("GReset", [((2,), "float32"), ((2,), "float32")], params.p, key)
            return obs, GState(time=jnp.array(0), x=x)

        def action_space(self, params):
            return gspaces.Discrete(3)

        def observation_space(self, params):
            return gspaces.Box(-1.0, 1.0, (2,))
    genv_ = UFGymnax()
    env = GymnaxToLeraxEnv(genv_, GParams())
    ck.fact("gymnax.to_lerax.spaces", isinstance(env.action_space, Discrete) and int(env.action_space.n) == 3 and isinstance(env.observation_space, Box) and env.observation_space.shape == (2,), "converted spaces")
    st0 = jax.eval_shape(lambda k: env.initial(key=k), jr.key(0))

    def slots(e, st, a, k):
        n = e.transition(st, a, key=k)
        return {"obs": e.observation(n, key=k), "reward": e.reward(st, a, n, key=k), "terminal": e.terminal(n, key=k), "truncate": e.truncate(n), "x": n.env_state.x,
                "time": n.env_state.time}
    tr = trace(slots, env, st0, jnp.array(1), jr.key(0), argnames=["env", "st", "a", "key"], label="GymnaxToLeraxEnv.transition+components")
    ck.encoded(tr)
    it = Interp()
    S = tr.symbols(it)
    out = tr.run(it, S)
    U = UFCall(it)
    obs, x, r, d = U("GStep", [((2,), "float32"), ((2,), "float32"), ((), "float32"), ((), "bool")], S["env_params_p"], S["st_env_state_x"], S["st_env_state_time"], S["a"], S["key"])
    oracle = {"obs": obs, "reward": r, "terminal": d, "truncate": arr0(False), "x": x, "time": arr0(S["st_env_state_time"][()] + 1)}
    ck.prove("gymnax.to_lerax.slots", [], conj([eq_arr(out[k], v) for k, v in oracle.items()]),
             replay=lambda res: concrete.replay_outputs(tr, S, res, uf_apps=it.uf_apps, oracle=oracle))
    tri = trace(lambda e, k: (lambda s: {"obs": e.observation(s, key=k), "x": s.env_state.x, "terminal": e.terminal(s, key=k)})(e.initial(key=k)), env, jr.key(0), argnames=["env", "key"],
                label="GymnaxToLeraxEnv.initial")
    it = Interp()
    Si = tri.symbols(it)
    outi = tri.run(it, Si)
    U = UFCall(it)
    obs0, x0 = U("GReset", [((2,), "float32"), ((2,), "float32")], Si["env_params_p"], Si["key"])
    orc = {"obs": obs0, "x": x0, "terminal": arr0(False)}
    ck.prove("gymnax.to_lerax.initial", [], conj([eq_arr(outi[k], v) for k, v in orc.items()]),
             replay=lambda res: concrete.replay_outputs(tri, Si, res, uf_apps=it.uf_apps, oracle=orc))

    # lerax -> gymnax over an arbitrary lerax environment (with a time limit so that truncation is exercised)
    lenv = build(["TimeLimit"], "discrete")
    g = LeraxToGymnaxEnv(lenv)
    st0 = jax.eval_shape(lambda k: LeraxEnvState(env_state=lenv.initial(key=k), time=jnp.array(0)), jr.key(0))

    def gstep(lenv_, st, a, k):
        gg = LeraxToGymnaxEnv(lenv_)
        obs, st2, r, done, info = gg.step_env(k, st, a, LeraxEnvParams())
        s2, obs_l, r_l, term, trunc, info_l = lenv_.step(st.env_state, a, key=k)
        return {"obs": obs, "reward": r, "done": done, "time": st2.time, "state": st2.env_state,
                "l_obs": obs_l, "l_reward": r_l, "l_done": term | trunc, "l_state": s2}
    tr2 = trace(gstep, lenv, st0, jnp.array(1), jr.key(0), argnames=["env", "st", "a", "key"], label="LeraxToGymnaxEnv.step_env")
    ck.encoded(tr2)
    it2 = Interp()
    S2 = tr2.symbols(it2)
    o2 = tr2.run(it2, S2)
    pairs = [("obs", "l_obs"), ("reward", "l_reward"), ("done", "l_done")] + [(n, "l_" + n) for n in o2 if n.startswith("state_")]
    orc2 = {a: o2[b] for a, b in pairs}
    orc2["time"] = arr0(S2["st_time"][()] + 1)
    ck.prove("gymnax.from_lerax.step_reproduces_lerax_step", [S2["env_max_episode_steps"][()] >= 1], conj([eq_arr(o2[k], v) for k, v in orc2.items()]),
             replay=lambda res: concrete.replay_outputs(tr2, S2, res, uf_apps=it2.uf_apps, oracle=orc2))
    done = o2["done"][()]
    ck.witness("witness.gymnax_done_by_truncation_only", [done, z3.Not(UFCall(it2)("Term", [((), "bool")], S2["env_env_theta"], o2["l_state_env_state_s"], arr0(keyterm(it2, "Term")))[0][()])] if False else [done])


def check_gym(ck):
    import gymnasium
    from lerax.compatibility.gym import GymToLeraxEnv
    genv = gymnasium.make("CartPole-v1")
    env = GymToLeraxEnv(genv)
    st0 = jax.eval_shape(lambda k: env.initial(key=k), jr.key(0))
    tr = trace(lambda e, st, a, k: e.transition(st, a, key=k), env, st0, jnp.array(1), jr.key(0), argnames=["env", "st", "a", "key"], label="GymToLeraxEnv.transition")
    ck.encoded(tr)
    cbs = [e for e in tr.jaxpr.eqns if e.primitive.name == "io_callback"]
    ok = len(cbs) == 1
    detail = f"{len(cbs)} io_callback"
    if ok:
        e = cbs[0]
        outs = list(e.outvars)
        # the state fields (observation, reward, terminal, truncated) must be the callback's outputs in that order (possibly through dtype-preserving copies)
        it = Interp()
        S = tr.symbols(it)
        o = tr.run(it, S)
        want = ["observation", "reward", "terminal", "truncated"]
        names = tr.out_names
        srcs = []
        for nm in want:
            t = o[nm].reshape(-1)[0]
            srcs.append(str(t.decl().name()) if isinstance(t, z3.ExprRef) else "const")
        ok = all(s.startswith("IO1#") for s in srcs) and [s.split("#")[1].split("_")[0] for s in srcs] == ["0", "1", "2", "3"]
        # and the callback's only operand is the action
        ok = ok and len(e.invars) == 1
        detail = f"state fields come from callback outputs {srcs}; callback operands {len(e.invars)}"
    ck.fact("gym.to_lerax.slots", ok, detail)
    comp = trace(lambda e, st, k: {"obs": e.observation(st, key=k), "terminal": e.terminal(st, key=k), "truncate": e.truncate(st), "reward": e.reward(st, jnp.array(0), st, key=k)},
                 env, st0, jr.key(0), argnames=["env", "st", "key"], label="GymToLeraxEnv components")
    pt = comp.passthrough()
    ck.fact("gym.to_lerax.components_read_state", pt == {"obs": "st_observation", "terminal": "st_terminal", "truncate": "st_truncated", "reward": "st_reward"}, str(pt))


def check_gym_host_callbacks(ck):
    """the Python bodies GymToLeraxEnv runs inside io_callback (they talk to the Gymnasium environment): CrossHair executes the REAL transition /
    initial with io_callback calling the host function directly, over a duck-typed Gymnasium environment returning symbolic
    (observation, reward, terminated, truncated); harness and stubs: props/c13_gym_harness.py"""
    import ast
    import os
    import re
    import subprocess
    import sys
    import time
    path = os.path.join(core.ROOT, "props", "c13_gym_harness.py")
    src = open(path).read().splitlines()
    conds, cur = {}, None
    for ln, text in enumerate(src, 1):
        m = re.match(r"def (\w+_slots)\(", text)
        if m:
            cur = m.group(1)
        if text.strip().startswith("post:") and cur:
            conds[ln] = cur
    t0 = time.time()
    p = subprocess.run([os.path.join(core.ROOT, ".venv", "bin", "crosshair"), "check", "--report_all", "--per_condition_timeout", "60", path],
                       capture_output=True, text=True, env=dict(os.environ), timeout=600, cwd=core.ROOT)
    ck.solver_time += time.time() - t0
    ck.functions.append({"function": "GymToLeraxEnv.transition / initial host callbacks (Python source, CrossHair; jnp/np constructors, io_callback and the state record stubbed inside the adapter module)",
                         "equations": 0, "inputs": 5, "outputs": 1})
    seen = {}
    for line in (p.stdout + "\n" + p.stderr).splitlines():
        m = re.match(r".*?:(\d+): (info|error): (.*)", line)
        if m and int(m.group(1)) in conds:
            seen[int(m.group(1))] = (m.group(2), m.group(3))
    runner = {"step_slots": "run_step", "reset_slots": "run_reset"}
    for ln, fname in sorted(conds.items()):
        oid = f"gym.to_lerax.host_callback.{fname}"
        ob = ck._new(oid, "prove")
        ob.solver = "crosshair (z3)"
        ck.queries += 1
        kind, msg = seen.get(ln, ("missing", "no verdict reported: " + (p.stderr or p.stdout)[-300:]))
        if kind == "info" and "Confirmed over all paths" in msg:
            ob.status = "unsat"
            continue
        if kind == "error":
            m = re.search(r"when calling \w+\((.*?)\)", msg)
            args = None
            if m:
                try:
                    args = list(ast.literal_eval("(" + re.sub(r"\b[A-Za-z_]\w*\s*=", "", m.group(1)) + ",)"))
                except Exception:  # noqa: BLE001
                    args = None
            rep, info = False, {"crosshair": msg[:400]}
            if args is not None:
                q = subprocess.run([sys.executable, "-W", "ignore", "-c", f"from props.c13_gym_harness import {runner[fname]} as f; print('RESULT', f(*{args!r}))"],
                                   capture_output=True, text=True, env=dict(os.environ), cwd=core.ROOT, timeout=300)
                rep = "RESULT False" in q.stdout
                info.update({"what the Gymnasium environment returned / was handed (harness arguments, in order)": args, "state_carries_exactly_that": "RESULT True" in q.stdout,
                             "function": f"GymToLeraxEnv host callback ({fname})"})
            if rep:
                ck._violation(ob, info, replay_info=info, reproduced=True)
                continue
            ob.status, ob.detail = "sat-unreproduced", str(info)[:500]
        else:
            ob.status, ob.detail = "unknown", msg[:300]
        ck.inconclusive.append(ob)
        ck.log(f"INCONCLUSIVE {oid}: {ob.detail}")
    ck.stub("GymToLeraxEnv host-callback harness: inside the adapter module jnp/np array constructors are Python conversions, io_callback calls the host function at once, "
            "the state record is a dict; Gymnasium environment = duck-typed stand-in returning symbolic values")


def main():
    ck = Check("C13", "wrappers and adapters")
    ck.mode = "REAL"
    depth = 2
    ck.bound(stack_depth_methods="2 (all pairs)" + (" + 100 triples mixing action/observation/reward/time-limit layers" if ck.thorough else ""), unwrapped_depth=3, state_dim=2, obs_dim=2,
             rescale="bounded dyadic boxes (float arithmetic exact)", timelimit="N >= 1 symbolic, count symbolic")
    ck.stub("base environment / gymnax environment: uninterpreted functions of all operands", "io_callback of the Gymnasium adapter: uninterpreted function of its operands and a sequence number",
            "TransformAction/Observation/Reward get arbitrary (uninterpreted) user functions")
    ck.out("LeraxToGymEnv (stateful Python object converting to float/bool)", "real Gymnasium environments' own behaviour",
           "RescaleObservation / RescaleAction over boxes with infinite bounds (the statement restricts the rescale clause to bounded boxes)",
           "float32 rounding of non-dyadic rescale gradients")
    with ck.section("constructs"):
        check_constructs(ck)
    names = list(stacks.LAYERS)
    specs = [[n] for n in names]
    pairs = [list(p) for p in itertools.product(names, repeat=2)]
    specs += pairs
    specs += [[n] for n in stacks.EXTRA_LAYERS] + [[n, "TimeLimit"] for n in stacks.EXTRA_LAYERS]
    if ck.thorough:
        fam = {"a": ["ClipAction", "RescaleAction", "TransformAction"], "o": ["ClipObservation", "RescaleObservation", "FlattenObservation", "TransformObservation"],
               "r": ["ClipReward", "TransformReward"], "t": ["TimeLimit"]}
        for f3 in (("a", "o", "r"), ("a", "o", "t"), ("a", "r", "t"), ("o", "r", "t")):
            for trip in itertools.product(*[fam[f] for f in f3]):
                specs.append(list(trip))              # innermost first
                specs.append(list(reversed(trip)))
    for spec in specs:
        for kind in ("discrete", "box"):
            if not applicable(spec, kind):
                continue
            try:
                build(spec, kind)
            except TypeError:
                continue
            with ck.section(f"methods@{stack_name(spec)}/{kind}"):
                check_methods(ck, spec, kind)
    for spec in [[n] for n in names]:
        if not applicable(spec, "discrete"):
            continue
        try:
            build(spec, "discrete", masked=True)
        except TypeError:
            continue
        with ck.section(f"mask@{stack_name(spec)}"):
            check_methods(ck, spec, "discrete", masked=True)
    with ck.section("spaces"):
        check_spaces(ck)
    with ck.section("clip_observation.mixed_bounds"):
        # a Box with finite AND infinite bounds (CartPole's): every finite bound is still enforced -- the FP32 image obligation of C02 on the real wrapper,
        # plus `in-range observations pass through unchanged`
        from props import C02
        from lerax.env.classic_control import CartPole
        envc = CartPole()
        wc = W.ClipObservation(envc)
        trc, itc, Sc, outc, prec = C02.wrapper_image(ck, "ClipObservation@cartpole(mixed finite/infinite bounds)", wc, envc.observation_space, "fp32", any_input=True)
        ob_in = np.asarray(Sc["ob"], dtype=object).reshape(-1)
        inside = C02.member_terms(itc.o, Sc["ob"], itc.lift(np.asarray(envc.observation_space.low)), itc.lift(np.asarray(envc.observation_space.high)))
        same = [z3.fpEQ(a, b) if z3.is_fp(a) else a == b for a, b in zip(np.asarray(outc["obs"], dtype=object).reshape(-1), ob_in)]
        ck.prove("wrap.ClipObservation@cartpole.in_range_unchanged", prec + list(inside), conj(same), replay=lambda res: (True, {"note": "clip changes an in-range observation"}))
    with ck.section("rescale_grid"):
        check_rescale_grid(ck)
    with ck.section("unwrapped"):
        check_unwrapped(ck, 3)
    with ck.section("gymnax"):
        check_gymnax(ck)
    with ck.section("gym"):
        check_gym(ck)
    with ck.section("gym.host_callbacks"):
        check_gym_host_callbacks(ck)
    ck.finish("Every functional component of every wrapper (and of wrapper pairs) is traced over an uninterpreted base environment and compared with a "
              "reference semantics in which only the declared change is applied (mapped action for transition, reward and transition_info; "
              "post-processed observation / reward; counters +1; truncate = inner or count >= N). Advertised spaces, images of the clip / rescale maps, "
              "the unwrapped chains, constructibility of every documented wrapper, the TimeLimit exactness lemma and the slot wiring of the Gymnax and "
              "Gymnasium adapters are separate obligations.")


if __name__ == "__main__":
    main()
