"""prints a digest of the traced program of iteration() for each algorithm: used to compare independent traces made in different interpreter
processes (different PYTHONHASHSEED): the program and its captured constants must not depend on per-process state"""
import hashlib
import json
import sys

import equinox as eqx
import jax
import numpy as np
from jax import random as jr

from jaxsmt import stubs
from jaxsmt.trace import trace


def digest(tr):
    h = hashlib.sha256()
    h.update(str(tr.jaxpr).encode())
    for c in tr.consts:
        if hasattr(c, "dtype") and jax.dtypes.issubdtype(c.dtype, jax.dtypes.prng_key):
            c = jax.random.key_data(c)
        h.update(np.asarray(c).tobytes())
    return h.hexdigest()


def construction_order(order, names):
    from props.C11 import callback_sets, configs, float_hyperparameters, harness_env_policy
    out = {}
    for aname, (cls, kw) in configs().items():
        if names and aname not in names:
            continue
        variants = [("default", dict(kw))] + [(f"{n}={v}", dict(kw, **{n: v})) for n, d, v in float_hyperparameters(cls) if n not in kw]
        if order == "reverse":
            variants = variants[::-1]
        objs = []
        for label, k2 in variants:            # all objects are built first (construction is where a hidden registry would be filled), then traced
            try:
                objs.append((label, cls(**k2)))
            except Exception as ex:  # noqa: BLE001
                objs.append((label, f"constructor raised {type(ex).__name__}"))
        env, mkpol = harness_env_policy(aname)
        cb = callback_sets()["none"]
        d = {}
        for label, algo in objs:
            if isinstance(algo, str):
                d[label] = algo
                continue
            pol = mkpol()
            st = eqx.filter_eval_shape(lambda k: algo.reset(env, pol, key=k, callback=cb), jr.key(0))
            with stubs.prng_stubs():
                tr = trace(lambda st, k: algo.iteration(st, key=k, callback=cb), st, jr.key(0), argnames=["st", "key"])
            d[label] = digest(tr)
        out[aname] = d
    print("C11ORDER " + json.dumps(out), flush=True)


def multi_env(names):
    """digests of reset() and iteration() with num_envs = 2 and 4 (the vmapped collection branch): compared across processes that differ in the number
    of host devices JAX sees"""
    from props.C11 import callback_sets, configs, harness_env_policy
    out = {"devices": jax.local_device_count()}
    for aname, (cls, kw) in configs().items():
        if names and aname not in names:
            continue
        for E in (2, 4):
            k2 = dict(kw, num_envs=E)
            if "buffer_size" in k2:
                k2["buffer_size"] = 4 * E
            algo = cls(**k2)
            env, mkpol = harness_env_policy(aname)
            pol = mkpol()
            cb = callback_sets()["none"]
            with stubs.prng_stubs():
                tr0 = trace(lambda env, pol, k: algo.reset(env, pol, key=k, callback=cb), env, pol, jr.key(0), argnames=["env", "pol", "key"])
                st = eqx.filter_eval_shape(lambda k: algo.reset(env, pol, key=k, callback=cb), jr.key(0))
                tr = trace(lambda st, k: algo.iteration(st, key=k, callback=cb), st, jr.key(0), argnames=["st", "key"])
            out[f"{aname}(E={E})"] = digest(tr0) + digest(tr)
    print("C11MULTI " + json.dumps(out), flush=True)


def main():
    if len(sys.argv) > 2 and sys.argv[1] == "--construction-order":
        return construction_order(sys.argv[2], sys.argv[3:])
    if len(sys.argv) > 1 and sys.argv[1] == "--multi-env":
        return multi_env(sys.argv[2:])
    from props.C11 import callback_sets, setups
    out = {}
    names = sys.argv[1:]
    for aname, (algo, env, mkpol) in setups(False).items():
        if names and aname not in names:
            continue
        pol = mkpol()
        cb = callback_sets()["none"]
        st = eqx.filter_eval_shape(lambda k: algo.reset(env, pol, key=k, callback=cb), jr.key(0))
        with stubs.prng_stubs():
            tr = trace(lambda st, k: algo.iteration(st, key=k, callback=cb), st, jr.key(0), argnames=["st", "key"])
        out[aname] = digest(tr)
    print("C11WORKER " + json.dumps(out), flush=True)


if __name__ == "__main__":
    main()
