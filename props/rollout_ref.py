"""Reference interpreter of one collection step (on-policy and off-policy) over the uninterpreted environment / policy.
Written from the property statements, independently of lerax.algorithm."""
import numpy as np
import z3

from jaxsmt.harness import UFCall
from jaxsmt.interp import arr0
from props.stacks import Ref


def keys_of(it, uname, since=0):
    ks = []
    for nm, oi, idx, ops, t in it.uf_apps[since:]:
        if nm == uname:
            for x in ops:
                if isinstance(x, z3.ExprRef) and x.sort().name() == "Key" and not any(x.eq(y) for y in ks):
                    ks.append(x)
    return ks


class World:
    """environment (optionally under TimeLimit) + stateful policy, as uninterpreted functions"""

    def __init__(self, it, theta_env, theta_pol, limit=None, kind="discrete", masked=False, box=None, nact=3, inner=()):
        self.it = it
        self.o = it.o
        self.U = UFCall(it)
        self.kind = kind
        self.masked = masked
        self.box = box          # (low array, high array) of elements for Box actions
        self.nact = nact
        self.env = Ref(it, list(inner) + (["TimeLimit"] if limit is not None else []), kind, theta_env, [limit] if limit is not None else [], masked=masked)
        self.tp = arr0(theta_pol)

    def aaval(self):
        return ((), "int32") if self.kind == "discrete" else ((2,), "float32")

    def clip(self, a):
        if self.kind == "discrete":
            return a
        lo, hi = self.box
        o = self.o
        return np.array([o.ite(o.lt(x, l), l, o.ite(o.gt(x, h), h, x)) for x, l, h in zip(a, lo, hi)], dtype=object)

    def AV(self, h, obs, key, mask=None):
        ops = [self.tp, h, obs, arr0(key)] + ([mask] if mask is not None else [])
        return self.U("AV", [((1,), "float32"), self.aaval(), ((), "float32"), ((), "float32")], *ops)

    def PI(self, h, obs, key, mask=None):
        ops = [self.tp, h, obs, arr0(key)] + ([mask] if mask is not None else [])
        return self.U("PI", [((1,), "float32"), self.aaval()], *ops)

    def V(self, h, obs):
        return self.U("V", [((1,), "float32"), ((), "float32")], self.tp, h, obs)

    def PReset(self, key):
        return self.U("PReset", [((1,), "float32")], self.tp, arr0(key))[0]


def onpolicy_step(w, s, counters, h, K, gamma, bootstrap_h="next"):
    """K: dict of key terms {O, M, A, T, R, Term, B, I, P}.  Returns the expected new state and buffer row."""
    o = w.o
    env = w.env
    obs = env.observation(s, K["O"])
    mask = env.mask(s, K["M"]) if w.masked else None
    h2, a, v, lp = w.AV(h, obs, K["A"], mask)
    ca = w.clip(a)
    s2, c2 = env.transition(s, counters, ca, K["T"])
    r = env.reward(s, ca, s2, K["R"])
    term = env.terminal(s2, K["Term"])
    trunc = env.truncate(s2, c2)
    done = o.lor(term, trunc)
    hb = h2 if bootstrap_h == "next" else h
    vb = w.V(hb, env.observation(s2, K["B"]))[1][()]
    only_trunc = o.land(trunc, o.lnot(term))
    r_stored = o.ite(only_trunc, o.add(r, o.mul(gamma, vb)), r)
    si, ci = env.initial(K["I"])
    ns = np.array([o.ite(done, x, y) for x, y in zip(si, s2)], dtype=object)
    nc = [o.ite(done, x, y) for x, y in zip(ci, c2)]
    hr = w.PReset(K["P"])
    nh = np.array([o.ite(done, x, y) for x, y in zip(hr, h2)], dtype=object)
    return dict(obs=obs, mask=mask, action=a, clipped=ca, value=v[()], log_prob=lp[()], s2=s2, c2=c2, reward=r, term=term, trunc=trunc, done=done,
                reward_stored=r_stored, next_s=ns, next_c=nc, next_h=nh, h2=h2, boot_value=vb, only_trunc=only_trunc)


def offpolicy_step(w, s, counters, h, K):
    """K: {O, A, T, R, Term, N, I, P}"""
    o = w.o
    env = w.env
    obs = env.observation(s, K["O"])
    h2, a = w.PI(h, obs, K["A"])
    ca = w.clip(a)
    s2, c2 = env.transition(s, counters, ca, K["T"])
    r = env.reward(s, ca, s2, K["R"])
    term = env.terminal(s2, K["Term"])
    trunc = env.truncate(s2, c2)
    done = o.lor(term, trunc)
    timeout = o.land(trunc, o.lnot(term))
    nobs = env.observation(s2, K["N"])          # successor observation of the PRE-reset successor
    si, ci = env.initial(K["I"])
    ns = np.array([o.ite(done, x, y) for x, y in zip(si, s2)], dtype=object)
    nc = [o.ite(done, x, y) for x, y in zip(ci, c2)]
    hr = w.PReset(K["P"])
    nh = np.array([o.ite(done, x, y) for x, y in zip(hr, h2)], dtype=object)
    return dict(obs=obs, action=a, clipped=ca, s2=s2, c2=c2, reward=r, term=term, trunc=trunc, done=done, timeout=timeout, next_obs=nobs,
                next_s=ns, next_c=nc, next_h=nh, h=h, h2=h2)
