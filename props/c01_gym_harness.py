"""CrossHair harness for the Gymnasium-facing adapter LeraxToGymEnv (a stateful Python object around env.reset / env.step): the REAL adapter class is driven
by a symbolic call sequence over {step, reset(), reset(seed)} against a deterministic duck-typed environment whose state is a pair (episode, t) of Python
ints; the contract of C01 is the postcondition.  `run_sequence` is also what the replay executes concretely."""
import types

import numpy as np

import lerax.compatibility.gym as G
from lerax.compatibility.gym import LeraxToGymEnv


# stubs (part of the claim): inside the adapter module the PRNG is a pure-Python free algebra (key(seed), split(k) -> two children) and jnp.asarray is the
# identity -- JAX's dispatch caches make re-executions of one path differ, which CrossHair rejects; the adapter's logic does not depend on either
class _JR:
    key = staticmethod(lambda seed: ("key", int(seed)))
    split = staticmethod(lambda k: ((k, 0), (k, 1)))


G.jr = _JR
G.jnp = types.SimpleNamespace(asarray=lambda x: x, ndarray=G.jnp.ndarray)

H = 2     # episode length of the fake environment (truncation on the H-th step)


class FakeEnv:
    name = "fake"

    def __init__(self):
        self.resets = 0

    @staticmethod
    def obs(s):
        return np.array([s[0], s[1]], dtype=np.float32)

    # the rest of the public environment API, for adapters that use it
    def state_info(self, state):
        return {}

    def transition_info(self, state, action, next_state):
        return {}

    def observation(self, state, *, key=None):
        return self.obs(state)

    def terminal(self, state, *, key=None):
        return False

    def truncate(self, state):
        return False

    def action_mask(self, state, *, key=None):
        return None

    def reset(self, *, key):
        self.resets += 1
        s = (self.resets, 0)
        return s, self.obs(s), {}

    def step(self, state, action, *, key):
        ep, t = state
        if t + 1 >= H:                      # the episode ends: auto-reset, as AbstractEnvLike.step does
            self.resets += 1
            ns = (self.resets, 0)
            return ns, self.obs(ns), 1.0, False, True, {}
        ns = (ep, t + 1)
        return ns, self.obs(ns), 0.0, False, False, {}


def _template():
    from lerax.env.classic_control import CartPole
    real_jr, real_jnp = G.jr, G.jnp
    import jax.numpy as jnp_
    import jax.random as jr_
    G.jr, G.jnp = jr_, jnp_                       # the real constructor runs on the real modules ...
    try:
        t = LeraxToGymEnv(CartPole())
    finally:
        G.jr, G.jnp = real_jr, real_jnp            # ... the sequences below on the stubs
    return {k: v for k, v in vars(t).items() if k not in ("env", "key", "state", "action_space", "observation_space")}


_TEMPLATE = _template()


def run_sequence(ops):
    """True iff after every call the adapter holds the state the environment returned LAST, reports that state's observation, and every reset() (seeded or
    not) left it in a freshly drawn initial state (episode clock 0, drawn by this very call)"""
    env = FakeEnv()
    g = LeraxToGymEnv.__new__(LeraxToGymEnv)        # the constructor only converts the spaces (C14's business) and seeds the key
    # instance attributes the constructor would set (beyond the space conversion): taken from a real instance over a real environment, built once at import
    for k_, v_ in _TEMPLATE.items():
        setattr(g, k_, v_)
    g.env, g.key = env, _JR.key(0)
    obs, _ = g.reset(seed=0)
    ok = g.state == (env.resets, 0) and obs[0] == g.state[0] and obs[1] == g.state[1]
    for op in ops:
        before = env.resets
        if op == 0:
            obs, r, te, tr, _ = g.step(0)
            ok = ok and obs[0] == g.state[0] and obs[1] == g.state[1] and ((te or tr) == (g.state[1] == 0 and env.resets == before + 1))
        else:
            obs, _ = g.reset() if op == 1 else g.reset(seed=1)
            ok = ok and env.resets == before + 1 and g.state == (env.resets, 0) and obs[0] == g.state[0] and obs[1] == g.state[1]
    return bool(ok)


def seq3(a: int, b: int, c: int) -> bool:
    """
    pre: 0 <= a <= 2 and 0 <= b <= 2 and 0 <= c <= 2
    post: __return__
    """
    return run_sequence([a, b, c])


def seq5(a: int, b: int, c: int, d: int, e: int) -> bool:
    """
    pre: 0 <= a <= 2 and 0 <= b <= 2 and 0 <= c <= 2 and 0 <= d <= 2 and 0 <= e <= 2
    post: __return__
    """
    return run_sequence([a, b, c, d, e])
