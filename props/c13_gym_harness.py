"""CrossHair harness for the host-side callbacks of GymToLeraxEnv (the Python bodies that run inside io_callback and talk to the Gymnasium
environment): the REAL `transition` / `initial` methods are executed with io_callback replaced by a direct call of the callback they build, over a
duck-typed Gymnasium environment that returns symbolic (observation, reward, terminated, truncated).  The postcondition is the slot contract of
C13: the state carries exactly what the Gymnasium environment returned, field by field, and the environment received the action / seed handed in."""
import types

import lerax.compatibility.gym as G
from lerax.compatibility.gym import GymToLeraxEnv


def _conv(x, dtype=None):
    if dtype is bool:
        return bool(x)
    if dtype is float:
        return float(x)
    if dtype is int:
        return int(x)
    return x


# stubs (part of the claim): inside the adapter module jnp / np array constructors are Python conversions, io_callback calls the host function at
# once, the state record is a plain dict and the PRNG is not used (a seed is supplied)
G.jnp = types.SimpleNamespace(asarray=_conv, array=_conv, ndarray=G.jnp.ndarray, int32=int, iinfo=lambda t: types.SimpleNamespace(max=2**31 - 1))
G.np = types.SimpleNamespace(asarray=lambda x, *a, **k: x)
G.io_callback = lambda cb, shapes, *args, ordered=False: cb(*args)
G.GymEnvState = lambda **kw: dict(kw)


class _Space:
    @staticmethod
    def canonical():
        return 0.0


class FakeGym:
    def __init__(self, obs, reward, terminated, truncated):
        self.obs, self.reward, self.terminated, self.truncated = obs, reward, terminated, truncated
        self.actions, self.seeds = [], []

    def step(self, action):
        self.actions.append(action)
        return self.obs, self.reward, self.terminated, self.truncated, {"info": 1}

    def reset(self, *args, seed=None, **kwargs):
        self.seeds.append(seed)
        return self.obs, {"info": 0}


def _adapter(genv):
    e = GymToLeraxEnv.__new__(GymToLeraxEnv)
    for k, v in (("env", genv), ("observation_space", _Space), ("action_space", _Space)):
        object.__setattr__(e, k, v)
    return e


def run_step(obs, reward, terminated, truncated, action):
    genv = FakeGym(obs, reward, terminated, truncated)
    st = GymToLeraxEnv.transition(_adapter(genv), None, action, key=None)
    return bool(st["observation"] == obs and st["reward"] == reward and st["terminal"] == terminated and st["truncated"] == truncated
                and genv.actions == [action])


def run_reset(obs, seed):
    genv = FakeGym(obs, 1.0, True, True)
    st = GymToLeraxEnv.initial(_adapter(genv), key=None, seed=seed)
    return bool(st["observation"] == obs and st["reward"] == 0.0 and st["terminal"] is False and st["truncated"] is False and genv.seeds == [seed])


def step_slots(obs: int, reward: int, terminated: bool, truncated: bool, action: int) -> bool:
    """
    pre: -8 <= obs <= 8 and -8 <= reward <= 8 and 0 <= action <= 3
    post: __return__
    """
    return run_step(obs, reward, terminated, truncated, action)


def reset_slots(obs: int, seed: int) -> bool:
    """
    pre: -8 <= obs <= 8 and 0 <= seed <= 1000
    post: __return__
    """
    return run_reset(obs, seed)
