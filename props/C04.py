"""C04 — an on-policy rollout is a faithful record of the interaction."""
from fractions import Fraction

import equinox as eqx
import jax
import jax.numpy as jnp
import numpy as np
import z3
from jax import random as jr

from jaxsmt import concrete, core
from jaxsmt.core import Check, conj, eq_arr, eq_elem, implies
from jaxsmt.harness import UFACPolicy, UFEnv
from jaxsmt.interp import Interp, arr0
from jaxsmt.trace import trace
from props.common import OnPolicyStep, empty_callback
from props.rollout_ref import World, keys_of, onpolicy_step

from props import stacks
from props.C01 import fixed_inputs

from lerax.algorithm import PPO
from lerax.space import Box, Discrete
from lerax.wrapper import TimeLimit

GAMMA = 0.5   # dyadic, so that the constant is exact in float32


def make(kind, masked, limited, rescaled=False):
    if rescaled:
        # an action-space-changing wrapper under the algorithm: the action space the algorithm clips into is the STACK's ([RS_MIN, RS_MAX]), the
        # environment underneath is driven by the affine image of the clipped action
        env = stacks.build(["RescaleAction"] + (["TimeLimit"] if limited else []), "box")
        return env, UFACPolicy(env, stateful=True)
    if kind == "discrete":
        base = UFEnv(Discrete(3), masked=masked)
    else:
        base = UFEnv(Box(jnp.array([-1.0, -2.0]), jnp.array([1.0, 4.0])))
    env = TimeLimit(base, 3) if limited else base
    pol = UFACPolicy(env, stateful=True)
    return env, pol


def find(S, suffix):
    c = [n for n in S if n.endswith(suffix)]
    assert len(c) == 1, (suffix, c)
    return S[c[0]]


def cfg_name(kind, masked, limited, rescaled=False):
    return f"{kind}{'+mask' if masked else ''}{'+rescaleaction' if rescaled else ''}{'+timelimit' if limited else ''}"


def world_of(it, S, kind, masked, limited, rescaled=False):
    box = None
    if rescaled:
        box = (stacks.frac(stacks.RS_MIN), stacks.frac(stacks.RS_MAX))
    elif kind == "box":
        box = (list([n for n in S.items() if n[0].startswith("env") and n[0].endswith("action_space_low")][0][1]),
               list([n for n in S.items() if n[0].startswith("env") and n[0].endswith("action_space_high")][0][1]))
    theta_env = [v for n, v in S.items() if n.startswith("env") and n.endswith("theta")][0][()]
    theta_pol = S["pol_theta"][()]
    limit = find(S, "max_episode_steps")[()] if limited else None
    return World(it, theta_env, theta_pol, limit=limit, kind=kind, masked=masked, box=box, inner=["RescaleAction"] if rescaled else [])


def step_keys(it, masked):
    kO = keys_of(it, "O")
    K = {"O": kO[0], "B": kO[1] if len(kO) > 1 else None, "A": keys_of(it, "AV")[0], "T": keys_of(it, "T")[0], "R": keys_of(it, "R")[0],
         "Term": keys_of(it, "Term")[0], "I": keys_of(it, "Init")[0], "P": keys_of(it, "PReset")[0]}
    if masked:
        K["M"] = keys_of(it, "Mask")[0]
    return K


def assumptions_for(S, kind, limited, K, rescaled=False):
    A = concrete.key_axioms(list(K.values()))
    if limited:
        A.append(find(S, "max_episode_steps")[()] >= 1)
        A.append(find(S, "st_env_state_step_count")[()] >= 0)
    if kind == "box" and not rescaled:
        lo = [n for n in S.items() if n[0].startswith("env") and n[0].endswith("action_space_low")][0][1]
        hi = [n for n in S.items() if n[0].startswith("env") and n[0].endswith("action_space_high")][0][1]
        A += [l <= h for l, h in zip(lo, hi)]
    return A


def check_step(ck, kind, masked, limited, rescaled=False):
    name = cfg_name(kind, masked, limited, rescaled)
    env, pol = make(kind, masked, limited, rescaled)
    algo = PPO(num_envs=1, num_steps=2, num_batches=1, num_epochs=1, gamma=GAMMA)
    cb = empty_callback()
    st = OnPolicyStep.example(env, pol, cb)

    def fn(env, pol, st, key):
        ns, row = algo.step(env, pol, st, key=key, callback=cb)
        return {"state": ns, "row": row}
    tr = trace(fn, env, pol, st, jr.key(0), argnames=["env", "pol", "st", "key"], label="AbstractActorCriticOnPolicyAlgorithm.step")
    it = Interp()
    # (rescaled: the space bounds and the wrapper's range are the static dyadic configuration of props/stacks.py)
    S = tr.symbols(it, given=fixed_inputs(tr, env) if rescaled else None)
    out = tr.run(it, S)
    if name == "discrete+timelimit":
        ck.encoded(tr)
        concrete.validate(ck, tr, n=2, seed=ck.seed, gen=lambda n, av, rng: (jnp.asarray(2) if n.endswith("max_episode_steps") else (jnp.asarray(int(rng.integers(0, 3))) if n.endswith("step_count") else None)))
    w = world_of(it, S, kind, masked, limited, rescaled)
    K = step_keys(it, masked)
    s = [v for n, v in S.items() if n.startswith("st_env_state") and n.endswith("_s")][0]
    counters = [find(S, "st_env_state_step_count")[()]] if limited else []
    h = S["st_policy_state_h"]
    g = Fraction(GAMMA)
    R = onpolicy_step(w, s, counters, h, K, g)
    A = assumptions_for(S, kind, limited, K, rescaled)
    sname = [n for n in out if n.startswith("state_env_state") and n.endswith("_s")][0]

    def prove(oid, outs, extra=()):
        orc = {k: (arr0(v) if not isinstance(v, np.ndarray) else v) for k, v in outs.items()}
        missing = [k for k in orc if k not in out or tuple(out[k].shape) != tuple(orc[k].shape)]
        if missing:
            ck.fact(f"{oid}@{name}", False, f"outputs missing or mis-shaped: {missing} (have {list(out)})")
            return
        ck.prove(f"{oid}@{name}", A + list(extra), conj([eq_arr(out[k], v) for k, v in orc.items()]),
                 replay=lambda res, orc=orc: concrete.replay_outputs(tr, S, res, uf_apps=it.uf_apps, oracle=orc))
    prove("row.obs", {"row_observations": R["obs"]})
    prove("row.action_is_sampled", {"row_actions": R["action"]})
    prove("row.value_logprob_of_stored", {"row_values": R["value"], "row_log_probs": R["log_prob"], "row_states_h": h})
    if masked:
        prove("row.mask", {"row_action_masks": R["mask"]})
    prove("done.or", {"row_dones": R["done"]})
    # reward: computed with the CLIPPED action on the transition driven by the CLIPPED action, bootstrapped iff truncated and not terminated
    prove("reward.of_clipped_with_bootstrap", {"row_rewards": R["reward_stored"]})
    # finer-grained versions of the reward clause, so that a failure names the clause
    o = it.o
    prove("bootstrap.never_on_termination", {"row_rewards": R["reward"]}, extra=[R["term"]])
    prove("bootstrap.on_truncation_only", {"row_rewards": o.add(R["reward"], o.mul(g, R["boot_value"]))}, extra=[R["trunc"], o.lnot(R["term"])])
    prove("bootstrap.none_when_not_done", {"row_rewards": R["reward"]}, extra=[o.lnot(R["done"])])
    st_or = {sname: R["next_s"], "state_policy_state_h": R["next_h"]}
    if limited:
        st_or["state_env_state_step_count"] = R["next_c"][0]
    prove("reset.env_and_policy_iff_done", st_or)
    fresh = all(not K[a].eq(K[b]) for a in ("I", "P") for b in K if b != a and K[b] is not None)
    ck.fact(f"reset.keys_fresh@{name}", fresh, f"env reset key {K['I']}, policy reset key {K['P']} are used nowhere else in the step")
    if name == "discrete+timelimit":
        ck.witness("witness.trunc_and_term_reachable", A + [R["trunc"], R["term"]])
        ck.witness("witness.only_trunc_reachable", A + [R["only_trunc"]])
        ck.control("control.done_is_term_only", A, eq_arr(out["row_dones"], arr0(R["term"])))
        ck.control("control.bootstrap_with_post_reset_obs", A, eq_arr(out["row_rewards"], arr0(o.ite(R["only_trunc"], o.add(R["reward"], o.mul(g, w.V(R["h2"], w.env.observation(R["next_s"], K["B"]))[1][()])), R["reward"]))))
    if kind == "box":
        lo, hi = w.box
        ck.witness(f"witness.clipping_active@{name}", A + [R["action"][0] > hi[0]])


def check_rollout(ck, kind, limited, S_):
    """collect_rollout = S scanned steps (each the step oracle from the carried state, keys split(key,2)[0] -> split(.,S)[t]) + GAE"""
    name = f"{cfg_name(kind, False, limited)},S={S_}"
    env, pol = make(kind, False, limited)
    algo = PPO(num_envs=1, num_steps=S_, num_batches=1, num_epochs=1, gamma=GAMMA, gae_lambda=0.5)
    cb = empty_callback()
    st = OnPolicyStep.example(env, pol, cb)

    def fn(env, pol, st, key):
        ns, buf = algo.collect_rollout(env, pol, st, cb, key)
        return {"state": ns, "buf": buf}
    tr = trace(fn, env, pol, st, jr.key(0), argnames=["env", "pol", "st", "key"], label="AbstractOnPolicyAlgorithm.collect_rollout")
    ck.encoded(tr)
    it = Interp()
    S = tr.symbols(it)
    out = tr.run(it, S)
    w = world_of(it, S, kind, False, limited)
    s = find(S, "st_env_state_env_state_s") if limited else find(S, "st_env_state_s")
    counters = [find(S, "st_env_state_step_count")[()]] if limited else []
    h = S["st_policy_state_h"]
    g = Fraction(GAMMA)
    # simpler and robust: collect the distinct key operands per uf name in order of first appearance; step t uses the t-th (O: 2t, 2t+1)
    kO, kAV, kT, kR, kTerm, kI, kP = (keys_of(it, n) for n in ("O", "AV", "T", "R", "Term", "Init", "PReset"))
    ok = len(kO) == 2 * S_ + 1 and all(len(k) == S_ for k in (kAV, kT, kR, kTerm, kI, kP))
    ck.fact(f"rollout.keys_per_step@{name}", ok, f"O:{len(kO)} AV:{len(kAV)} T:{len(kT)} R:{len(kR)} Term:{len(kTerm)} Init:{len(kI)} PReset:{len(kP)} for S={S_}")
    if not ok:
        return
    allkeys = kO + kAV + kT + kR + kTerm + kI + kP
    A = concrete.key_axioms(allkeys + [S["key"][()]])
    if limited:
        A += [find(S, "max_episode_steps")[()] >= 1, counters[0] >= 0]
    if kind == "box":
        lo, hi = w.box
        A += [l <= h_ for l, h_ in zip(lo, hi)]
    exp = {k: [] for k in ("buf_observations", "buf_actions", "buf_rewards", "buf_dones", "buf_log_probs", "buf_values", "buf_states_h")}
    cs, cc, ch = s, counters, h
    for t in range(S_):
        K = {"O": kO[2 * t], "B": kO[2 * t + 1], "A": kAV[t], "T": kT[t], "R": kR[t], "Term": kTerm[t], "I": kI[t], "P": kP[t]}
        R = onpolicy_step(w, cs, cc, ch, K, g)
        exp["buf_observations"].append(R["obs"])
        exp["buf_actions"].append(R["action"])
        exp["buf_rewards"].append(R["reward_stored"])
        exp["buf_dones"].append(R["done"])
        exp["buf_log_probs"].append(R["log_prob"])
        exp["buf_values"].append(R["value"])
        exp["buf_states_h"].append(ch)
        cs, cc, ch = R["next_s"], R["next_c"], R["next_h"]
    orc = {}
    for k, v in exp.items():
        rows = [arr0(x) if not isinstance(x, np.ndarray) else x for x in v]
        orc[k] = np.stack(rows)
    sname = "state_env_state_env_state_s" if limited else "state_env_state_s"
    orc[sname] = cs
    orc["state_policy_state_h"] = ch
    if limited:
        orc["state_env_state_step_count"] = arr0(cc[0])
    # GAE applied to the RECORDED stream with the bootstrap value of the post-rollout state (C03 decides the estimator itself); stated as the
    # recurrence on the implementation's own outputs so that the query stays linear
    lastv = w.V(ch, w.env.observation(cs, kO[2 * S_]))[1][()]
    lam = Fraction(1, 2)
    o = it.o
    if all(k in out for k in ("buf_advantages", "buf_returns", "buf_rewards", "buf_values", "buf_dones")):
        oa = list(out["buf_advantages"])
        adv, ret = [], []
        for t in range(S_):
            nd = o.ite(out["buf_dones"][t], 0, 1)
            nv = lastv if t == S_ - 1 else out["buf_values"][t + 1]
            nx = 0 if t == S_ - 1 else oa[t + 1]
            adv.append(o.add(o.sub(o.add(out["buf_rewards"][t], o.mul(o.mul(g, nd), nv)), out["buf_values"][t]), o.mul(o.mul(g * lam, nd), nx)))
            ret.append(o.add(oa[t], out["buf_values"][t]))
        orc["buf_advantages"] = np.array(adv, dtype=object)
        orc["buf_returns"] = np.array(ret, dtype=object)
    bad = [k for k in orc if k not in out or tuple(out[k].shape) != tuple(orc[k].shape)]
    if bad:
        ck.fact(f"rollout.scan_composition@{name}", False, f"outputs missing or mis-shaped: {bad}")
        return
    for fld in orc:
        ck.prove(f"rollout.scan_composition.{fld}@{name}", A, eq_arr(out[fld], orc[fld]),
                 replay=lambda res, fld=fld: concrete.replay_outputs(tr, S, res, uf_apps=it.uf_apps, oracle={fld: orc[fld]}))


def main():
    ck = Check("C04", "on-policy rollout record")
    ck.mode = "REAL"
    ck.bound(rollout_steps=[2, 3, 4] if ck.thorough else [2], obs_dim=2, state_dim=2, actions=["Discrete(3) (with and without mask)", "Box(2) with symbolic bounds low<=high", "RescaleAction([-1,-1],[1,2]) over Box([-1,-2],[1,4]) (dyadic constants)"],
             time_limit="symbolic N >= 1, symbolic step count", gamma=GAMMA, envs="1 (lanes of a vectorised rollout are C12)")
    ck.stub("environment: Init, T, O, R, Term, Trunc, Mask uninterpreted", "policy: AV (action_and_value), V, PReset uninterpreted, with an explicit policy state",
            "PRNG keys: free algebra, distinct key terms are distinct keys", "callback: CallbackList([])")
    ck.out("the numerical value of log-probabilities (C15/C16)", "vectorised collection (C12)", "float rounding")
    for kind, masked, limited in [("discrete", False, True), ("discrete", True, True), ("box", False, True), ("discrete", False, False), ("box", False, False)]:
        with ck.section(f"step@{cfg_name(kind, masked, limited)}"):
            check_step(ck, kind, masked, limited)
    for limited in ((True,) if not ck.thorough else (True, False)):
        with ck.section(f"step@{cfg_name('box', False, limited, True)}"):
            check_step(ck, "box", False, limited, rescaled=True)
    for S_ in ([2, 3, 4] if ck.thorough else [2]):
        for kind in ("discrete", "box"):
            with ck.section(f"rollout@{kind},S={S_}"):
                check_rollout(ck, kind, True, S_)
            if ck.thorough and S_ <= 3:
                with ck.section(f"rollout@{kind},S={S_},no-timelimit"):
                    check_rollout(ck, kind, False, S_)
    # `masks ... are the ones recorded and applied`: above, the policy is uninterpreted and `applied` means the offered mask is the operand of the policy call
    # whose action / value / log-probability are stored.  That the library's own actor-critic policy honours the mask it is handed (every maskable action
    # space kind) is shown by the actor-critic obligations of C16, discharged here as part of this clause.
    from props import C16
    for case in C16.space_cases(3)[:(3 if ck.thorough else 2)]:
        with ck.section(f"mask_applied_by_the_real_policy.{case.name}"):
            C16.sec_ac(ck, case)
    ck.finish("AbstractActorCriticOnPolicyAlgorithm.step and collect_rollout are traced over an uninterpreted environment (optionally under a TimeLimit with "
              "symbolic limit and count) and an uninterpreted stateful actor-critic policy, from an arbitrary carried state. Every field of the stored row, the "
              "carried state, the reward/bootstrapping rule (gamma*V(successor observation) iff truncated and not terminated), the done flag, resets and "
              "mask recording are compared with a reference interpreter written from the statement; collect_rollout is compared with the S-fold "
              "composition of the reference step followed by GAE.")


if __name__ == "__main__":
    main()
