"""C01 — Gym-style step/reset honours episode boundaries (auto-reset contract)."""
import itertools

import jax
import jax.numpy as jnp
import numpy as np
import z3
from jax import random as jr

from jaxsmt import concrete, core, solve
from jaxsmt.core import Check, conj, eq_arr, eq_elem
from jaxsmt.interp import Interp, arr0
from jaxsmt.trace import trace
from props import stacks
from props.stacks import Ref, applicable, build, out_parts, state_parts


def stack_name(spec):
    return "∘".join(reversed(spec)) if spec else "bare"


def step_fn(env, st, a, key):
    s2, obs, r, term, trunc, info = env.step(st, a, key=key)
    return {"state": s2, "obs": obs, "reward": r, "terminal": term, "truncate": trunc, "info": info}


def reset_fn(env, key):
    s, obs, info = env.reset(key=key)
    return {"state": s, "obs": obs, "info": info}


def example_action(kind):
    return jnp.array(1) if kind == "discrete" else jnp.zeros(2)


def fixed_inputs(tr, env):
    """space bounds and wrapper constants that wrappers captured at construction stay concrete (static configuration)"""
    leaves = [l for l in jax.tree_util.tree_leaves(tr.args) if hasattr(l, "shape")]
    given = {}
    it = Interp()
    for n, av, l in zip(tr.in_names, tr.in_avals, leaves):
        # Box bounds and ClipReward's min/max are captured by the wrappers' closures at construction: static configuration
        if "space" in n or n.endswith("_min") or n.endswith("_max"):
            given[n] = it.lift(np.asarray(l), av.dtype)
    return given


def check_stack(ck, spec, kind):
    name = f"{stack_name(spec)}/{kind}"
    env = build(spec, kind)
    st0 = jax.eval_shape(lambda k: env.initial(key=k), jr.key(0))
    tr = trace(step_fn, env, st0, example_action(kind), jr.key(0), argnames=["env", "st", "a", "key"])
    it = Interp()
    S = tr.symbols(it, given=fixed_inputs(tr, env))
    out = tr.run(it, S)
    theta = [v for n, v in S.items() if n.endswith("theta")][0]
    limits = [v[()] for n, v in sorted(((n, v) for n, v in S.items() if n.endswith("max_episode_steps")), key=lambda t: -t[0].count("env_env"))]
    limits = [v[()] for n, v in sorted(((n, v) for n, v in S.items() if n.endswith("max_episode_steps")), key=lambda t: -t[0].count("_env"))]
    crs = sorted(((n, v) for n, v in S.items() if n.endswith("_min") or n.endswith("_max")), key=lambda t: -t[0].count("_env"))
    clipr = []
    mins = [v[()] for n, v in crs if n.endswith("_min")]
    maxs = [v[()] for n, v in crs if n.endswith("_max")]
    clipr = list(zip(mins, maxs))
    ref = Ref(it, spec, kind, theta[()], limits, clip_reward=clipr)
    s, counters = state_parts(S, "st_", spec)
    a, key = S["a"], S["key"][()]
    # the keys the implementation hands to the components (oracle strength: any fresh split children, not particular indices)
    def keys_of(uname):
        ks = []
        for nm, oi, idx, ops, t in it.uf_apps:
            if nm == uname:
                for x in ops:
                    if isinstance(x, z3.ExprRef) and x.sort().name() == "Key" and not any(x.eq(y) for y in ks):
                        ks.append(x)
        return ks
    kT, kR, kTerm, kInit = keys_of("T"), keys_of("R"), keys_of("Term"), keys_of("Init")
    ok_keys = len(kT) == 1 and len(kR) == 1 and len(kTerm) == 1 and len(kInit) == 1
    ck.fact(f"step.one_key_per_component@{name}", ok_keys, f"T{len(kT)} R{len(kR)} Term{len(kTerm)} Init{len(kInit)}")
    if not ok_keys:
        return
    # "freshly drawn": the reset key is not one of the keys that produced the transition, reward or termination of this step (how it is derived
    # from the step key — split, fold_in, ... — is not constrained by the statement)
    fresh = not any(kInit[0].eq(k) for k in (kT[0], kR[0], kTerm[0]))
    ck.fact(f"step.reset_key_fresh@{name}", fresh, f"reset key {kInit[0]} vs transition {kT[0]}, reward {kR[0]}, terminal {kTerm[0]}")
    s2, c2 = ref.transition(s, counters, a, kT[0])
    r = ref.reward(s, a, s2, kR[0])
    term = ref.terminal(s2, kTerm[0])
    trunc = ref.truncate(s2, c2)
    done = it.o.lor(term, trunc)
    si, ci = ref.initial(kInit[0])
    ret_s = np.array([it.o.ite(done, x, y) for x, y in zip(si, s2)], dtype=object)
    ret_c = [it.o.ite(done, x, y) for x, y in zip(ci, c2)]
    # observation of the RETURNED state (the key used for the observation is not constrained by the statement: take the implementation's)
    kO = keys_of("O")
    oracle = {"reward": arr0(r), "terminal": arr0(term), "truncate": arr0(trunc), "info_tinfo": arr0(ref.transition_info(s, a, s2))}
    os_, oc = out_parts(out, "state_")
    assumptions = concrete.key_axioms([key] + kT + kR + kTerm + kInit + kO)
    for n_, v in S.items():
        if n_.endswith("max_episode_steps"):
            assumptions.append(v[()] >= 1)
    goals = {
        "step.reward": eq_arr(out["reward"], oracle["reward"]),
        "step.flags": conj([eq_arr(out["terminal"], oracle["terminal"]), eq_arr(out["truncate"], oracle["truncate"])]),
        "step.info": eq_arr(out["info_tinfo"], oracle["info_tinfo"]),
        "step.state": conj([eq_arr(os_, ret_s)] + [eq_elem(x, y) for x, y in zip(oc, ret_c)] + [len(oc) == len(ret_c)]),
    }
    st_names = [n for n in tr.out_names if n.startswith("state_")]
    sname = [n for n in st_names if n.endswith("_s") or n == "state_s"][0]
    cnames = sorted([n for n in st_names if n.endswith("step_count")], key=lambda n: -n.count("env_state"))
    oracle_state = {sname: ret_s}
    for n_, c in zip(cnames, ret_c):
        oracle_state[n_] = arr0(c)
    if len(kO) == 1:
        obs = ref.observation(ret_s, kO[0])
        goals["step.obs_of_returned_state"] = eq_arr(out["obs"], obs) if tuple(out["obs"].shape) == tuple(obs.shape) else False
        oracle_obs = {"obs": obs}
    else:
        ck.fact(f"step.obs_single_observation_call@{name}", False, f"{len(kO)} observation keys")
        oracle_obs = {}
    allor = dict(oracle)
    allor.update(oracle_state)
    allor.update(oracle_obs)
    for gid, g in goals.items():
        sub = {"step.reward": ["reward"], "step.flags": ["terminal", "truncate"], "step.info": ["info_tinfo"], "step.state": list(oracle_state),
               "step.obs_of_returned_state": ["obs"]}[gid]
        orc = {k: allor[k] for k in sub if k in allor}
        ck.prove(f"{gid}@{name}", assumptions, g, replay=lambda res, orc=orc: concrete.replay_outputs(tr, S, res, uf_apps=it.uf_apps, oracle=orc))
    return tr, it, S, out, ref, done


def check_reset(ck, spec, kind):
    name = f"{stack_name(spec)}/{kind}"
    env = build(spec, kind)
    tr = trace(reset_fn, env, jr.key(0), argnames=["env", "key"])
    it = Interp()
    S = tr.symbols(it, given=fixed_inputs(tr, env))
    out = tr.run(it, S)
    theta = [v for n, v in S.items() if n.endswith("theta")][0]
    ref = Ref(it, spec, kind, theta[()], [None] * spec.count("TimeLimit"))
    kI = [ops for nm, oi, idx, ops, t in it.uf_apps if nm == "Init"]
    kO = [ops for nm, oi, idx, ops, t in it.uf_apps if nm == "O"]
    keyI = [x for x in kI[0] if isinstance(x, z3.ExprRef) and x.sort().name() == "Key"][0]
    keyO = [x for x in kO[0] if isinstance(x, z3.ExprRef) and x.sort().name() == "Key"][0]
    si, ci = ref.initial(keyI)
    os_, oc = out_parts(out, "state_")
    obs = ref.observation(si, keyO)
    g = conj([eq_arr(os_, si)] + [eq_elem(x, 0) for x in oc] + [len(oc) == len(ci), eq_arr(out["obs"], obs) if tuple(out["obs"].shape) == tuple(obs.shape) else False,
              eq_arr(out["info_sinfo"], arr0(ref.state_info(si)))])
    sname = [n for n in tr.out_names if n.startswith("state_") and (n.endswith("_s") or n == "state_s")][0]
    orc = {sname: si, "obs": obs}
    for n_ in tr.out_names:
        if n_.endswith("step_count"):
            orc[n_] = arr0(0)
    ck.prove(f"reset.state_obs@{name}", [], g, replay=lambda res: concrete.replay_outputs(tr, S, res, uf_apps=it.uf_apps, oracle=orc))


# ------------------------------------------------------------------------------------------------ environments with host-side effects
def _counting_gym_env(horizon=3):
    import gymnasium
    import numpy as _np

    class Chain(gymnasium.Env):
        """deterministic chain: observation = (position, resets so far, steps since reset, 0); terminates after `horizon` steps"""
        observation_space = gymnasium.spaces.Box(-100.0, 100.0, (4,), _np.float32)
        action_space = gymnasium.spaces.Discrete(2)

        def __init__(self):
            self.resets, self.t, self.x = 0, 0, 0.0

        def _obs(self):
            return _np.array([self.x, self.resets, self.t, 0.0], _np.float32)

        def reset(self, *, seed=None, options=None):
            self.resets += 1
            self.t, self.x = 0, 0.0
            return self._obs(), {}

        def step(self, action):
            self.t += 1
            self.x += 1.0 + float(action)
            return self._obs(), float(self.x), self.t >= horizon, False, {}
    return Chain()


def check_effects(ck):
    """GymToLeraxEnv (anchor compatibility/gym.py): initial() and transition() act on a host-side simulator through ordered io_callbacks, so the state
    returned by step is `the successor` only if step performs exactly the transition effect, and the reset effect exactly when a flag is raised."""
    from lerax.compatibility.gym import GymToLeraxEnv
    from lerax import wrapper as W
    from jaxsmt.interp import Interp
    base = GymToLeraxEnv(_counting_gym_env())
    for label, env in (("GymToLeraxEnv", base), ("TimeLimit∘GymToLeraxEnv", W.TimeLimit(base, 5)), ("ClipReward∘TimeLimit∘GymToLeraxEnv", W.ClipReward(W.TimeLimit(base, 5)))):
        st0 = jax.eval_shape(lambda k: env.initial(key=k), jr.key(0))

        def sig(f, *args):
            t = trace(f, *args, label="signature")
            return [(tuple(v.aval.shape), str(v.aval.dtype)) for e in _eqns(t.jaxpr) if e.primitive.name == "io_callback" for v in e.outvars]
        sig_reset = sig(lambda e, k: e.initial(key=k), env, jr.key(0))
        sig_trans = sig(lambda e, s_, a, k: e.transition(s_, a, key=k), env, st0, jnp.array(1), jr.key(0))

        def f(e, s_, a, k):
            from jaxsmt import stubs
            with stubs.prng_stubs():
                ns, ob, r, te, tu, info = e.step(s_, a, key=k)
            return {"terminal": te, "truncate": tu, "reward": r}
        tr = trace(f, env, st0, jnp.array(1), jr.key(0), argnames=["env", "st", "a", "key"], label=f"{label}.step (host effects)")
        ck.encoded(tr)
        it = Interp()
        S = tr.symbols(it)
        out = tr.run(it, S)
        eff = [x for x in it.effects if x["kind"] == "io_callback"]
        kinds = ["reset" if x["out_avals"] == sig_reset else ("transition" if x["out_avals"] == sig_trans else "other") for x in eff]
        ck.fact(f"effects.one_transition_then_one_reset@{label}", kinds == ["transition", "reset"] and all(x["ordered"] for x in eff) and sig_reset != sig_trans,
                f"host effects of step in program order: {kinds}; ordered: {[x['ordered'] for x in eff]}")
        if kinds != ["transition", "reset"]:
            continue
        done = it.o.lor(out["terminal"][()], out["truncate"][()])
        g_t, g_r = eff[0]["guard"], eff[1]["guard"]

        def rp(res, env=env, label=label):
            """real adapter over a real (counting) Gymnasium environment: reset, then steps; the simulator must be reset once per raised flag and no more"""
            import equinox as eqx
            sim = _counting_gym_env()
            e = GymToLeraxEnv(sim)
            if "TimeLimit" in label:
                e = W.TimeLimit(e, 5)
            if "ClipReward" in label:
                e = W.ClipReward(e)
            s_, _, _ = e.reset(key=jr.key(3))
            flags, rewards = 0, []
            for i in range(2):
                s_, ob, r, te, tu, _ = e.step(s_, jnp.array(1), key=jr.key(10 + i))
                flags += int(bool(te) or bool(tu))
                rewards.append(float(r))
            return sim.resets != 1 + flags, {"function": f"{label}.step on a counting Gymnasium environment", "simulator_resets": sim.resets, "flags_raised": flags, "step_rewards": rewards,
                                             "expected_resets": 1 + flags}
        ck.prove(f"effects.transition_always_reset_iff_flag@{label}", [], conj([g_t if not isinstance(g_t, bool) else g_t, (g_r == done) if not (isinstance(g_r, bool) and isinstance(done, bool)) else (g_r == done)]), replay=rp)
    ck.stub("io_callback results: uninterpreted functions of their operands and a sequence number; their execution condition is the conjunction of the enclosing lax.cond branch predicates")


def check_gym_adapter(ck):
    """LeraxToGymEnv (the Gymnasium-facing adapter, a stateful Python object): CrossHair executes the REAL class symbolically over call sequences
    (step / reset() / reset(seed), lengths 3 and 5) against a deterministic duck-typed environment; harness and stubs: props/c01_gym_harness.py"""
    import os
    import re
    import subprocess
    import sys
    import time
    path = os.path.join(core.ROOT, "props", "c01_gym_harness.py")
    src = open(path).read().splitlines()
    conds, cur = {}, None
    for ln, text in enumerate(src, 1):
        m = re.match(r"def (seq\d+)\(", text)
        if m:
            cur = m.group(1)
        if text.strip().startswith("post:") and cur:
            conds[ln] = cur
    t0 = time.time()
    p = subprocess.run([os.path.join(core.ROOT, ".venv", "bin", "crosshair"), "check", "--report_all", "--per_condition_timeout", "120" if ck.thorough else "60", path],
                       capture_output=True, text=True, env=dict(os.environ), timeout=600, cwd=core.ROOT)
    dt = time.time() - t0
    ck.solver_time += dt
    ck.functions.append({"function": "LeraxToGymEnv.reset / step (Python source, CrossHair; PRNG and jnp.asarray stubbed inside the adapter module)", "equations": 0, "inputs": 5, "outputs": 1})
    seen = {}
    for line in (p.stdout + "\n" + p.stderr).splitlines():
        m = re.match(r".*?:(\d+): (info|error): (.*)", line)
        if m and int(m.group(1)) in conds:
            seen[int(m.group(1))] = (m.group(2), m.group(3))
    for ln, fname in sorted(conds.items()):
        oid = f"gym_adapter.contract_over_call_sequences@{fname}"
        ob = ck._new(oid, "prove")
        ob.solver = "crosshair (z3)"
        ck.queries += 1
        kind, msg = seen.get(ln, ("missing", "no verdict reported: " + (p.stderr or p.stdout)[-300:]))
        if kind == "info" and "Confirmed over all paths" in msg:
            ob.status = "unsat"
            continue
        if kind == "error":
            m = re.search(r"when calling \w+\((.*?)\)", msg)
            ops = [int(x) for x in re.findall(r"-?\d+", re.sub(r"\w+\s*=", "", m.group(1)))] if m else None
            rep, info = False, {"crosshair": msg[:400]}
            if ops is not None:
                q = subprocess.run([sys.executable, "-W", "ignore", "-c", f"from props.c01_gym_harness import run_sequence; print('RESULT', run_sequence({ops!r}))"],
                                   capture_output=True, text=True, env=dict(os.environ), cwd=core.ROOT, timeout=300)
                rep = "RESULT False" in q.stdout
                info.update({"call_sequence (0=step, 1=reset(), 2=reset(seed=1)) after an initial reset(seed=0)": ops, "contract_holds_on_the_real_adapter": "RESULT True" in q.stdout,
                             "function": "LeraxToGymEnv driven through the Gymnasium API over a deterministic 2-step-episode environment"})
            if rep:
                ck._violation(ob, info, replay_info=info, reproduced=True)
                continue
            ob.status, ob.detail = "sat-unreproduced", str(info)[:500]
        else:
            ob.status, ob.detail = "unknown", msg[:300]
        ck.inconclusive.append(ob)
        ck.log(f"INCONCLUSIVE {oid}: {ob.detail}")
    ck.stub("LeraxToGymEnv harness: jax.random inside the adapter module is a pure-Python free key algebra and jnp.asarray the identity (JAX's dispatch caches make re-executions differ, which CrossHair rejects); environment = deterministic duck-typed stand-in with (episode, t) states")


def _eqns(jaxpr):
    for e in jaxpr.eqns:
        yield e
        for v in e.params.values():
            for sub in (v if isinstance(v, (tuple, list)) else [v]):
                j = getattr(sub, "jaxpr", sub)
                if hasattr(j, "eqns"):
                    yield from _eqns(j)


def main():
    ck = Check("C01", "auto-reset contract")
    ck.mode = "REAL"
    depth = 3 if ck.thorough else 2
    ck.bound(stack_depth=depth, state_dim=2, obs_dim=2, action_kinds=["Discrete(3)", "Box(2)"], layers=list(stacks.LAYERS))
    ck.stub("the base environment is uninterpreted: Init, T, O, R, Term, Trunc, SInfo, TInfo are arbitrary functions of all their operands (env parameter, state, action, key)",
            "TransformAction / TransformObservation / TransformReward are given arbitrary (uninterpreted) user functions AF, OF, RF",
            "PRNG keys: free algebra, syntactically distinct key terms are distinct keys")
    ck.out("particular built-in dynamics (C02/C17)", "wrappers whose constructor fails (C13 `constructs` obligations); such stacks are skipped here and listed")
    layer_names = list(stacks.LAYERS)
    specs = [[]]
    for d in range(1, depth + 1):
        specs += [list(p) for p in itertools.product(layer_names, repeat=d)]
    if not ck.thorough:
        # quick: all single layers, all pairs containing TimeLimit or an action wrapper with a reward/observation wrapper
        specs = [s for s in specs if len(s) <= 1 or "TimeLimit" in s or (len(set(s)) == 2 and any(x.endswith("Action") for x in s))]
    skipped = []
    first = True
    for spec in specs:
        for kind in ("discrete", "box"):
            if not applicable(spec, kind):
                continue
            nm = f"{stack_name(spec)}/{kind}"
            try:
                build(spec, kind)
            except TypeError as ex:
                skipped.append(nm)
                continue
            with ck.section(nm):
                res = check_stack(ck, spec, kind)
                check_reset(ck, spec, kind)
                if res and first:
                    tr, it, S, out, ref, done = res
                    ck.encoded(tr)
                    first = False
                if res and spec == ["TimeLimit"] and kind == "discrete":
                    tr, it, S, out, ref, done = res
                    ck.encoded(tr)
                    concrete.validate(ck, tr, n=2, seed=ck.seed, gen=lambda n, av, rng: (jnp.asarray(2) if n.endswith("max_episode_steps") else (jnp.asarray(int(rng.integers(0, 3))) if n.endswith("step_count") else None)))
                    # vacuity: both continuation and reset are reachable; negative control: returning the successor when truncated only
                    ck.witness("witness.done_reachable", [done])
                    ck.witness("witness.continue_reachable", [core.neg(done)])
                    os_, oc = out_parts(out, "state_")
                    s, counters = state_parts(S, "st_", spec)
                    ck.control("control.never_resets", [], eq_elem(oc[0], counters[0] + 1))
    ck.notes.append(f"stacks skipped because a layer cannot be constructed (reported by C13): {sorted(set(skipped))[:40]}")
    with ck.section("effects"):
        check_effects(ck)
    with ck.section("gym_adapter"):
        check_gym_adapter(ck)
    # every built-in environment class inherits step/reset (no override): the contract proved above is the code they run
    with ck.section("inherit"):
        from lerax.env.base_env import AbstractEnvLike
        import lerax.env.classic_control as cc
        import lerax.env.mujoco as mj
        import lerax.env.unitree.g1 as g1
        import inspect
        bad = []
        n = 0
        for mod in (cc, mj, g1, W_ := __import__("lerax.wrapper", fromlist=["x"])):
            for nm, cls in inspect.getmembers(mod, inspect.isclass):
                if issubclass(cls, AbstractEnvLike):
                    n += 1
                    for meth in ("step", "reset"):
                        f = getattr(cls, meth)
                        f0 = getattr(AbstractEnvLike, meth)
                        if getattr(f, "__wrapped__", f) is not getattr(f0, "__wrapped__", f0) and f is not f0:
                            if inspect.unwrap(getattr(f, "__func__", f)) is not inspect.unwrap(getattr(f0, "__func__", f0)):
                                bad.append(f"{cls.__name__}.{meth}")
        ck.fact("inherit.no_override", not bad and n >= 20, f"{n} environment/wrapper classes; overriding: {bad}")
    ck.finish("AbstractEnvLike.step/reset are traced on wrapper stacks over an uninterpreted base environment (one symbolic step from an arbitrary "
              "state covers every reachable state of every history, because step is a function of (state, action, key)); reward, flags, info, "
              "returned state (successor vs freshly drawn initial state with every wrapper counter 0) and the observation of the RETURNED state are "
              "compared with a reference semantics of the stack written independently; the reset key must be a split child not used elsewhere.")


if __name__ == "__main__":
    main()
