"""C06 — the replay buffer keeps the most recent transitions and samples only stored ones.

Encoded (real lerax code, traced from the current tree): `ReplayBuffer.add`, `ReplayBuffer.sample` (with `current_size`,
`AbstractBuffer.flatten_axes`) on a buffer with a pytree-structured observation (dict of a Box and an integer leaf), a tuple action,
and a policy state, scalar and vectorised over E environments.

Ghost tags: the integer observation leaf `tag` of insertion number n holds n itself; every other leaf of insertion n holds
H_leaf(n) for an uninterpreted (= arbitrary) history function H_leaf.  "All fields of a row come from the same insertion" is then
"every leaf of slot j equals H_leaf(tag of slot j)".
"""
import jax
import jax.numpy as jnp
import numpy as np
import z3
from jax import random as jr

from jaxsmt import concrete, solve, stubs
from jaxsmt.core import Check, conj, disj, eq_elem, implies
from jaxsmt.harness import UFPolState
from jaxsmt.interp import Interp
from jaxsmt.ops import UFun
from jaxsmt.trace import trace

from lerax.buffer import ReplayBuffer
from lerax.space import Box, Dict, Discrete, Tuple

TAG = "observations_tag"          # the ghost-tag leaf
P_REPLAY_MAX = 100000             # replayed counterexamples use positions that fit int32 comfortably


def spaces(stateful=True, obs="dict"):
    # "tuple": a Tuple observation of two equally shaped components (the observation pytree is itself a 2-tuple, the shape that a
    # fused (observation, successor) traversal can confuse with its own pairs)
    osp = Dict({"pos": Box(-1.0, 1.0, shape=(2,)), "tag": Discrete(7)}) if obs == "dict" else Tuple((Discrete(7), Discrete(7)))
    asp = Tuple((Discrete(3), Box(-1.0, 1.0, shape=(1,))))
    return osp, asp, (UFPolState(jnp.zeros(1)) if stateful else None)


def mkbuf(C, E=None, stateful=True, obs="dict"):
    osp, asp, st = spaces(stateful, obs)
    if E is None:
        return ReplayBuffer(C, osp, asp, st)
    # the vectorised buffer exactly as AbstractOffPolicyAlgorithm.reset builds it: vmap of the constructor
    return jax.vmap(lambda _: ReplayBuffer(C, osp, asp, st))(jnp.arange(E))


def add_fn(rb, o, no, a, r, d, t, s, ns):
    return rb.add(o, no, a, r, d, t, s, ns)


ADD_ARGNAMES = ["buf", "o", "no", "a", "r", "d", "t", "s", "ns"]


def trace_add(C, stateful=True, obs="dict"):
    osp, asp, st = spaces(stateful, obs)
    rb = mkbuf(C, stateful=stateful, obs=obs)
    o, a = osp.canonical(), asp.canonical()
    return trace(add_fn, rb, o, o, a, jnp.array(0.0), jnp.array(False), jnp.array(False), st, st, argnames=ADD_ARGNAMES,
                 label="ReplayBuffer.add" + ("" if stateful else "[stateless policy]") + ("" if obs == "dict" else "[Tuple observation]"))


def row_name(leaf):
    """name of the `add` argument leaf that feeds buffer leaf `leaf`"""
    for pre, r in (("next_observations", "no"), ("observations", "o"), ("actions", "a"), ("next_states", "ns"), ("states", "s")):
        if leaf == pre or leaf.startswith(pre + "_"):
            return r + leaf[len(pre):]
    return {"rewards": "r", "dones": "d", "timeouts": "t"}[leaf]


def H(it, leaf, k, dtype):
    """history function of one leaf element: insertion number -> content (arbitrary)"""
    return UFun("H_" + leaf + "".join(f"_{i}" for i in k), [z3.IntSort()], it.o.sort_of(dtype))


def last(j, p, t, C):
    """t is the number of the most recent insertion n < p with n mod C == j, or -1 if there is none"""
    return z3.Or(z3.And(t == -1, p <= j), z3.And(t >= 0, t < p, t % C == j, t + C >= p))


def zmin(a, b):
    return z3.If(a <= b, a, b)


def zmax(a, b):
    return z3.If(a >= b, a, b)


def bounded_inputs(S, tr, ilim=1000, flim=64):
    """range restriction used only to pick a replayable model (int32 / float32 friendly), never in the main query"""
    out = []
    for n, av in zip(tr.in_names, tr.in_avals):
        if "key" in str(av.dtype) or np.dtype(av.dtype) == np.bool_:
            continue
        lim = ilim if np.issubdtype(np.dtype(av.dtype), np.integer) else flim
        for x in S[n].reshape(-1):
            if isinstance(x, z3.ExprRef):
                out.append(z3.And(x >= -lim, x <= lim))
    return out


def same_value(got, exp):
    """stored values are copied, never computed with: the real code must reproduce the model's value exactly (as float32)"""
    if exp is None:
        return False
    g = np.asarray(got)
    if g.dtype == np.bool_:
        return bool(g) == bool(exp)
    if np.issubdtype(g.dtype, np.integer):
        return int(g) == int(exp)
    return bool(np.float32(g) == np.float32(float(exp)))


# ------------------------------------------------------------------------------------------------ add
def sec_add(ck, C, validate, stateful=True, obs="dict"):
    tr = trace_add(C, stateful, obs)
    sfx = ("" if stateful else ",stateless") + ("" if obs == "dict" else ",tuple_observation")
    TAG = "observations_tag" if obs == "dict" else "observations_0"
    ck.encoded(tr)
    if validate:
        concrete.validate(ck, tr, n=2, seed=ck.seed)
    leaves = [n for n in tr.out_names if n != "position"]
    shapes = dict(zip(tr.out_names, tr.out_avals))

    # ---------- inductive step from an arbitrary state satisfying Inv(p, buf)
    it = Interp()
    n = z3.Int("n")           # ghost: the true number of insertions so far (unbounded)
    p = z3.Int("p")           # the buffer's own counter; only what add() and sample() read off it is assumed (link)
    given = {"buf_position": p}
    for L in leaves:
        av = shapes[L]
        row = np.empty(av.shape[1:], dtype=object)
        for k in np.ndindex(*row.shape):
            row[k] = n if L == TAG else H(it, L, k, av.dtype)(n)        # the new row is insertion number n
        given[row_name(L)] = row

    def link(n_, p_):
        """the counter represents n insertions: same ring slot, same number of stored transitions (how the counter does that -- exact count, folded
        count -- is the implementation's choice; the int32 side is the `machine` section)"""
        return z3.And(p_ >= 0, p_ % C == n_ % C, zmin(p_, C) == zmin(n_, C))
    S = tr.symbols(it, given=given)
    out = tr.run(it, S)

    def tags_of(pos, tagleaf):
        return [z3.If(j < zmin(pos, C), tagleaf[j], -1) for j in range(C)]

    def inv(pos, buf, T):
        """slot j holds insertion last(j,pos) (ring order); every leaf of a written slot carries the content of the insertion whose tag it has"""
        cs = []
        for j in range(C):
            cs.append(last(j, pos, T[j], C))
            for L in leaves:
                if L == TAG:
                    continue
                av = shapes[L]
                for k in np.ndindex(*av.shape[1:]):
                    cs.append(implies(T[j] >= 0, eq_elem(buf[L][(j,) + k], H(it, L, k, av.dtype)(T[j]))))
        return cs

    buf_in = {L: S["buf_" + L] for L in leaves}
    T0 = tags_of(n, buf_in[TAG])
    A = [n >= 0, link(n, p)] + inv(n, buf_in, T0)
    T1 = tags_of(n + 1, out[TAG])
    goal = conj([link(n + 1, out["position"][()])] + inv(n + 1, out, T1))

    def rp_add(res, tr=tr, S=S, it=it):
        keys = concrete.KeyBinding(res)
        vals = [concrete.model_leaf(res, S[n], av, keys) for n, av in zip(tr.in_names, tr.in_avals)]
        m = dict(zip(tr.out_names, concrete.run_real(tr, vals)))
        pv = int(solve.num(res.value(n)))          # insertions so far
        cv = int(solve.num(res.value(p)))          # the counter before
        bad = []
        pa = int(m["position"])
        if not (pa >= 0 and pa % C == (pv + 1) % C and min(pa, C) == min(pv + 1, C)):
            bad.append({"position_after": pa, "insertions_after": pv + 1, "required": "position mod C = insertions mod C and min(position, C) = min(insertions, C)"})
        for j in range(C):
            tj = int(np.asarray(m[TAG])[j]) if j < min(pv + 1, C) else -1
            want = -1 if pv + 1 <= j else pv - ((pv - j) % C)        # most recent insertion n <= pv with n mod C == j
            if tj != want:
                bad.append({"slot": j, "tag_found": tj, "most_recent_insertion_for_slot": want})
                continue
            if tj < 0:
                continue
            for L in leaves:
                if L == TAG:
                    continue
                av = shapes[L]
                for k in np.ndindex(*av.shape[1:]):
                    exp = solve.num(res.value(H(it, L, k, av.dtype)(z3.IntVal(tj))))
                    got = np.asarray(m[L])[(j,) + k]
                    if not same_value(got, exp):
                        bad.append({"slot": j, "leaf": L, "elem": list(k), "real_code": float(got), "content_of_insertion": tj, "expected": exp})
        info = {"function": tr.label, "capacity": C, "insertions_before": pv, "counter_before": cv,
                "inputs": {n: np.asarray(concrete.real_to_float(v)).reshape(-1)[:12].tolist() for n, v in zip(tr.in_names, vals)},
                "after_add": {n: np.asarray(concrete.real_to_float(v)).reshape(-1)[:12].tolist() for n, v in m.items()},
                "invariant_failures": bad[:8]}
        return bool(bad), info
    small = [n <= P_REPLAY_MAX, p <= P_REPLAY_MAX] + bounded_inputs(S, tr, ilim=P_REPLAY_MAX + 10)
    ck.prove(f"add.inductive@C={C}{sfx}", A, goal, replay=rp_add, margin_goal=implies(conj(small), goal))
    ck.witness(f"witness.inv_after_wraparound@C={C}{sfx}", A + [n > C])
    ck.witness(f"witness.inv_partially_filled@C={C}{sfx}", A + [n > 0, n < C] if C > 1 else A + [n == 0])
    if C > 1:
        # wrong references: the ring index computed as (p+1) mod C / the position not advanced
        wrong = [z3.If(j < zmin(n + 1, C), z3.If(j == (n + 1) % C, n, buf_in[TAG][j]), -1) for j in range(C)]
        ck.control(f"control.add_row_lands_at_next_slot@C={C}{sfx}", A, conj([eq_elem(T1[j], wrong[j]) for j in range(C)]))
    ck.control(f"control.add_position_unchanged@C={C}{sfx}", A, link(n + 1, p))

    # ---------- all fields of the new row are written at one common slot and nothing else changes (arbitrary state, no invariant needed)
    it2 = Interp()
    S2 = tr.symbols(it2, prefix="f_")
    out2 = tr.run(it2, S2)
    p2 = S2["buf_position"][()]

    def same_slot(s):
        cs = []
        for L in leaves:
            av = shapes[L]
            for j in range(C):
                for k in np.ndindex(*av.shape[1:]):
                    src = S2[row_name(L)][k] if j == s else S2["buf_" + L][(j,) + k]
                    cs.append(eq_elem(out2[L][(j,) + k], src))
        return conj(cs)

    def rp_slot(res, tr=tr, S2=S2):
        keys = concrete.KeyBinding(res)
        vals = [concrete.model_leaf(res, S2[n], av, keys) for n, av in zip(tr.in_names, tr.in_avals)]
        inp = dict(zip(tr.in_names, vals))
        m = dict(zip(tr.out_names, concrete.run_real(tr, vals)))
        ok_slots = []
        for s in range(C):
            ok = True
            for L in leaves:
                for j in range(C):
                    src = np.asarray(inp[row_name(L)]) if j == s else np.asarray(inp["buf_" + L])[j]
                    ok = ok and bool(np.all(np.asarray(m[L])[j] == src))
            if ok:
                ok_slots.append(s)
        info = {"function": tr.label, "capacity": C, "slots_holding_the_whole_new_row": ok_slots,
                "inputs": {n: np.asarray(concrete.real_to_float(v)).reshape(-1)[:12].tolist() for n, v in inp.items()},
                "after_add": {n: np.asarray(concrete.real_to_float(v)).reshape(-1)[:12].tolist() for n, v in m.items()}}
        return not ok_slots, info
    small2 = bounded_inputs(S2, tr)
    g2 = disj([same_slot(s) for s in range(C)])
    ck.prove(f"add.fields_same_slot@C={C}{sfx}", [p2 >= 0], g2, replay=rp_slot, margin_goal=implies(conj(small2), g2))
    if C > 1:
        ck.control(f"control.add_always_slot0@C={C}{sfx}", [p2 >= 0], same_slot(0))


def sec_machine_counter(ck, C):
    """int32 semantics of the insertion counter.  The inductive step above treats `position` as a mathematical integer; the array is int32 and XLA
    addition wraps.  What add() and sample() read off the counter p after n insertions (n unbounded) is
        Obs(n, p) :=  p mod C = n mod C  and  current_size(p) = min(n, C).
    The check looks for an inductive invariant Inv(n, p) of the MACHINE counter (holds for n = p = 0, preserved by add with wrapping arithmetic, implies Obs)
    among two candidates: the bounded counter  Inv_B := 0 <= p < 2C, p = n mod C (mod C), (n < C => p = n), (n >= C => p >= C)  and the exact counter
    Inv_A := p = n.  Every pre-state of Inv_A is reached by n insertions from the empty buffer, so a counterexample to its preservation is a real history."""
    from jaxsmt.machineint import in_range, wrap_ops
    tr = trace_add(C)
    it = Interp()
    p = z3.Int("p_machine")
    S = tr.symbols(it, given={"buf_position": p})
    out = tr.run(it, S)
    pav = tr.out_avals[tr.out_names.index("position")]
    ck.fact(f"machine.position_is_int32@C={C}", str(pav.dtype) == "int32" and tuple(pav.shape) == (), f"position aval {pav}")
    nxt = wrap_ops(out["position"][()])
    trc = trace(lambda rb: rb.current_size, mkbuf(C), argnames=["buf"], label="ReplayBuffer.current_size")
    ck.encoded(trc)

    def cur(pos):
        itc = Interp()
        return wrap_ops(trc.run(itc, trc.symbols(itc, given={"buf_position": pos}))[trc.out_names[0]][()])
    n = z3.Int("n_insertions")

    def obs(n_, p_):
        return z3.And(p_ % C == n_ % C, cur(p_) == zmin(n_, C))

    def inv_b(n_, p_):
        return z3.And(p_ >= 0, p_ < 2 * C, p_ % C == n_ % C, z3.Implies(n_ < C, p_ == n_), z3.Implies(n_ >= C, p_ >= C))

    def inv_a(n_, p_):
        return p_ == n_
    base = [n >= 0, in_range(p)]

    def inductive(inv):
        return [z3.Implies(z3.And(n == 0, p == 0), inv(n, p)), z3.Implies(inv(n, p), z3.And(in_range(nxt), inv(n + 1, nxt), obs(n, p)))]
    rb_ = solve.decide(base + [z3.Not(z3.And(inductive(inv_b)))], timeout_s=30)
    which = ("bounded", inv_b) if rb_.status == "unsat" else ("exact", inv_a)

    def rp(res):
        import equinox as eqx
        pv = int(solve.num(res.value(p)))
        nv = int(solve.num(res.value(n)))
        rb = eqx.tree_at(lambda b: b.position, mkbuf(C), jnp.asarray(pv, jnp.int32))
        osp, asp, st = spaces(True)
        o, a = osp.canonical(), asp.canonical()
        rb2 = rb.add(o, o, a, jnp.array(0.0), jnp.array(False), jnp.array(False), st, st)
        p2, cs2 = int(rb2.position), int(rb2.current_size)
        ok = p2 % C == (nv + 1) % C and cs2 == min(nv + 1, C)
        return (not ok), {"function": f"ReplayBuffer.add on a buffer whose int32 counter is {pv}, the state after {nv} insertions", "capacity": C, "insertions_before": nv,
                          "position_after_real_add": p2, "current_size_after_real_add": cs2, "required": {"position mod C": (nv + 1) % C, "current_size": min(nv + 1, C)},
                          "consequence": "sample() builds its validity mask from current_size: a negative value marks every slot invalid (probabilities 0/0)"}
    ck.notes.append(f"machine counter, C={C}: inductive invariant tried first: bounded counter ({rb_.status}); obligation stated with the {which[0]} counter invariant")
    ck.prove(f"machine.counter_simulates_insertion_count@C={C}", base, z3.And(inductive(which[1])), replay=rp)
    ck.witness(f"witness.machine.counter_invariant_satisfiable@C={C}", base + [which[1](n, p), n > 2 * C + 5])


def sec_base(ck):
    rb = mkbuf(3)
    ck.fact("add.base", int(rb.position) == 0 and int(rb.current_size) == 0,
            "a freshly constructed buffer has position 0; Inv(0, .) holds for any contents because last(j, 0) = -1 for every slot (checked by the solver below)")
    T = [z3.Int(f"t{j}") for j in range(3)]
    ck.prove("add.base.inv0", [t == -1 for t in T], conj([last(j, z3.IntVal(0), T[j], 3) for j in range(3)]))


# ------------------------------------------------------------------------------------------------ integer lemma
def sec_ring(ck, C):
    p, n = z3.Int("p"), z3.Int("n")
    T = [z3.Int(f"t{j}") for j in range(C)]
    A = [p >= 0] + [last(j, p, T[j], C) for j in range(C)]
    lo = zmax(p - C, 0)
    ck.prove(f"ring.lemma.window@C={C}", A, conj([z3.Implies(T[j] >= 0, z3.And(lo <= T[j], T[j] < p)) for j in range(C)]))
    ck.prove(f"ring.lemma.no_duplicates@C={C}", A, conj([z3.Implies(z3.And(T[i] >= 0, T[j] >= 0), T[i] != T[j]) for i in range(C) for j in range(i + 1, C)]))
    ck.prove(f"ring.lemma.complete@C={C}", A, z3.Implies(z3.And(lo <= n, n < p), z3.Or([T[j] == n for j in range(C)])))
    ck.prove(f"ring.lemma.count@C={C}", A, z3.Sum([z3.If(T[j] >= 0, 1, 0) for j in range(C)]) == zmin(p, C))
    ck.prove(f"ring.lemma.stored_is_prefix@C={C}", A, conj([(T[j] >= 0) == (j < zmin(p, C)) for j in range(C)]))
    ck.prove(f"ring.lemma.step@C={C}", A, conj([last(j, p + 1, z3.If(p % C == j, p, T[j]), C) for j in range(C)]))
    ck.witness(f"witness.ring_wrapped_many_times@C={C}", A + [p > 2 * C + 1])
    # wrong references: the buffer does not hold C+1 transitions; overwriting the newest instead of the oldest slot breaks the ring
    ck.control(f"control.ring_holds_one_more@C={C}", A, z3.Implies(z3.And(p - C - 1 <= n, n >= 0, n < p), z3.Or([T[j] == n for j in range(C)])))
    if C > 1:
        ck.control(f"control.ring_overwrite_newest@C={C}", A, conj([last(j, p + 1, z3.If((p - 1) % C == j, p, T[j]), C) for j in range(C)]))


# ------------------------------------------------------------------------------------------------ sample
def sec_sample(ck, C, E, B, validate=False, controls=False):
    rb = mkbuf(C, E)
    cfg = (f"E={E}," if E else "") + f"C={C},B={B}"
    fam = "sample.vector_fill_levels." if E else "sample."

    def sample_fn(b, k):
        # jax.random.choice is the contract stub whenever this function runs (tracing, translator validation, replay)
        with stubs.prng_stubs():
            return b.sample(B, key=k)
    tr = trace(sample_fn, rb, jr.key(0), argnames=["buf", "key"], label="ReplayBuffer.sample" + (f"[vmapped E={E}]" if E else ""))
    if validate:
        ck.encoded(tr)

        def gen(name, av, rng):
            if name != "buf_position":
                return None
            if not E:
                return jnp.asarray(rng.integers(B, 3 * C + 1), dtype=jnp.int32)
            return jnp.asarray([rng.integers(C, 3 * C + 1), rng.integers(max(0, B - C), 2 * C + 1)], dtype=jnp.int32)
        concrete.validate(ck, tr, n=2, seed=ck.seed, gen=gen)
    it = Interp()
    S = tr.symbols(it)
    out = tr.run(it, S)
    leaves = [n for n in tr.out_names if n != "position"]
    avs = dict(zip(tr.out_names, tr.out_avals))
    envs = list(range(E)) if E else [None]
    pos = [S["buf_position"][e] if E else S["buf_position"][()] for e in envs]

    def slot(L, e, j):
        a = S["buf_" + L]
        return a[e][j] if E else a[j]
    slots = [(e, j) for e in envs for j in range(C)]
    stored = {(ei, j): j < zmin(pos[ei], C) for ei, e in enumerate(envs) for j in range(C)}
    nstored = z3.Sum([zmin(q, C) for q in pos])
    tag = {(ei, j): slot(TAG, e, j) for ei, e in enumerate(envs) for j in range(C)}
    pre = [q >= 0 for q in pos] + [nstored >= B]
    if len(tag) > 1:
        pre.append(z3.Distinct(list(tag.values())))          # ghost tags identify the slots
    contract = stubs.contracts(it)
    A = pre + contract
    otag = [out[TAG][b] for b in range(B)]

    g_stored = conj([disj([z3.And(stored[s], otag[b] == tag[s]) for s in stored]) for b in range(B)])
    g_distinct = conj([otag[a] != otag[b] for a in range(B) for b in range(a + 1, B)])
    al = []
    for b in range(B):
        for (ei, j) in stored:
            same = []
            for L in leaves:
                src = np.asarray(slot(L, envs[ei], j), dtype=object)
                for k in np.ndindex(*avs[L].shape[1:]):
                    same.append(eq_elem(out[L][(b,) + k], src[k] if k else src[()]))
            al.append(implies(otag[b] == tag[(ei, j)], conj(same)))
    g_aligned = conj(al)

    def rp(res, what):
        keys = concrete.KeyBinding(res)
        w = concrete.ModelWorld(res, it.uf_apps, keys)
        vals = [concrete.model_leaf(res, S[n], av, keys) for n, av in zip(tr.in_names, tr.in_avals)]
        inp = dict(zip(tr.in_names, vals))
        m = dict(zip(tr.out_names, concrete.run_real(tr, vals, w)))
        pv = np.asarray(inp["buf_position"]).reshape(-1)
        flat = {L: np.asarray(inp["buf_" + L]).reshape((len(envs) * C,) + tuple(avs[L].shape[1:])) for L in leaves}
        st_mask = np.array([j < min(int(pv[ei]), C) for ei in range(len(envs)) for j in range(C)])
        tags_in = flat[TAG]
        ot = np.asarray(m[TAG])
        bad = []
        for b in range(B):
            where = [i for i in range(len(tags_in)) if tags_in[i] == ot[b]]
            if what == "stored" and not any(st_mask[i] for i in where):
                bad.append({"batch_row": b, "tag": int(ot[b]), "slot": where, "problem": "row does not come from a stored slot"})
            if what == "aligned" and where:
                for L in leaves:
                    if not np.array_equal(np.asarray(m[L])[b], flat[L][where[0]]):
                        bad.append({"batch_row": b, "leaf": L, "returned": np.asarray(m[L])[b].tolist(), "slot_with_same_tag": flat[L][where[0]].tolist()})
        if what == "distinct" and len(set(ot.tolist())) < B:
            bad.append({"returned_tags": ot.tolist(), "problem": "a transition occurs twice in the batch"})
        info = {"function": tr.label, "capacity": C, "envs": E or 1, "batch": B, "positions": pv.tolist(), "stored_mask(flat)": st_mask.tolist(),
                "slot_tags(flat)": tags_in.tolist(), "returned_tags": ot.tolist(), "draw_bound_to_model": w.hits, "failures": bad[:6],
                "note": "the stubbed sampler returns the model's draw (it satisfies the documented contract of jax.random.choice for the arguments the real code passed)"}
        return bool(bad), info
    small = [q <= P_REPLAY_MAX for q in pos] + bounded_inputs(S, tr, ilim=P_REPLAY_MAX)
    for oid, g, what in ((fam + "only_stored" if E else "sample.only_stored", g_stored, "stored"),
                         (fam + "distinct" if E else "sample.distinct", g_distinct, "distinct"),
                         (fam + "fields_aligned" if E else "sample.fields_aligned", g_aligned, "aligned")):
        if what == "distinct" and B == 1:
            continue
        ck.prove(f"{oid}@{cfg}", A, g, replay=lambda res, what=what: rp(res, what), margin_goal=implies(conj(small), g))
    if controls:
        ck.witness(f"witness.sample.batch_equals_stored@{cfg}", A + [nstored == B])
        if E:
            ck.witness(f"witness.sample.different_fill_levels@{cfg}", A + [pos[0] < C, pos[0] > 0, pos[1] > C])
            # wrong reference: validity mask laid out slot-major while the data is flattened environment-major
            wrongst = {(i // C, i % C): (i // E) < zmin(pos[i % E], C) for i in range(E * C)}
            ck.control(f"control.sample.mask_transposed@{cfg}", A, conj([disj([z3.And(wrongst[s], otag[b] == tag[s]) for s in stored]) for b in range(B)]))
            ck.control(f"control.sample.only_env0@{cfg}", A, conj([disj([otag[b] == tag[(0, j)] for j in range(C)]) for b in range(B)]))
        else:
            ck.witness(f"witness.sample.partially_filled@{cfg}", A + [pos[0] < C])
        # too strict: the newest stored slot could never be returned
        ck.control(f"control.sample.excludes_last_stored@{cfg}", A, conj([disj([z3.And(j + 1 < zmin(pos[ei], C), otag[b] == tag[(ei, j)]) for (ei, j) in stored]) for b in range(B)]))
        if B > 1:
            ck.control(f"control.sample.distinct_needs_choice_contract@{cfg}", pre, g_distinct)


def main():
    ck = Check("C06", "Replay buffer keeps the most recent transitions and samples only stored ones")
    ck.mode = "REAL"
    Cs = [1, 2, 3, 4] + ([5, 6] if ck.thorough else [])
    if ck.thorough:
        scal = [(C, B) for C in Cs for B in range(1, C + 1)]
        vec = [(C, B) for C in (1, 2, 3, 4) for B in range(1, 2 * C + 1)] + [(5, 3), (6, 4)]
    else:
        scal = [(1, 1), (2, 2), (3, 1), (3, 2), (4, 3), (4, 4)]
        vec = [(1, 1), (1, 2), (2, 1), (2, 3), (3, 2), (3, 4), (4, 5)]       # capacity 1: every per-transition scalar leaf has the shape of the per-environment counter
    ck.bound(capacity=Cs, envs=[1, 2], sample_configs_scalar=[list(x) for x in scal], sample_configs_E2=[list(x) for x in vec],
             note="capacity C, number of environments E and batch size B are static (enumerated); the position(s), every buffer cell, the new row, the key and the draw are symbolic; "
                  "the number of insertions n >= 0 is an unbounded mathematical integer; the buffer's counter is linked to it only by what the code reads off it, and its int32 arithmetic is modelled with wrapping in the `machine` obligations")
    ck.stub(*[s for s in stubs.STUB_NOTES if "choice" in s or "same key" in s])
    ck.assume_note("replay of the sample obligations runs the real ReplayBuffer.sample with jax.random.choice replaced by the contract stub bound to the model's draw (ModelWorld): "
                   "a draw the real sampler could return for the probabilities the real code passed",
                   "ghost tags: the integer observation leaf `tag` identifies the insertion / the slot; all other leaves are arbitrary (uninterpreted history functions, free cells)")
    ck.out("capacities of 2^30 slots and more per environment (2 * size must fit int32; the counter obligation is discharged for the enumerated capacities)",
           "uniformity / independence of the sampled indices (only the documented support and distinctness contract of jax.random.choice is used)",
           "batch sizes larger than the number of stored transitions (precondition of the statement)",
           "float32 rounding (no arithmetic on stored values occurs; probabilities are reals)")
    with ck.section("base"):
        sec_base(ck)
    for C in Cs:
        with ck.section(f"add@C={C}"):
            sec_add(ck, C, validate=(C in (1, 3)))
        with ck.section(f"ring@C={C}"):
            sec_ring(ck, C)
    for C in ([1, 3, 4] if not ck.thorough else Cs):
        with ck.section(f"machine@C={C}"):
            sec_machine_counter(ck, C)
    with ck.section("add@C=3,stateless"):
        sec_add(ck, 3, validate=False, stateful=False)        # policies without a state: the states / next_states fields are absent
    for C in ([2] if not ck.thorough else [2, 3]):
        with ck.section(f"add@C={C},tuple_observation"):
            sec_add(ck, C, validate=False, obs="tuple")           # observation pytree = a 2-tuple of equally shaped leaves
    for i, (C, B) in enumerate(scal):
        with ck.section(f"sample@C={C},B={B}"):
            sec_sample(ck, C, None, B, validate=(i == 0), controls=(C, B) in ((3, 2), (4, 3)))
    for i, (C, B) in enumerate(vec):
        with ck.section(f"sample@E=2,C={C},B={B}"):
            sec_sample(ck, C, 2, B, validate=(i == 0), controls=(C, B) in ((3, 2), (2, 3)))
    ck.finish("ReplayBuffer.add is traced for each capacity and interpreted over z3 terms from an ARBITRARY buffer state satisfying the ring invariant Inv(p, buf) "
              "(slot j holds insertion last(j,p); every leaf of a written slot carries the content H_leaf(tag) of the insertion whose ghost tag it holds) with a symbolic "
              "position p >= 0: the solver shows Inv(p+1, add(buf,row_p)) and that all leaves of the new row land in one common slot (one inductive step covers histories of any length, "
              "including arbitrarily many wrap-arounds). A pure integer lemma links Inv to 'holds exactly the most recent min(p,C) insertions, each once, in the slots below current_size'. "
              "ReplayBuffer.sample is traced with jax.random.choice replaced by its contract stub; with symbolic fill level(s), cells and draw, every returned row carries the tag of a stored "
              "slot of its own environment, all leaves of a row come from that same slot, and no tag occurs twice; the vectorised case E=2 has independent symbolic fill levels.")


if __name__ == "__main__":
    main()
