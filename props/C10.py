"""C10 — training schedule: step budget, iteration counter, target-network updates."""
import os
import subprocess
import sys
import textwrap
from fractions import Fraction

import equinox as eqx
import jax
import jax.numpy as jnp
import numpy as np
import z3
from jax import random as jr

from jaxsmt import concrete, core, stubs
from jaxsmt.core import Check, conj, eq_arr, eq_elem, implies
from jaxsmt.harness import UFEnv
from jaxsmt.interp import Interp, arr0
from jaxsmt.trace import trace
from props.C11 import callback_sets, setups
from props.common import empty_callback

from lerax.algorithm import A2C, DQN, PPO, REINFORCE, SAC
from lerax.policy import MLPActorCriticPolicy, MLPQPolicy, MLPSACPolicy
from lerax.space import Box, Discrete
from lerax.wrapper import TimeLimit


def iteration_trace(aname, algo, env, pol, cb):
    st = eqx.filter_eval_shape(lambda k: algo.reset(env, pol, key=k, callback=cb), jr.key(0))
    with stubs.prng_stubs():
        tr = trace(lambda st, k: algo.iteration(st, key=k, callback=cb), st, jr.key(0), argnames=["st", "key"], label=f"{aname}.iteration")
    it = Interp()
    # the declared spaces are static configuration of the environment / policy (and must stay valid boxes in a replay)
    from props.common import concrete_spaces
    S = tr.symbols(it, given=concrete_spaces(tr, it, st_env=env, st_policy=pol, st_target_policy=pol))
    out = tr.run(it, S)
    return tr, it, S, out


def replay_generic(tr, S, it, orc, real=None):
    """replay on the model's inputs (uninterpreted functions bound to the model); when that replay cannot be carried out or does not reproduce,
    `real(count)` runs the REAL public API end to end (reset() then iteration() from a state with the model's iteration count, generic concrete
    environment, real PRNG) and evaluates the obligation's concrete predicate"""
    def rp(res):
        info = {}
        try:
            ok, info = _rp(res, tr, S, it, orc)
            if ok:
                return ok, info
        except Exception as ex:  # noqa: BLE001
            info = {"model_replay_error": repr(ex)[:300]}
        if real is None:
            return False, info
        c = core.solve.num(res.value(S["st_iteration_count"][()]))
        c = int(c) if c is not None and c >= 0 else 1
        bad, rinfo = real(c)
        rinfo["model_replay"] = str(info)[:300]
        return bad, rinfo
    return rp


def _rp(res, tr, S, it, orc):
    with stubs.prng_stubs():
        return concrete.replay_outputs(tr, S, res, uf_apps=it.uf_apps, oracle=orc)


def real_run(algo, env, pol, cb, count):
    """the real reset() and one real iteration() from iteration count `count`, over a generic concrete interpretation of the environment"""
    from jaxsmt.uf import GenericWorld, world
    jax.clear_caches()
    try:
        with world(GenericWorld(seed=7)):
            st = algo.reset(env, pol, key=jr.key(1), callback=cb)
            st = eqx.tree_at(lambda s_: s_.iteration_count, st, jnp.asarray(count, st.iteration_count.dtype))
            out = algo.iteration(st, key=jr.key(2), callback=cb)
            out = jax.block_until_ready(out)
    finally:
        jax.clear_caches()
    return st, out


def leaves_equal(a, b, rtol=0.0, atol=0.0):
    la = [x for x in jax.tree_util.tree_leaves(a) if eqx.is_array(x)]
    lb = [x for x in jax.tree_util.tree_leaves(b) if eqx.is_array(x)]
    return len(la) == len(lb) and all(np.allclose(np.asarray(x, np.float64), np.asarray(y, np.float64), rtol=rtol, atol=atol, equal_nan=True) for x, y in zip(la, lb))


def count_transitions(it):
    return len({tuple(x.get_id() for x in ops) for nm, oi, idx, ops, t in it.uf_apps if nm == "T"})


def check_counter_and_budget(ck):
    cb = empty_callback()
    from props.C11 import harness_env_policy
    allsets = dict(setups(ck.thorough))
    # off-policy learners with more than one step (and environment) per iteration: the per-iteration budget is num_envs * num_steps, not num_envs
    envq, mkq = harness_env_policy("DQN")
    envs_, mks = harness_env_policy("SAC")
    allsets["DQN(E=2,S=2)"] = (DQN(buffer_size=8, learning_starts=1, num_envs=2, num_steps=2, batch_size=2, target_update_interval=3), envq, mkq)
    allsets["SAC(S=3)"] = (SAC(buffer_size=4, learning_starts=1, num_envs=1, num_steps=3, batch_size=2, q_width_size=2, q_depth=1), envs_, mks)
    for aname, (algo, env, mkpol) in allsets.items():
        pol = mkpol()
        tr, it, S, out = iteration_trace(aname, algo, env, pol, cb)
        ck.encoded(tr)
        c0 = S["st_iteration_count"][()]
        ck.prove(f"iter.counter_plus_one.{aname}", [], eq_elem(out["iteration_count"][()], c0 + 1), replay=replay_generic(tr, S, it, {"iteration_count": arr0(c0 + 1)},
                 real=lambda c, algo=algo, env=env, pol=pol: (lambda st, out: (int(out.iteration_count) != c + 1, {"count_before": c, "count_after": int(out.iteration_count)}))(*real_run(algo, env, pol, cb, c))))
        n = count_transitions(it)
        want = algo.num_envs * algo.num_steps
        ck.fact(f"iter.steps_consumed.{aname}", n == want, f"{n} distinct environment transitions in one iteration; num_envs*num_steps = {want}")


def check_learn_length(ck):
    """learn(): the outer scan runs floor(T / (E*S)) iterations (static in the IR) for a grid of (T, E, S)"""
    envd = TimeLimit(UFEnv(Discrete(2)), 3)
    ac = dict(feature_size=2, feature_width=2, feature_depth=1, value_width=2, value_depth=1, action_width=2, action_depth=1)
    pol = MLPActorCriticPolicy(envd, key=jr.key(0), **ac)
    polq = MLPQPolicy(envd, width_size=2, depth=1, key=jr.key(0))
    grid = [(5, 1, 2), (4, 2, 1), (7, 2, 2), (3, 2, 2)] if not ck.thorough else [(T, E, S_) for T in (1, 4, 7, 12) for E in (1, 2) for S_ in (1, 2, 3)]
    LS = 17          # warm-up length of the off-policy configuration: larger than every iteration count of the grid, so the two scans cannot be confused
    for T, E, S_ in grid:
        for aname, algo, p in (("PPO", PPO(num_envs=E, num_steps=S_, num_batches=1, num_epochs=1), pol),
                               ("DQN", DQN(buffer_size=4 * E, learning_starts=LS, num_envs=E, num_steps=S_, batch_size=1, target_update_interval=2), polq)):
            with stubs.prng_stubs():
                tr = trace(lambda env, pol, k: algo.learn(env, pol, T, key=k, callback=None), envd, p, jr.key(0), argnames=["env", "pol", "key"], label=f"{aname}.learn")
            # the iteration loop is the top-level scan over split keys (inside the filter_jit call)
            lens = []

            def walk(j, depth=0):
                for e in j.eqns:
                    if e.primitive.name == "scan":
                        lens.append((depth, e.params["length"]))
                    if e.primitive.name in ("pjit", "jit", "closed_call", "custom_jvp_call"):
                        for v in e.params.values():
                            jj = getattr(v, "jaxpr", v)
                            if hasattr(jj, "eqns"):
                                walk(jj, depth)
            walk(tr.jaxpr)
            k = T // (E * S_)
            # warm-up / other scans may exist at top level (DQN's learning_starts); the iteration scan is the one over k keys
            # (budgets below one rollout: NO iteration -- the iteration scan is absent or has length 0)
            others = sorted(L for d, L in lens if not (aname == "DQN" and L == LS))
            ok = others == [k] or (k == 0 and others in ([], [0]))
            ck.fact(f"learn.scan_length.{aname}@T={T},E={E},S={S_}", ok and (k * E * S_ <= T < (k + 1) * E * S_), f"top-level scan lengths {sorted(set(L for d, L in lens))}; floor(T/(E*S)) = {k}")


def crosshair_num_iterations(ck):
    """num_iterations is pure Python integer arithmetic: decided by CrossHair (z3-backed symbolic execution of the source)"""
    scratch = os.environ.get("VERIF_SCRATCH", "/tmp")
    path = os.path.join(scratch, "c10_num_iterations.py")
    src = textwrap.dedent('''
        import types
        from lerax.algorithm.on_policy import AbstractOnPolicyAlgorithm
        from lerax.algorithm.off_policy import AbstractOffPolicyAlgorithm

        def on_policy_floor(total: int, envs: int, steps: int) -> int:
            """
            pre: total >= 0 and envs >= 1 and steps >= 1
            post: __return__ * envs * steps <= total < (__return__ + 1) * envs * steps
            """
            return AbstractOnPolicyAlgorithm.num_iterations(types.SimpleNamespace(num_envs=envs, num_steps=steps), total)

        def off_policy_floor(total: int, envs: int, steps: int) -> int:
            """
            pre: total >= 0 and envs >= 1 and steps >= 1
            post: __return__ * envs * steps <= total < (__return__ + 1) * envs * steps
            """
            return AbstractOffPolicyAlgorithm.num_iterations(types.SimpleNamespace(num_envs=envs, num_steps=steps), total)

        def control_ceiling(total: int, envs: int, steps: int) -> int:
            """
            pre: total >= 0 and envs >= 1 and steps >= 1
            post: (__return__ - 1) * envs * steps < total <= __return__ * envs * steps
            """
            return AbstractOnPolicyAlgorithm.num_iterations(types.SimpleNamespace(num_envs=envs, num_steps=steps), total)
    ''')
    with open(path, "w") as f:
        f.write(src)
    exe = os.path.join(core.ROOT, ".venv", "bin", "crosshair")
    env = dict(os.environ)
    p = subprocess.run([exe, "check", "--report_all", "--per_condition_timeout", "40" if not ck.thorough else "120", path], capture_output=True, text=True, env=env, timeout=900)
    out = p.stdout + p.stderr
    res = {}
    for line in out.splitlines():
        for fn in ("on_policy_floor", "off_policy_floor", "control_ceiling"):
            pass
    # crosshair reports per line number; map by order of definition
    lines = [l for l in out.splitlines() if path in l]
    import re
    defs = {}
    for i, l in enumerate(src.splitlines(), 1):
        m = re.match(r"def (\w+)\(", l.strip())
        if m:
            defs[m.group(1)] = i
    order = sorted(defs.items(), key=lambda t: t[1])

    def verdict(fn):
        lo = defs[fn]
        hi = min([v for k, v in defs.items() if v > lo] + [10 ** 6])
        msgs = []
        for l in lines:
            m = re.search(r":(\d+):", l)
            if m and lo <= int(m.group(1)) < hi:
                msgs.append(l.split(":", 3)[-1].strip())
        return msgs
    for fn in ("on_policy_floor", "off_policy_floor"):
        msgs = verdict(fn)
        confirmed = any("Confirmed over all paths" in m for m in msgs)
        cex = [m for m in msgs if "false when calling" in m or "error" in m.lower()]
        ob = ck._new(f"iters.floor.{fn}", "prove")
        ob.solver = "crosshair-0.0.110/z3"
        if confirmed and not cex:
            ob.status = "unsat"
            ob.detail = "Confirmed over all paths"
        elif cex:
            # replay on the real method
            m = re.search(r"\((-?\d+), (-?\d+), (-?\d+)\)", cex[0])
            rep = None
            if m:
                T, E, S_ = map(int, m.groups())
                import types
                from lerax.algorithm.on_policy import AbstractOnPolicyAlgorithm
                from lerax.algorithm.off_policy import AbstractOffPolicyAlgorithm
                cls = AbstractOnPolicyAlgorithm if fn.startswith("on") else AbstractOffPolicyAlgorithm
                kk = cls.num_iterations(types.SimpleNamespace(num_envs=E, num_steps=S_), T)
                rep = not (kk * E * S_ <= T < (kk + 1) * E * S_)
                info = {"total_timesteps": T, "num_envs": E, "num_steps": S_, "num_iterations": kk, "crosshair": cex[0]}
            if rep:
                ck._violation(ob, info, replay_info=info)
            else:
                ob.status = "sat-unreproduced"
                ob.detail = cex[0]
                ck.inconclusive.append(ob)
        else:
            ob.status = "unknown"
            ob.detail = "; ".join(msgs)[:300] or out[-300:]
            ck.inconclusive.append(ob)
            ck.log(f"INCONCLUSIVE iters.floor.{fn}: crosshair: {ob.detail}")
        ck.queries += 1
    ctl = verdict("control_ceiling")
    ob = ck._new("control.iters.ceiling_refuted", "control")
    ob.solver = "crosshair-0.0.110/z3"
    if any("false when calling" in m for m in ctl):
        ob.status = "sat (as required)"
    else:
        ob.status = "control not refuted"
        ck.inconclusive.append(ob)


def check_dqn_target(ck):
    envd = TimeLimit(UFEnv(Discrete(2)), 3)
    cb = empty_callback()
    # (interval, num_envs): the interval counts iterations whatever the number of parallel environments
    for I, E_ in (((1, 1), (2, 1), (3, 1), (4, 2)) if not ck.thorough else ((1, 1), (2, 1), (3, 1), (5, 1), (4, 2), (3, 2), (6, 3))):
        algo = DQN(buffer_size=4 * E_, learning_starts=1, num_envs=E_, num_steps=1, batch_size=2, target_update_interval=I)
        pol = MLPQPolicy(envd, width_size=2, depth=1, key=jr.key(0))
        tr, it, S, out = iteration_trace("DQN", algo, envd, pol, cb)
        c0 = S["st_iteration_count"][()]
        c1 = c0 + 1
        tnames = [n for n in tr.out_names if n.startswith("target_policy_") and "space" not in n]
        orc = {}
        for n in tnames:
            online_new = out["policy_" + n[len("target_policy_"):]]
            old = S["st_" + n]
            orc[n] = np.array([it.o.ite(c1 % I == 0, x, y) for x, y in zip(online_new.reshape(-1), old.reshape(-1))], dtype=object).reshape(old.shape)
        A = [c0 >= 0]
        # the newly trained online parameters are opaque values for this obligation: abstract them (sound for unsat, keeps the query linear)
        big = [x for n in tnames for x in out["policy_" + n[len("target_policy_"):]].reshape(-1)]
        goal = conj([eq_arr(out[n], orc[n]) for n in tnames])
        gA, = core.abstract([goal], big) if not isinstance(goal, bool) else (goal,)
        def real_dqn(c, algo=algo, pol=pol, I=I):
            st, out = real_run(algo, envd, pol, cb, c)
            want = out.policy if (c + 1) % I == 0 else st.target_policy
            return (not leaves_equal(out.target_policy, want)), {"count_before": c, "interval": I, "target_equals_new_online": leaves_equal(out.target_policy, out.policy),
                                                                    "target_unchanged": leaves_equal(out.target_policy, st.target_policy)}
        ck.prove(f"dqn.target_step@I={I}" + (f",E={E_}" if E_ > 1 else ""), A, gA, replay=replay_generic(tr, S, it, orc, real=real_dqn), timeout=120)
        if I == 2:
            ck.witness("witness.dqn_no_update_reachable", A + [c1 % I != 0])
            wrong = conj([eq_arr(out[n], np.array([it.o.ite(c0 % I == 0, x, y) for x, y in zip(out["policy_" + n[len("target_policy_"):]].reshape(-1), S["st_" + n].reshape(-1))], dtype=object).reshape(S["st_" + n].shape)) for n in tnames])
            ck.control("control.dqn_updates_on_old_count", A, core.abstract([wrong], big)[0])
        # integer lemma: the recurrence keeps "target = online as of the most recent count that is a multiple of I"
        n_, m_ = z3.Int("n"), z3.Int("m")
        most_recent = lambda m, n: z3.And(m % I == 0, m <= n, m + I > n, m >= 0)
        m2 = z3.If((n_ + 1) % I == 0, n_ + 1, m_)
        res = core.solve.decide([n_ >= 0, most_recent(m_, n_), z3.Not(most_recent(m2, n_ + 1))], timeout_s=30)
        ck.fact(f"dqn.target_lemma@I={I}", res.status == "unsat", "if m is the most recent multiple of I up to n, then ite((n+1)%I==0, n+1, m) is the most recent multiple up to n+1 (solver: " + res.status + ")")
    # reset: target = online, count 0 (a multiple of every interval)
    algo = DQN(buffer_size=4, learning_starts=1, num_envs=1, num_steps=1, batch_size=2, target_update_interval=3)
    pol = MLPQPolicy(envd, width_size=2, depth=1, key=jr.key(0))
    with stubs.prng_stubs():
        trr = trace(lambda env, pol, k: algo.reset(env, pol, key=k, callback=cb), envd, pol, jr.key(0), argnames=["env", "pol", "key"], label="DQN.reset")
    pt = trr.passthrough()
    tn = [n for n in trr.out_names if n.startswith("target_policy_") and "space" not in n]
    ok = all(pt.get(n) == "pol_" + n[len("target_policy_"):] for n in tn)
    itr = Interp()
    outr = trr.run(itr, trr.symbols(itr))
    ck.fact("dqn.reset_target_is_online_count_zero", ok and outr["iteration_count"][()] == 0, f"{len(tn)} target leaves are the input policy leaves; iteration_count = {outr['iteration_count'][()]}")


def check_sac(ck):
    envb = TimeLimit(UFEnv(Box(-jnp.ones(1), jnp.ones(1))), 3)
    cb = empty_callback()
    tau = 0.25
    # (policy_frequency, autotune, num_envs, num_steps): the schedule is in ITERATIONS, whatever the number of environment steps per iteration
    cfgs = ((2, True, 1, 1), (1, True, 1, 1), (2, False, 1, 1), (2, True, 2, 1)) if not ck.thorough else \
        ((2, True, 1, 1), (1, True, 1, 1), (3, True, 1, 1), (2, False, 1, 1), (3, False, 1, 1), (2, True, 2, 1), (2, True, 1, 2), (3, True, 3, 1), (2, False, 2, 2))
    # a fifth entry gives non-default optimiser arguments: "autotuning off" must hold whatever learning rates were passed
    cfgs = cfgs + ((2, False, 1, 1, {"alpha_lr": 0.0625}),) + (((1, False, 2, 1, {"alpha_lr": 0.0625, "q_lr": 0.125, "policy_lr": 0.25}),) if ck.thorough else ())
    for f, autotune, E, NS, *extra in cfgs:
        extra = extra[0] if extra else {}
        algo = SAC(buffer_size=4 * E, learning_starts=1, num_envs=E, num_steps=NS, batch_size=2, q_width_size=2, q_depth=1, tau=tau, policy_frequency=f, autotune=autotune, **extra)
        pol = MLPSACPolicy(envb, feature_size=2, width_size=2, depth=1, key=jr.key(0))
        tr, it, S, out = iteration_trace("SAC", algo, envb, pol, cb)
        cfg = f"f={f},autotune={autotune},E={E},S={NS}" + "".join(f",{k}={v}" for k, v in extra.items())
        if f == 2 and autotune and E == 1:
            ck.encoded(tr)
        c0 = S["st_iteration_count"][()]
        A = [c0 >= 0] + stubs.contracts(it)
        o = it.o
        t_ = Fraction(tau)
        # Polyak: theta' <- tau*theta + (1-tau)*theta' with theta the online critic after this iteration's update, exactly once
        orc = {}
        for n in tr.out_names:
            for q in ("qf1", "qf2"):
                if n.startswith(q + "_target_"):
                    online = out[q + "_" + n[len(q + "_target_"):]]
                    old = S["st_" + n]
                    orc[n] = np.array([o.add(o.mul(t_, x), o.mul(1 - t_, y)) for x, y in zip(online.reshape(-1), old.reshape(-1))], dtype=object).reshape(old.shape)
        def real_polyak(c, algo=algo, pol=pol):
            st, out = real_run(algo, envb, pol, cb, c)
            bad = False
            for q in ("qf1", "qf2"):
                on = [x for x in jax.tree_util.tree_leaves(getattr(out, q)) if eqx.is_inexact_array(x)]
                old = [x for x in jax.tree_util.tree_leaves(getattr(st, q + "_target")) if eqx.is_inexact_array(x)]
                new = [x for x in jax.tree_util.tree_leaves(getattr(out, q + "_target")) if eqx.is_inexact_array(x)]
                bad = bad or not all(np.allclose(np.asarray(n_), tau * np.asarray(o_) + (1 - tau) * np.asarray(t_), rtol=1e-4, atol=1e-6) for n_, o_, t_ in zip(new, on, old))
            return bad, {"count_before": c, "tau": tau, "note": "target critics after the iteration are not tau*online_new + (1-tau)*target_old"}

        def real_gate(c, algo=algo, pol=pol, f=f):
            st, out = real_run(algo, envb, pol, cb, c)
            same_actor = leaves_equal(out.policy, st.policy) and leaves_equal(out.opt_state, st.opt_state)
            same_alpha = leaves_equal(out.log_alpha, st.log_alpha) and leaves_equal(out.alpha_opt_state, st.alpha_opt_state)
            gate_closed = c % f != 0
            return (gate_closed and not (same_actor and same_alpha)), {"count_before": c, "policy_frequency": f, "num_envs": algo.num_envs, "num_steps": algo.num_steps,
                                                                           "actor_unchanged": same_actor, "temperature_unchanged": same_alpha}

        def real_alpha(c, algo=algo, pol=pol):
            st, out = real_run(algo, envb, pol, cb, c)
            same_alpha = leaves_equal(out.log_alpha, st.log_alpha) and leaves_equal(out.alpha_opt_state, st.alpha_opt_state)
            return (not same_alpha), {"count_before": c, "autotune": False, "temperature_unchanged": same_alpha}
        bigq = [x for n in orc for x in out[n.replace("_target", "")].reshape(-1)]
        goal = conj([eq_arr(out[n], v) for n, v in orc.items()])
        ck.prove(f"sac.polyak_once@{cfg}", [c0 >= 0], core.abstract([goal], bigq)[0] if not isinstance(goal, bool) else goal, replay=replay_generic(tr, S, it, orc, real=real_polyak), timeout=120)
        if f == 2 and autotune and E == 1:
            wrong = conj([eq_arr(out[n], np.array([o.add(o.mul(1 - t_, x), o.mul(t_, y)) for x, y in zip(out[n.replace('_target', '')].reshape(-1), S['st_' + n].reshape(-1))], dtype=object).reshape(S['st_' + n].shape)) for n in orc])
            ck.control("control.sac_tau_swapped", [c0 >= 0], core.abstract([wrong], bigq)[0])
        # gating: the actor, its optimiser state, the temperature and its optimiser state change only when count % f == 0
        gate_names = [n for n in tr.out_names if (n.startswith("policy_") or n.startswith("opt_state_") or n.startswith("log_alpha") or n.startswith("alpha_opt_state")) and "space" not in n]
        same = {n: S["st_" + n] for n in gate_names if "st_" + n in S and tuple(S["st_" + n].shape) == tuple(out[n].shape)}
        if f > 1:
            ck.prove(f"sac.actor_and_alpha_gate@{cfg}", A + [c0 % f != 0], conj([eq_arr(out[n], v) for n, v in same.items()]), replay=replay_generic(tr, S, it, same, real=real_gate), timeout=120)
            ck.witness(f"witness.sac_gate_closed@{cfg}", A + [c0 % f != 0])
        if not autotune:
            al = {n: v for n, v in same.items() if n.startswith("log_alpha") or n.startswith("alpha_opt_state")}
            ck.prove(f"sac.no_autotune_alpha_fixed@{cfg}", A, conj([eq_arr(out[n], v) for n, v in al.items()]), replay=replay_generic(tr, S, it, al, real=real_alpha), timeout=120)


def main():
    ck = Check("C10", "training schedule")
    ck.mode = "REAL"
    ck.bound(total_timesteps="<=7 (quick) / <=12 (thorough)", envs="<=2", steps="<=3", target_update_interval=[1, 2, 3] if not ck.thorough else [1, 2, 3, 5], tau=0.25, policy_frequency=[1, 2] if not ck.thorough else [1, 2, 3],
             iteration_count="symbolic integer >= 0", networks="real MLPs of width 2 with symbolic parameters")
    ck.stub(*stubs.STUB_NOTES, "environment uninterpreted", "tanh/exp/log/sqrt/pow uninterpreted")
    ck.out("int32 wrap of the iteration counter", "float rounding of the Polyak average")
    with ck.section("num_iterations"):
        crosshair_num_iterations(ck)
    with ck.section("counter_budget"):
        check_counter_and_budget(ck)
    with ck.section("learn_length"):
        check_learn_length(ck)
    with ck.section("dqn_target"):
        check_dqn_target(ck)
    with ck.section("sac"):
        check_sac(ck)
    ck.finish("num_iterations (pure Python) is decided by CrossHair; learn() is traced for a grid of (total_timesteps, num_envs, num_steps) and its iteration scan "
              "length read from the IR; the real iteration() of all five algorithms is traced with a symbolic iteration counter: counter+1, E*S environment "
              "transitions per iteration, DQN's target network = ite((count+1) mod I == 0, new online, old target) plus the integer lemma that this recurrence "
              "keeps 'online as of the most recent multiple of I', SAC's target critics = tau*online_new + (1-tau)*target exactly once, SAC's actor / temperature "
              "and their optimiser states unchanged when count mod policy_frequency != 0, temperature never changes without autotuning.")


if __name__ == "__main__":
    main()
