"""CrossHair plugin for C14 (passed with --extra_plugin).

CrossHair's own patch of the builtin `hash` carries a contract, which lets the engine *short-circuit* calls to it
(return an unconstrained integer and reconcile later, outside the caller's try/except).  For hash-consistency
conditions that is both imprecise and fragile (a raising `__hash__` aborts the run), so the same patch is registered
here without a contract: `hash(x)` is then always interpreted by running `type(x).__hash__` symbolically."""
import crosshair.core as _core
from crosshair.libimpl.builtinslib import invoke_dunder
from crosshair.tracers import NoTracing
from crosshair.util import is_hashable


def _hash_interpreted(obj):
    # (imports inside: CrossHair executes plugin files in a namespace the function's globals do not share)
    from crosshair.libimpl.builtinslib import invoke_dunder
    from crosshair.tracers import NoTracing
    from crosshair.util import is_hashable
    with NoTracing():
        if not is_hashable(obj):
            return hash(obj)  # raises TypeError in the native way
    return invoke_dunder(obj, "__hash__")


_core._PATCH_REGISTRATIONS[hash] = _hash_interpreted
