"""C16 — masked actions are never chosen; key-less policies act greedily.

LOG mode decides what masks do to probabilities (exactly 0 / renormalised proportionally); XREAL mode (reals with the
IEEE special values) decides which index `mode()` / `sample()` / the policies return under `-inf` masks with the PRNG
samplers replaced by contract stubs; FP32 (bit-precise) repeats the selection obligations for two actions; the
"same distribution" clauses are equalities between the policy's outputs and the real lerax distribution built on the
logits the policy's own last layer produced (networks cut to uninterpreted functions = arbitrary finite features).
"""
from fractions import Fraction

import jax
import jax.numpy as jnp
import numpy as np
import z3
from jax import random as jr

from jaxsmt import concrete, solve, stubs
from jaxsmt.core import Check, conj, disj, eq_arr, implies, neg
from jaxsmt.distharness import (cut_ac_policy, cut_q_policy, cut_sac_policy, judge_replay, no_prng, pick, uf_terms, val)
from jaxsmt.harness import UFEnv
from jaxsmt.interp import Interp
from jaxsmt.logmode import LogInterp
from jaxsmt.ops import F32, isconc
from jaxsmt.trace import trace
from jaxsmt.xreal import XRInterp, XV, div_axioms

from lerax.distribution import Bernoulli, Categorical, MultiCategorical
from lerax.policy import MLPActorCriticPolicy, MLPQPolicy, MLPSACPolicy
from lerax.space import Box, Discrete, MultiBinary, MultiDiscrete

DIMS = (2, 3)
OFFS = (0, 2)
BLOCKS = [(0, 2), (2, 3)]


def set_dims(dims):
    """static configuration of the multi-categorical sections (component sizes)"""
    global DIMS, OFFS, BLOCKS
    DIMS = tuple(dims)
    OFFS = tuple(int(x) for x in np.cumsum((0,) + DIMS[:-1]))
    BLOCKS = list(zip(OFFS, DIMS))


# ===================================================================== traced functions (real lerax code)
def cat_probs_fn(l, m):
    d = Categorical(logits=l).mask(m)
    return {"probs": d.probs, "q": Categorical(logits=l).probs}


def catp_probs_fn(p, m):
    d = Categorical(probs=p).mask(m)
    return {"probs": d.probs, "q": Categorical(probs=p).probs}


def cat_sel_fn(l, m, key):
    with stubs.prng_stubs():
        d = Categorical(logits=l).mask(m)
        return {"mode": d.mode(), "sample": d.sample(key), "sample2": d.sample_and_log_prob(key)[0]}


def bern_probs_fn(l, m):
    return {"probs": Bernoulli(logits=l).mask(m).probs, "q": Bernoulli(logits=l).probs}


def bern_sel_fn(l, m, key):
    with stubs.prng_stubs():
        d = Bernoulli(logits=l).mask(m)
        return {"mode": d.mode(), "sample": d.sample(key), "umode": Bernoulli(logits=l).mode()}


def mc_probs_fn(l, m):
    return {"probs": MultiCategorical(l, action_dims=DIMS).mask(m).probs, "q": MultiCategorical(l, action_dims=DIMS).probs}


def mc_sel_fn(l, m, key):
    with stubs.prng_stubs():
        d = MultiCategorical(l, action_dims=DIMS).mask(m)
        return {"mode": d.mode(), "sample": d.sample(key), "sample2": d.sample_and_log_prob(key)[0]}


def mc_seq_fn(l, m, key):
    """the same law with logits and mask given as sequences"""
    with stubs.prng_stubs():
        d = MultiCategorical([l[o:o + n] for o, n in BLOCKS]).mask([m[o:o + n] for o, n in BLOCKS])
        return {"mode": d.mode(), "sample": d.sample(key), "probs": d.probs}


# ===================================================================== helpers
def allowed_idx(a, m):
    """index a (int term) is in range and m[a] holds"""
    return disj([conj([a == i if not isconc(a) else a == i, m[i]]) for i in range(len(m))])


def greedy_idx(a, m, l, o):
    """no allowed action has a strictly larger logit than the chosen one"""
    la = pick(a, list(l), o)
    return conj([implies(m[j], o.ge(la, l[j])) for j in range(len(m))])


def xeq(o, a, b):
    """equality of two XREAL elements (NaN matches NaN)"""
    if isinstance(a, XV) or isinstance(b, XV) or isinstance(a, float) or isinstance(b, float):
        A, B = o.toX(a), o.toX(b)
        parts = []
        for f, g in ((A.nan, B.nan), (A.pinf, B.pinf), (A.ninf, B.ninf)):
            if isconc(f) and isconc(g):
                if bool(f) != bool(g):
                    return False
            elif isconc(f) or isconc(g):
                c, s = (f, g) if isconc(f) else (g, f)
                parts.append(s if c else z3.Not(s))
            elif not f.eq(g):
                parts.append(f == g)
        fin = o.fin(A)
        from jaxsmt.core import eq_elem
        parts.append(implies(fin, eq_elem(A.r, B.r)))
        return conj(parts)
    from jaxsmt.core import eq_elem
    return eq_elem(a, b)


def xeq_arr(o, a, b):
    a, b = np.broadcast_arrays(np.asarray(a, dtype=object), np.asarray(b, dtype=object))
    return conj([xeq(o, x, y) for x, y in zip(a.reshape(-1), b.reshape(-1))])


def mask_gen(name, av, rng):
    """validation inputs: masks with at least one allowed entry per block, tame logits"""
    if "key" not in str(av.dtype) and np.dtype(av.dtype) == np.bool_ and av.shape:
        m = rng.random(av.shape) < 0.5
        m.reshape(-1)[0] = True
        if av.shape == (sum(DIMS),):
            for off in OFFS:
                m[off] = True
        return jnp.asarray(m)
    return None


def jidx(outs, ins, key, mname="m", blocks=None):
    """numeric judge: the returned index/indices are allowed under the mask"""
    a = np.asarray(outs[key]).astype(int).reshape(-1)
    m = np.asarray(ins[mname]).astype(bool).reshape(-1)
    blocks = blocks or [(0, len(m))]
    bad = False
    for c, (off, n) in enumerate(blocks):
        if not (0 <= a[c] < n and m[off + a[c]]):
            bad = True
    return bad, {"returned": a.tolist(), "mask": m.tolist()}


# ===================================================================== distributions
def sec_categorical(ck, K, quick_extra):
    # ---------- LOG: probabilities under the mask
    tr = trace(cat_probs_fn, jnp.zeros(K), jnp.ones(K, bool), argnames=["l", "m"], label="Categorical(logits).mask(m).probs")
    if quick_extra:
        ck.encoded(tr)
        concrete.validate(ck, tr, n=2, seed=ck.seed, gen=mask_gen)
    it = LogInterp()
    l, Ps = it.logsym("P", (K,))
    S = tr.symbols(it, given={"l": l})
    out = tr.run(it, S)
    m = list(S["m"])
    p = [it.o.lower(x) for x in out["probs"]]
    q = [it.o.lower(x) for x in out["q"]]
    asm = [P > 0 for P in Ps] + [disj(m)]
    qa = sum(z3.If(m[j], q[j], 0) for j in range(K))
    side = conj(it.side_conds())
    ov = {"l": lambda res: np.log([max(val(res, P), 1e-30) for P in Ps])}

    def judge(outs, ins):
        pr, qr, mm = outs["probs"], outs["q"], ins["m"].astype(bool)
        z = bool(np.any(np.abs(pr[~mm]) > 1e-6))
        ren = bool(np.any(np.abs(pr[mm] * qr[mm].sum() - qr[mm]) > 1e-4))
        return z or ren or abs(pr.sum() - 1) > 1e-4, {"masked_probability_nonzero": z, "not_proportional": ren}
    rp = judge_replay(tr, S, it.uf_apps, judge, ov)
    ck.prove(f"categorical.mask.prob_zero@K={K}", asm, conj([side] + [implies(neg(m[i]), p[i] == 0) for i in range(K)]), replay=rp, nonlinear=True)
    ck.prove(f"categorical.mask.renormalised@K={K}", asm, conj([side, sum(p) == 1] + [implies(m[i], p[i] * qa == q[i]) for i in range(K)]), replay=rp, nonlinear=True)
    if quick_extra:
        ck.witness("witness.categorical.partial_mask", asm + [m[0], z3.Not(m[1])], nonlinear=True)
        ck.control("control.categorical.mask_has_no_effect", asm, conj([p[i] == q[i] for i in range(K)]), nonlinear=True)
        # probs parameterisation
        trp = trace(catp_probs_fn, jnp.ones(K) / K, jnp.ones(K, bool), argnames=["p", "m"], label="Categorical(probs).mask(m).probs")
        ck.encoded(trp)
        itp = LogInterp()
        Sp = trp.symbols(itp)
        outp = trp.run(itp, Sp)
        mp, pin = list(Sp["m"]), list(Sp["p"])
        pp = [itp.o.lower(x) for x in outp["probs"]]
        qp = [itp.o.lower(x) for x in outp["q"]]
        qpa = sum(z3.If(mp[j], qp[j], 0) for j in range(K))
        asmp = [x > 0 for x in pin] + [disj(mp)]

        def judgep(outs, ins):
            pr, qr, mm = outs["probs"], outs["q"], ins["m"].astype(bool)
            return bool(np.any(np.abs(pr[~mm]) > 1e-6) or np.any(np.abs(pr[mm] * qr[mm].sum() - qr[mm]) > 1e-4)), {}
        ck.prove(f"categorical.mask.prob_zero_and_renormalised@probs,K={K}", asmp,
                 conj([conj(itp.side_conds()), sum(pp) == 1] + [implies(neg(mp[i]), pp[i] == 0) for i in range(K)] + [implies(mp[i], pp[i] * qpa == qp[i]) for i in range(K)]),
                 replay=judge_replay(trp, Sp, itp.uf_apps, judgep), nonlinear=True)

    # ---------- XREAL: which index is returned
    trs = trace(cat_sel_fn, jnp.zeros(K), jnp.ones(K, bool), jr.key(0), argnames=["l", "m", "key"], label="Categorical(logits).mask(m).mode/sample")
    if quick_extra:
        ck.encoded(trs)
        concrete.validate(ck, trs, n=2, seed=ck.seed, gen=mask_gen)
    ix = XRInterp()
    Sx = trs.symbols(ix)
    ox = trs.run(ix, Sx)
    lx, mx = list(Sx["l"]), list(Sx["m"])
    asx = [disj(mx)] + stubs.contracts(ix)
    ck.prove(f"categorical.mask.mode_allowed@K={K}", asx, conj([allowed_idx(ox["mode"][()], mx), greedy_idx(ox["mode"][()], mx, lx, ix.o)]),
             replay=judge_replay(trs, Sx, ix.uf_apps, lambda o_, i_: jidx(o_, i_, "mode")))
    ck.prove(f"categorical.mask.sample_allowed@K={K}", asx, conj([allowed_idx(ox["sample"][()], mx), allowed_idx(ox["sample2"][()], mx)]),
             replay=judge_replay(trs, Sx, ix.uf_apps, lambda o_, i_: (jidx(o_, i_, "sample")[0] or jidx(o_, i_, "sample2")[0], jidx(o_, i_, "sample")[1])))
    if K <= 3:
        # the same two obligations with float32 underflow of exp modelled (exp(x) = 0 for x <= -105): logit gaps above ~100 are legitimate inputs
        iu = XRInterp(exp_underflow=True)
        Su = trs.symbols(iu)
        ou = trs.run(iu, Su)
        lu, mu = list(Su["l"]), list(Su["m"])
        asu = [disj(mu)] + stubs.contracts(iu)
        ck.prove(f"categorical.mask.mode_allowed@K={K},exp-underflow", asu, allowed_idx(ou["mode"][()], mu),
                 replay=judge_replay(trs, Su, iu.uf_apps, lambda o_, i_: jidx(o_, i_, "mode")))
        ck.prove(f"categorical.mask.sample_allowed@K={K},exp-underflow", asu, conj([allowed_idx(ou["sample"][()], mu), allowed_idx(ou["sample2"][()], mu)]),
                 replay=judge_replay(trs, Su, iu.uf_apps, lambda o_, i_: (jidx(o_, i_, "sample")[0] or jidx(o_, i_, "sample2")[0], jidx(o_, i_, "sample")[1])))
    if quick_extra:
        um = 0
        for j in range(1, K):   # argmax of the unmasked logits
            um = ix.o.ite(conj([lx[j] > lx[i] for i in range(j)] + [lx[j] >= lx[i] for i in range(j + 1, K)]), j, um)
        ck.control("control.categorical.mode_ignores_mask", asx, ox["mode"][()] == um)
        ck.control("control.categorical.sample_is_mode", asx, ox["sample"][()] == ox["mode"][()])
    return trs


def fp_axioms():
    fv = lambda x: z3.FPVal(x, F32)
    ninf = z3.fpMinusInfinity(F32)

    def ax_exp(t, a):
        x = a[0]
        return [z3.Implies(z3.fpIsNaN(x), z3.fpIsNaN(t)), z3.Implies(z3.Not(z3.fpIsNaN(x)), z3.And(z3.Not(z3.fpIsNaN(t)), z3.fpGEQ(t, fv(0.0)))),
                z3.Implies(z3.fpEQ(x, ninf), z3.fpEQ(t, fv(0.0))), z3.Implies(z3.fpEQ(x, fv(0.0)), z3.fpEQ(t, fv(1.0))), z3.Implies(z3.fpLEQ(x, fv(0.0)), z3.fpLEQ(t, fv(1.0)))]

    def ax_log(t, a):
        x = a[0]
        return [z3.Implies(z3.And(z3.fpGEQ(x, fv(1.0)), z3.fpLEQ(x, fv(1e6))), z3.And(z3.fpGEQ(t, fv(0.0)), z3.fpLEQ(t, fv(100.0))))]
    return {"exp_f32": ax_exp, "log_f32": ax_log}


def sec_categorical_fp32(ck, trs, K, sample=True):
    """bit-precise float32 repetition of the selection obligations (finite logits |l| <= 1e30)"""
    it = Interp(mode="fp32")
    S = trs.symbols(it)
    out = trs.run(it, S)
    l, m = list(S["l"]), list(S["m"])
    fv = lambda x: z3.FPVal(x, F32)
    asm = [z3.And(z3.fpLEQ(x, fv(1e30)), z3.fpGEQ(x, fv(-1e30))) for x in l] + [disj(m)] + stubs.contracts(it)
    ck.witness(f"witness.assumptions.fp32,K={K}", asm + [z3.Not(m[0])])
    ck.prove(f"categorical.mask.mode_allowed@fp32,K={K}", asm, allowed_idx(out["mode"][()], m), ackermann=True, extra_axioms=fp_axioms(), timeout=300,
             replay=judge_replay(trs, S, it.uf_apps, lambda o_, i_: jidx(o_, i_, "mode")))
    if sample:
        ck.prove(f"categorical.mask.sample_allowed@fp32,K={K}", asm, allowed_idx(out["sample"][()], m), ackermann=True, extra_axioms=fp_axioms(), timeout=300,
                 replay=judge_replay(trs, S, it.uf_apps, lambda o_, i_: jidx(o_, i_, "sample")))


def sec_bernoulli(ck, n=3):
    tr = trace(bern_probs_fn, jnp.zeros(n), jnp.ones(n, bool), argnames=["l", "m"], label="Bernoulli(logits).mask(m).probs")
    ck.encoded(tr)
    concrete.validate(ck, tr, n=2, seed=ck.seed)
    it = LogInterp()
    l, Ps = it.logsym("E", (n,))
    S = tr.symbols(it, given={"l": l})
    out = tr.run(it, S)
    m = list(S["m"])
    p = [it.o.lower(x) for x in out["probs"]]
    q = [it.o.lower(x) for x in out["q"]]
    asm = [P > 0 for P in Ps]
    side = conj(it.side_conds())
    ov = {"l": lambda res: np.log([max(val(res, P), 1e-30) for P in Ps])}

    def judge(outs, ins):
        pr, qr, mm = outs["probs"], outs["q"], ins["m"].astype(bool)
        return bool(np.any(np.abs(pr[~mm]) > 1e-6) or np.any(np.abs(pr[mm] - qr[mm]) > 1e-4)), {}
    rp = judge_replay(tr, S, it.uf_apps, judge, ov)
    ck.prove(f"bernoulli.mask.prob_zero@n={n}", asm, conj([side] + [implies(neg(m[i]), p[i] == 0) for i in range(n)]), replay=rp, nonlinear=True)
    ck.prove(f"bernoulli.mask.renormalised@n={n}", asm, conj([side] + [implies(m[i], p[i] == q[i]) for i in range(n)]), replay=rp, nonlinear=True)
    ck.control("control.bernoulli.mask_has_no_effect", asm, conj([p[i] == q[i] for i in range(n)]), nonlinear=True)

    trs = trace(bern_sel_fn, jnp.zeros(n), jnp.ones(n, bool), jr.key(0), argnames=["l", "m", "key"], label="Bernoulli(logits).mask(m).mode/sample")
    ck.encoded(trs)
    concrete.validate(ck, trs, n=2, seed=ck.seed)
    ix = XRInterp()
    Sx = trs.symbols(ix)
    ox = trs.run(ix, Sx)
    mx = list(Sx["m"])
    asx = stubs.contracts(ix)

    def jb(key):
        def j(outs, ins):
            a, mm = outs[key].astype(int), ins["m"].astype(bool)
            return bool(np.any((a != 0) & ~mm)), {"returned": a.tolist(), "mask": mm.tolist()}
        return j
    ck.prove(f"bernoulli.mask.mode_allowed@n={n}", asx, conj([implies(neg(mx[i]), ox["mode"][i] == 0) for i in range(n)] + [implies(mx[i], ox["mode"][i] == ox["umode"][i]) for i in range(n)]),
             replay=judge_replay(trs, Sx, ix.uf_apps, jb("mode")))
    # the mode is the more likely outcome of every bit: 1 when the log-odds are positive, 0 when they are negative (a tie at 0 may go either way)
    lx = list(Sx["l"])

    def jm(outs, ins):
        a, ll, mm = outs["mode"].astype(int), np.asarray(ins["l"], float), ins["m"].astype(bool)
        bad = [i for i in range(len(ll)) if mm[i] and ((ll[i] > 1e-6 and a[i] != 1) or (ll[i] < -1e-6 and a[i] != 0))]
        return bool(bad), {"mode": a.tolist(), "logits": ll.tolist(), "mask": mm.tolist(), "bits_that_are_not_the_more_likely_outcome": bad}
    gm = conj([implies(mx[i], conj([implies(lx[i] > 0, ox["mode"][i] == 1), implies(lx[i] < 0, ox["mode"][i] == 0)])) for i in range(n)])
    ck.prove(f"bernoulli.mode_is_the_more_likely_outcome@n={n}", asx, gm, replay=judge_replay(trs, Sx, ix.uf_apps, jm),
             margin_goal=implies(conj([z3.Or(x >= Fraction(1, 4), x <= -Fraction(1, 4)) for x in lx]), gm))
    ck.prove(f"bernoulli.mask.sample_allowed@n={n}", asx, conj([implies(neg(mx[i]), ox["sample"][i] == 0) for i in range(n)]),
             replay=judge_replay(trs, Sx, ix.uf_apps, jb("sample")))
    ck.control("control.bernoulli.sample_never_one", asx, conj([ox["sample"][i] == 0 for i in range(n)]))


def mc_asm(m):
    return [disj([m[off + j] for j in range(n)]) for off, n in zip(OFFS, DIMS)]


def mc_allowed(a, m):
    return conj([disj([conj([a[c] == j, m[off + j]]) for j in range(n)]) for c, (off, n) in enumerate(zip(OFFS, DIMS))])


def mc_greedy(a, m, l, o):
    gs = []
    for c, (off, n) in enumerate(zip(OFFS, DIMS)):
        la = pick(a[c], [l[off + j] for j in range(n)], o)
        gs += [implies(m[off + j], o.ge(la, l[off + j])) for j in range(n)]
    return conj(gs)


def jit_probe(fn, *args):
    """does the real function run under jax.jit?  (every lerax training loop calls policies/distributions inside jit/scan)"""
    try:
        jax.clear_caches()
        jax.block_until_ready(jax.jit(fn)(*args))
        return True, "runs under jax.jit"
    except Exception as ex:  # noqa: BLE001
        return False, f"{type(ex).__name__}: {str(ex)[:300]}"
    finally:
        jax.clear_caches()


def sec_multicat(ck, dims=(2, 3)):
    set_dims(dims)
    try:
        _sec_multicat(ck, "(" + ",".join(map(str, dims)) + ")")
    finally:
        set_dims((2, 3))


def _sec_multicat(ck, dt):
    N = sum(DIMS)
    ok, why = jit_probe(lambda l, m: MultiCategorical(l, action_dims=DIMS).mask(m).probs, jnp.zeros(N), jnp.ones(N, bool))
    if not ck.fact(f"multicat.mask.usable_under_jit@dims={dt}", ok, "MultiCategorical(flat logits, action_dims).mask(mask) inside jax.jit: " + why):
        ck.skip("multicat.mask.*", "the masked multi-categorical law cannot be traced (see multicat.mask.usable_under_jit)")
        return
    tr = trace(mc_probs_fn, jnp.zeros(N), jnp.ones(N, bool), argnames=["l", "m"], label="MultiCategorical(flat logits, dims).mask(m).probs")
    ck.encoded(tr)
    concrete.validate(ck, tr, n=2, seed=ck.seed, gen=mask_gen)
    it = LogInterp()
    l, Ps = it.logsym("P", (N,))
    S = tr.symbols(it, given={"l": l})
    out = tr.run(it, S)
    m = list(S["m"])
    p = [it.o.lower(x) for x in out["probs"]]
    q = [it.o.lower(x) for x in out["q"]]
    asm = [P > 0 for P in Ps] + mc_asm(m)
    side = conj(it.side_conds())
    ov = {"l": lambda res: np.log([max(val(res, P), 1e-30) for P in Ps])}

    def judge(outs, ins):
        pr, qr, mm = outs["probs"], outs["q"], ins["m"].astype(bool)
        bad = bool(np.any(np.abs(pr[~mm]) > 1e-6))
        for off, n in BLOCKS:
            sl = slice(off, off + n)
            bad = bad or bool(np.any(np.abs((pr[sl] * qr[sl][mm[sl]].sum() - qr[sl])[mm[sl]]) > 1e-4))
        return bad, {}
    rp = judge_replay(tr, S, it.uf_apps, judge, ov)
    ren = []
    for off, n in BLOCKS:
        qa = sum(z3.If(m[off + j], q[off + j], 0) for j in range(n))
        ren += [sum(p[off + j] for j in range(n)) == 1] + [implies(m[off + j], p[off + j] * qa == q[off + j]) for j in range(n)]
    ck.prove(f"multicat.mask.prob_zero@dims={dt}", asm, conj([side] + [implies(neg(m[i]), p[i] == 0) for i in range(N)]), replay=rp, nonlinear=True)
    ck.prove(f"multicat.mask.renormalised@dims={dt}", asm, conj([side] + ren), replay=rp, nonlinear=True)
    ck.control(f"control.multicat.renormalised_over_all_components@{dt}", asm, conj([implies(m[i], p[i] * sum(z3.If(m[j], q[j], 0) for j in range(N)) == q[i]) for i in range(N)]), nonlinear=True)

    trs = trace(mc_sel_fn, jnp.zeros(N), jnp.ones(N, bool), jr.key(0), argnames=["l", "m", "key"], label="MultiCategorical(flat logits, dims).mask(m).mode/sample")
    ck.encoded(trs)
    concrete.validate(ck, trs, n=2, seed=ck.seed, gen=mask_gen)
    ix = XRInterp()
    Sx = trs.symbols(ix)
    ox = trs.run(ix, Sx)
    lx, mx = list(Sx["l"]), list(Sx["m"])
    asx = mc_asm(mx) + stubs.contracts(ix)
    ck.prove(f"multicat.mask.mode_allowed@dims={dt}", asx, conj([mc_allowed(ox["mode"], mx), mc_greedy(ox["mode"], mx, lx, ix.o)]),
             replay=judge_replay(trs, Sx, ix.uf_apps, lambda o_, i_: jidx(o_, i_, "mode", blocks=BLOCKS)))
    ck.prove(f"multicat.mask.sample_allowed@dims={dt}", asx, conj([mc_allowed(ox["sample"], mx), mc_allowed(ox["sample2"], mx)]),
             replay=judge_replay(trs, Sx, ix.uf_apps, lambda o_, i_: (jidx(o_, i_, "sample", blocks=BLOCKS)[0] or jidx(o_, i_, "sample2", blocks=BLOCKS)[0], jidx(o_, i_, "sample", blocks=BLOCKS)[1])))
    # sequence form of logits and mask
    trq = trace(mc_seq_fn, jnp.zeros(N), jnp.ones(N, bool), jr.key(0), argnames=["l", "m", "key"], label="MultiCategorical(sequence logits).mask(sequence mask)")
    ck.encoded(trq)
    iq = XRInterp()
    Sq = trq.symbols(iq)
    oq = trq.run(iq, Sq)
    lq, mq = list(Sq["l"]), list(Sq["m"])
    ck.prove(f"multicat.mask.mode_allowed@sequence,dims={dt}", mc_asm(mq) + stubs.contracts(iq), conj([mc_allowed(oq["mode"], mq), mc_greedy(oq["mode"], mq, lq, iq.o), mc_allowed(oq["sample"], mq)]),
             replay=judge_replay(trq, Sq, iq.uf_apps, lambda o_, i_: (jidx(o_, i_, "mode", blocks=BLOCKS)[0] or jidx(o_, i_, "sample", blocks=BLOCKS)[0], jidx(o_, i_, "mode", blocks=BLOCKS)[1])))


# ===================================================================== actor-critic policies
class SpaceCase:
    def __init__(self, name, space, nlog, amask, act_example):
        self.name, self.space, self.nlog, self.act = name, space, nlog, act_example
        self.mask_shape = amask


def space_cases(K):
    return [SpaceCase(f"discrete{K}", Discrete(K), K, (K,), jnp.array(0)),
            SpaceCase("multidiscrete(2,3)", MultiDiscrete(DIMS), 5, (5,), jnp.zeros(2, int)),
            SpaceCase("multibinary3", MultiBinary(3), 3, (3,), jnp.zeros(3, jnp.int8))]


def make_ac(space, nlog, cut=True, action_depth=2):
    env = UFEnv(space)
    pol = MLPActorCriticPolicy(env, feature_size=2, feature_width=2, feature_depth=1, value_width=2, value_depth=1, action_width=2, action_depth=action_depth, key=jr.key(0))
    return cut_ac_policy(pol, nlog) if cut else pol


def ac_nokey(pol, obs, m):
    with stubs.prng_stubs():
        return {"a": pol(None, obs, action_mask=m)[1]}


def ac_key(pol, obs, m, key):
    with stubs.prng_stubs():
        return {"a": pol(None, obs, key=key, action_mask=m)[1]}


def ac_aav(pol, obs, m, key):
    with stubs.prng_stubs():
        _, a, v, lp = pol.action_and_value(None, obs, key=key, action_mask=m)
        return {"a": a, "v": v, "lp": lp}


def ac_eval(pol, obs, a, m):
    _, v, lp, ent = pol.evaluate_action(None, obs, a, action_mask=m)
    return {"v": v, "lp": lp, "ent": ent}


def ac_nomask(pol, obs, key):
    with stubs.prng_stubs():
        return {"a0": pol(None, obs)[1], "a1": pol(None, obs, key=key)[1]}


def make_dist(kind, L, m):
    if kind.startswith("discrete"):
        d = Categorical(logits=L)
    elif kind.startswith("multidiscrete"):
        d = MultiCategorical(L, action_dims=DIMS)
    else:
        d = Bernoulli(logits=L)
    return d.mask(m) if m is not None else d


def dist_ref(kind):
    """the real lerax distribution on given parameters: reference for `same distribution` clauses"""
    def f(L, m, key, a):
        with stubs.prng_stubs():
            d = make_dist(kind, L, m)
            s, slp = d.sample_and_log_prob(key)
            return {"mode": d.mode(), "sample": d.sample(key), "lp_of_a": jnp.sum(d.log_prob(a)), "ent": d.entropy(), "slp_sample": s, "slp_lp": jnp.sum(slp)}
    return f


def case_allowed(case, a, m, L, o, greedy=False):
    if case.name.startswith("discrete"):
        g = [allowed_idx(a[()], m)]
        if greedy:
            g.append(greedy_idx(a[()], m, L, o))
        return conj(g)
    if case.name.startswith("multidiscrete"):
        g = [mc_allowed(a, m)]
        if greedy:
            g.append(mc_greedy(a, m, L, o))
        return conj(g)
    g = [implies(neg(m[i]), o.eq(a[i], 0) if not isinstance(a[i], bool) else (not a[i])) for i in range(len(m))]
    if greedy:
        # multi-binary: every allowed bit of the key-less action is its more likely outcome (log-odds L[i] > 0 -> 1, < 0 -> 0)
        g += [implies(m[i], conj([implies(L[i] > 0, o.eq(a[i], 1)), implies(L[i] < 0, o.eq(a[i], 0))])) for i in range(len(m))]
    return conj(g)


def case_asm(case, m):
    if case.name.startswith("discrete"):
        return [disj(m)]
    if case.name.startswith("multidiscrete"):
        return mc_asm(m)
    return []


def case_judge(case, key="a"):
    def j(outs, ins):
        mname = [k for k in ins if k == "m"][0]
        if case.name.startswith("discrete"):
            return jidx(outs, ins, key, mname)
        if case.name.startswith("multidiscrete"):
            return jidx(outs, ins, key, mname, blocks=BLOCKS)
        a, mm = np.asarray(outs[key]).astype(int).reshape(-1), np.asarray(ins[mname]).astype(bool).reshape(-1)
        return bool(np.any((a != 0) & ~mm)), {"returned": a.tolist(), "mask": mm.tolist()}
    return j


def sec_ac(ck, case, action_depth=2):
    try:
        pol = make_ac(case.space, case.nlog, action_depth=action_depth)
        ok, why = True, "constructed"
    except Exception as ex:  # noqa: BLE001
        ok, why = False, f"MLPActorCriticPolicy over {case.name} cannot be constructed: {type(ex).__name__}: {str(ex)[:300]}"
    dtag = "" if action_depth == 2 else f",action_depth={action_depth}"
    if not ck.fact(f"ac.{case.name}{dtag}.constructs", ok, why):
        ck.skip(f"ac.{case.name}{dtag}.*", "no policy object to check (see the .constructs obligation)")
        return
    if case.name.startswith("multidiscrete"):
        real = make_ac(case.space, case.nlog, cut=False, action_depth=action_depth)
        okj, whyj = jit_probe(lambda o_, m_: real(None, o_, action_mask=m_)[1], jnp.zeros(2), jnp.ones(case.mask_shape, bool))
        if not ck.fact(f"ac.{case.name}{dtag}.usable_under_jit", okj, "policy(None, obs, action_mask=mask) inside jax.jit: " + whyj):
            ck.skip(f"ac.{case.name}{dtag}.*", "the policy call cannot be traced")
            return
    obs = jnp.zeros(2)
    m0 = jnp.ones(case.mask_shape, bool)
    nm = case.name if action_depth == 2 else f"{case.name},action_depth={action_depth}"      # every policy configuration: the action head with and without its MLP
    ref = dist_ref(nm)
    trr = trace(ref, jnp.zeros(case.nlog), m0, jr.key(0), case.act, argnames=["L", "m", "key", "a"], label=f"lerax distribution for {nm} on given logits")

    # ---- key=None
    tr0 = trace(ac_nokey, pol, obs, m0, argnames=["pol", "obs", "m"], label=f"MLPActorCriticPolicy[{nm}].__call__(key=None, action_mask)")
    ck.encoded(tr0)
    concrete.validate(ck, tr0, n=2, seed=ck.seed, gen=mask_gen)
    ok, why = no_prng(tr0)
    ck.fact(f"ac.{nm}.no_key_is_mode.no_prng", ok, why)
    it = XRInterp()
    S = tr0.symbols(it)
    out = tr0.run(it, S)
    m = list(S["m"])
    L = uf_terms(it, "ALIN")
    assert len(L) == case.nlog, f"harness: expected one application of the parameter layer, found {len(L)} result terms"
    asm = case_asm(case, m)
    ck.prove(f"ac.{nm}.mask.action_allowed@nokey", asm, case_allowed(case, out["a"], m, L, it.o, greedy=True), replay=judge_replay(tr0, S, it.uf_apps, case_judge(case)))
    rr = trr.run(it, trr.symbols(it, given={"L": np.array(L, dtype=object), "m": S["m"]}))

    def rp_same(tr, S_, it_, okey, rkey, masked=True):
        # replay: the real policy vs the real distribution on the logits the policy's layer produced (both in the model's world)
        def rp(res):
            from jaxsmt.distharness import replay_real
            outs, ins = replay_real(tr, S_, res, it_.uf_apps)
            Lv = np.array([val(res, t) for t in uf_terms(it_, "ALIN")], dtype=np.float32)
            keys = concrete.KeyBinding(res)
            kk = concrete.model_leaf(res, S_["key"], [av for n, av in zip(tr.in_names, tr.in_avals) if n == "key"][0], keys) if "key" in S_ else jr.key(0)
            av = ins.get("a", outs.get("a"))
            a_in = case.act if av is None else jnp.asarray(np.asarray(av), dtype=case.act.dtype).reshape(case.act.shape)
            w = concrete.ModelWorld(res, list(it_.uf_apps), keys)
            from jaxsmt.uf import world
            jax.clear_caches()
            with world(w):
                refo = dist_ref(nm)(jnp.asarray(Lv), jnp.asarray(ins["m"].astype(bool)) if masked else None, kk, a_in)
            jax.clear_caches()
            got = np.asarray(outs[okey], dtype=np.float64)
            wants = [np.asarray(refo[k], dtype=np.float64) for k in ((rkey,) if isinstance(rkey, str) else rkey)]      # alternatives: either sampling method of the distribution
            want = wants[0]
            bad = all(not np.allclose(got, w_.reshape(got.shape), rtol=1e-3, atol=1e-3, equal_nan=True) for w_ in wants)
            return bad, {"policy": got.tolist(), "distribution_on_same_logits": want.tolist(), "logits": Lv.tolist(), "mask": ins["m"].tolist() if masked else None}
        return rp
    ck.prove(f"ac.{nm}.no_key_is_mode", asm, xeq_arr(it.o, out["a"], rr["mode"]), replay=rp_same(tr0, S, it, "a", "mode"))

    # ---- with a key
    tr1 = trace(ac_key, pol, obs, m0, jr.key(0), argnames=["pol", "obs", "m", "key"], label=f"MLPActorCriticPolicy[{nm}].__call__(key, action_mask)")
    ck.encoded(tr1)
    it1 = XRInterp()
    S1 = tr1.symbols(it1)
    o1 = tr1.run(it1, S1)
    m1 = list(S1["m"])
    L1 = uf_terms(it1, "ALIN")
    as1 = case_asm(case, m1) + stubs.contracts(it1)
    ck.prove(f"ac.{nm}.mask.action_allowed@key", as1, case_allowed(case, o1["a"], m1, L1, it1.o), replay=judge_replay(tr1, S1, it1.uf_apps, case_judge(case)))
    r1 = trr.run(it1, trr.symbols(it1, given={"L": np.array(L1, dtype=object), "m": S1["m"], "key": S1["key"]}))
    # `a sample of the masked law for this key`: the law offers two sampling methods (sample, sample_and_log_prob) and which one a policy method uses is its choice
    SMP = ("sample", "slp_sample")
    ck.prove(f"ac.{nm}.key_samples_masked_distribution", as1, disj([xeq_arr(it1.o, o1["a"], r1[k]) for k in SMP]), replay=rp_same(tr1, S1, it1, "a", SMP))
    ck.control(f"control.ac.{nm}.key_action_is_mode", as1, xeq_arr(it1.o, o1["a"], r1["mode"]))

    # ---- action_and_value
    tr2 = trace(ac_aav, pol, obs, m0, jr.key(0), argnames=["pol", "obs", "m", "key"], label=f"MLPActorCriticPolicy[{nm}].action_and_value(key, action_mask)")
    ck.encoded(tr2)
    concrete.validate(ck, tr2, n=2, seed=ck.seed, gen=mask_gen)
    it2 = XRInterp()
    S2 = tr2.symbols(it2)
    o2 = tr2.run(it2, S2)
    m2 = list(S2["m"])
    L2 = uf_terms(it2, "ALIN")
    as2 = case_asm(case, m2) + stubs.contracts(it2)
    ck.prove(f"ac.{nm}.mask.action_allowed@action_and_value", as2, case_allowed(case, o2["a"], m2, L2, it2.o), replay=judge_replay(tr2, S2, it2.uf_apps, case_judge(case)))
    r2 = trr.run(it2, trr.symbols(it2, given={"L": np.array(L2, dtype=object), "m": S2["m"], "key": S2["key"], "a": o2["a"]}))
    ck.prove(f"ac.{nm}.sample_logprob_same_dist", as2, conj([disj([xeq_arr(it2.o, o2["a"], r2[k]) for k in SMP]), xeq_arr(it2.o, o2["lp"], r2["lp_of_a"])]),
             replay=lambda res: _both(rp_same(tr2, S2, it2, "a", SMP)(res), rp_same(tr2, S2, it2, "lp", "lp_of_a")(res)))

    # ---- evaluate_action under the same mask
    tr3 = trace(ac_eval, pol, obs, case.act, m0, argnames=["pol", "obs", "a", "m"], label=f"MLPActorCriticPolicy[{nm}].evaluate_action(action, action_mask)")
    ck.encoded(tr3)
    it3 = XRInterp()
    S3 = tr3.symbols(it3)
    o3 = tr3.run(it3, S3)
    m3 = list(S3["m"])
    L3 = uf_terms(it3, "ALIN")
    r3 = trr.run(it3, trr.symbols(it3, given={"L": np.array(L3, dtype=object), "m": S3["m"], "a": S3["a"]}))
    ck.prove(f"ac.{nm}.evaluate_logprob_same_dist", case_asm(case, m3), conj([xeq_arr(it3.o, o3["lp"], r3["lp_of_a"]), xeq_arr(it3.o, o3["ent"], r3["ent"])]),
             replay=lambda res: _both(rp_same(tr3, S3, it3, "lp", "lp_of_a")(res), rp_same(tr3, S3, it3, "ent", "ent")(res)))
    # ---- no mask at all: key-less = mode of the unmasked law, keyed = its sample
    tr4 = trace(ac_nomask, pol, obs, jr.key(0), argnames=["pol", "obs", "key"], label=f"MLPActorCriticPolicy[{nm}].__call__ without a mask")
    it4 = XRInterp()
    S4 = tr4.symbols(it4)
    o4 = tr4.run(it4, S4)
    L4 = uf_terms(it4, "ALIN")[:case.nlog]
    ref0 = lambda L_, key: dist_ref(nm)(L_, None, key, case.act)
    trr0 = trace(ref0, jnp.zeros(case.nlog), jr.key(0), argnames=["L", "key"])
    r4 = trr0.run(it4, trr0.symbols(it4, given={"L": np.array(L4, dtype=object), "key": S4["key"]}))
    ck.prove(f"ac.{nm}.no_key_is_mode@nomask", stubs.contracts(it4), conj([xeq_arr(it4.o, o4["a0"], r4["mode"]), disj([xeq_arr(it4.o, o4["a1"], r4[k]) for k in SMP])]),
             replay=lambda res: _both(rp_same(tr4, S4, it4, "a0", "mode", masked=False)(res), rp_same(tr4, S4, it4, "a1", SMP, masked=False)(res)))


def _both(a, b):
    return (bool(a[0]) or bool(b[0])), {"first": a[1], "second": b[1]}


# ===================================================================== Q policies
def q_fn(pol, obs, m, key):
    with stubs.prng_stubs():
        return {"a": pol(None, obs, action_mask=m, key=key)[1]}


def q_fn_nokey(pol, obs, m):
    with stubs.prng_stubs():
        return {"a": pol(None, obs, action_mask=m)[1]}


def q_fn_nomask(pol, obs, key):
    with stubs.prng_stubs():
        return {"a": pol(None, obs, key=key)[1], "a0": pol(None, obs)[1]}


def sec_q(ck, K, eps_list):
    env = UFEnv(Discrete(K))
    obs, m0 = jnp.zeros(2), jnp.ones(K, bool)

    def mk(eps):
        return cut_q_policy(MLPQPolicy(env, epsilon=eps, width_size=2, depth=1, key=jr.key(0)), K)
    # key-less
    pol = mk(0.1)
    tr = trace(q_fn_nokey, pol, obs, m0, argnames=["pol", "obs", "m"], label="MLPQPolicy.__call__(key=None, action_mask)")
    ck.encoded(tr)
    concrete.validate(ck, tr, n=2, seed=ck.seed, gen=mask_gen)
    ok, why = no_prng(tr)
    ck.fact(f"q.no_key_is_mode.no_prng@K={K}", ok, why)
    it = XRInterp()
    S = tr.symbols(it)
    out = tr.run(it, S)
    m, Q = list(S["m"]), uf_terms(it, "QNET")
    jq = lambda o_, i_: jidx(o_, i_, "a")

    def jgreedy(it_):
        def j(outs, ins, res=None):
            return jidx(outs, ins, "a")
        return j
    ck.prove(f"q.mask.action_allowed@nokey,K={K}", [disj(m)], allowed_idx(out["a"][()], m), replay=judge_replay(tr, S, it.uf_apps, jq))
    ck.prove(f"q.no_key_is_mode@K={K}", [disj(m)], greedy_idx(out["a"][()], m, Q, it.o), replay=_greedy_replay(tr, S, it, "QNET"))
    for eps in eps_list:
        pol = mk(eps)
        tre = trace(q_fn, pol, obs, m0, jr.key(0), argnames=["pol", "obs", "m", "key"], label=f"MLPQPolicy(epsilon={eps}).__call__(key, action_mask)")
        ck.encoded(tre)
        ite = XRInterp()
        Se = tre.symbols(ite)
        oe = tre.run(ite, Se)
        me, Qe = list(Se["m"]), uf_terms(ite, "QNET")
        ase = [disj(me)] + stubs.contracts(ite)
        a = oe["a"][()]
        ck.prove(f"q.mask.action_allowed@eps={eps},K={K}", ase, allowed_idx(a, me), replay=judge_replay(tre, Se, ite.uf_apps, jq))
        if eps <= 0:
            ck.prove(f"q.eps_nonpositive_is_greedy@eps={eps},K={K}", ase, greedy_idx(a, me, Qe, ite.o), replay=_greedy_replay(tre, Se, ite, "QNET"))
        elif eps >= 1:
            ck.notes.append(f"epsilon={eps}: every draw may explore, the departure bound is trivially 1; only `masks respected` is decided")
        else:
            us = uf_terms(ite, "RAND_u01")
            if len(us) == 0:
                # no uniform threshold: the exploration may be ONE draw from a categorical behaviour law -- decided from that law's probabilities
                sec_q_behaviour_law(ck, K, eps, pol, obs, m0)
                continue
            assert len(us) == 1, f"harness: expected at most one uniform draw in the epsilon-greedy trace, found {len(us)}"
            u = us[0]
            e32 = Fraction(float(np.float32(eps)))
            # departure event inside {u < eps}; an implementation testing the upper tail {u >= 1 - eps} is equally within the statement
            greedy = greedy_idx(a, me, Qe, ite.o)
            region = [u >= e32]
            alt = ase + [u < 1 - e32, neg(greedy)]
            if solve.decide(ase + region + [neg(greedy)] + solve.instantiate_axioms(ase + [neg(greedy)]), timeout_s=60).status == "sat" and \
                    solve.decide(alt + solve.instantiate_axioms(alt), timeout_s=60).status == "unsat":
                region = [u < 1 - e32]
            ck.prove(f"q.eps_greedy_bound@eps={eps},K={K}", ase + region, greedy, replay=_greedy_replay(tre, Se, ite, "QNET"))
            ck.witness(f"witness.q.explores@eps={eps}", ase + [u < e32, neg(greedy_idx(a, me, Qe, ite.o))])
            ck.control(f"control.q.greedy_when_exploring@eps={eps}", ase + [u < e32], greedy_idx(a, me, Qe, ite.o))
    # without a mask
    pol = mk(0.1)
    trn = trace(q_fn_nomask, pol, obs, jr.key(0), argnames=["pol", "obs", "key"], label="MLPQPolicy.__call__ without a mask")
    ck.encoded(trn)
    itn = XRInterp()
    Sn = trn.symbols(itn)
    on = trn.run(itn, Sn)
    Qn = uf_terms(itn, "QNET")[:K]
    uns = uf_terms(itn, "RAND_u01")
    if not uns:
        ck.skip(f"q.eps_greedy_bound@nomask,K={K}", "no uniform threshold in the keyed call: the exploration scheme is bounded through its behaviour law (q.eps_greedy_bound@eps=...)")
        return
    un = uns[0]
    allm = [True] * K
    ck.prove(f"q.eps_greedy_bound@nomask,K={K}", stubs.contracts(itn) + [un >= Fraction(float(np.float32(0.1)))], conj([greedy_idx(on["a"][()], allm, Qn, itn.o), greedy_idx(on["a0"][()], allm, Qn, itn.o)]),
             replay=_greedy_replay(trn, Sn, itn, "QNET"))


def _with_categorical_hook(fn):
    """run fn() with lerax Categorical.sample replaced by `hook(self, key)`; returns (result of fn, captured distribution objects)"""
    from lerax.distribution import Categorical
    captured = []
    orig = Categorical.sample

    def hook(self, key):
        captured.append(self)
        return hook.draw(self, key)
    hook.orig = orig
    Categorical.sample = hook
    try:
        return fn(hook), captured
    finally:
        Categorical.sample = orig


def q_fn_law(pol, obs, m, key):
    from jaxsmt.uf import uf

    def run(hook):
        hook.draw = lambda d, k: uf("CATSAMPLE", [((), "int32")], k)[0].astype(jax.eval_shape(lambda: hook.orig(d, k)).dtype)
        with stubs.prng_stubs():
            return pol(None, obs, action_mask=m, key=key)[1]
    a, cap = _with_categorical_hook(run)
    if len(cap) != 1:
        raise RuntimeError(f"expected exactly one categorical draw in the keyed Q-policy call, found {len(cap)}")
    return {"a": a, "law": cap[0].probs, "greedy": pol(None, obs, action_mask=m)[1]}


def sec_q_behaviour_law(ck, K, eps, pol, obs, m0):
    """the keyed action is one draw c ~ Categorical(p) of a behaviour law p the policy builds from (Q, mask, epsilon): the departure probability is the mass p
    puts outside the greedy set.  The real `probs` of the real distribution object are interpreted in LOG mode (exact rational functions of the inputs)."""
    trl = trace(q_fn_law, pol, obs, m0, jr.key(0), argnames=["pol", "obs", "m", "key"], label=f"MLPQPolicy(epsilon={eps}).__call__(key, action_mask) with the behaviour law exposed")
    ck.encoded(trl)
    itl = LogInterp()
    Sl = trl.symbols(itl)
    ol = trl.run(itl, Sl)
    ml, Ql = list(Sl["m"]), uf_terms(itl, "QNET")
    cs = uf_terms(itl, "CATSAMPLE")
    if len(cs) != 1 or len(Ql) < K:
        ck.skip(f"q.eps_greedy_bound@eps={eps},K={K}", "neither a uniform threshold nor a single categorical draw: the exploration scheme is not one the obligation can bound")
        return
    c, Ql = cs[0], Ql[:K]
    P = [itl.o.lower(x) for x in ol["law"]]
    a = ol["a"][()]
    a = itl.o.lower(a) if not isinstance(a, (int, z3.ExprRef)) else a
    side = conj(itl.side_conds())
    asm = [disj(ml), z3.And(c >= 0, c < K)]
    e32 = Fraction(float(np.float32(eps)))
    # LOG mode does not order plain-real Q-values (exp / log are uninterpreted there), so the greedy index the policy computes -- the term of its key-less
    # action -- is abstracted by a fresh index k ranging over the allowed actions: the bound is shown for EVERY allowed index in the role of the greedy one
    # (an over-approximation: it contains the true greedy index)
    tg = ol["greedy"][()]
    kidx = z3.Int("greedy_index")
    asm += [z3.Or([z3.And(kidx == i, ml[i]) for i in range(K)]), z3.Distinct(Ql)]      # distinct Q-values: a unique greedy action (ties only enlarge the greedy set)
    sub = (lambda t: z3.substitute(t, (tg, kidx))) if isinstance(tg, z3.ExprRef) else (lambda t: t)
    P = [sub(x) if isinstance(x, z3.ExprRef) else x for x in P]
    side = sub(side) if isinstance(side, z3.ExprRef) else side
    depart = sum(z3.If(kidx == i, 0, P[i]) for i in range(K))

    def rp(res):
        from jaxsmt.distharness import replay_real
        # real call with the real sampler, recording the real behaviour law
        keys = concrete.KeyBinding(res)
        w = concrete.ModelWorld(res, list(itl.uf_apps), keys)
        vals = [concrete.model_leaf(res, Sl[n], av, keys) for n, av in zip(trl.in_names, trl.in_avals)]
        pol_c, obs_c, m_c, key_c = concrete.rebuild_args(trl, vals)
        from lerax.distribution import Categorical
        orig = Categorical.sample

        def run(hook):
            hook.draw = lambda d, k: orig(d, k)
            from jaxsmt.uf import world
            jax.clear_caches()
            with world(w):
                out = pol_c(None, obs_c, action_mask=m_c, key=jr.key(5))[1]
            jax.clear_caches()
            return out
        _, cap = _with_categorical_hook(run)
        law = np.asarray(cap[0].probs, np.float64)
        q = np.array([val(res, t) for t in Ql])
        mm = np.asarray(m_c).astype(bool)
        gset = mm & (q >= np.max(q[mm]) - 1e-9)
        mass = float(law[~gset].sum())
        return mass > eps + 1e-6, {"function": trl.label, "q_values": q.tolist(), "mask": mm.tolist(), "behaviour_law_of_the_real_policy": law.tolist(), "mass_outside_the_greedy_set": mass, "epsilon": eps}
    ck.prove(f"q.eps_sampler_is_one_categorical_draw@eps={eps},K={K}", asm, conj([side, a == c]), replay=lambda res: (False, {"note": "the action is not the categorical draw itself: scheme not bounded by this obligation"}), nonlinear=True)
    # the law's float32 constants (epsilon, 1 - epsilon) are rounded: the bound is stated with the resolution of a float32 probability (1e-6), and a
    # counterexample that exceeds epsilon by a margin is preferred
    tol = Fraction(1, 10 ** 6)
    ck.prove(f"q.eps_greedy_bound@eps={eps},K={K}", asm, conj([side, depart <= e32 + tol]), replay=rp, nonlinear=True, margin_goal=conj([side, depart <= e32 + Fraction(1, 100)]))


def _greedy_replay(tr, S, it, net):
    def rp(res):
        from jaxsmt.distharness import replay_real
        outs, ins = replay_real(tr, S, res, it.uf_apps)
        qs = [val(res, t) for t in uf_terms(it, net)]
        mm = ins["m"].astype(bool) if "m" in ins else np.ones(len(qs), bool)
        q = np.array(qs[:len(mm)])
        a = int(outs["a"])
        bad = not (0 <= a < len(mm) and mm[a] and q[a] >= np.max(q[mm]) - 1e-5)
        return bad, {"returned": a, "mask": mm.tolist(), "q_values": q.tolist(), "inputs": {k: np.asarray(v).reshape(-1)[:8].tolist() for k, v in ins.items()}}
    return rp


# ===================================================================== SAC policy
def sac_fn(pol, obs, key):
    with stubs.prng_stubs():
        _, d = pol.action_distribution(None, obs)
        _, a, lp = pol.action_and_log_prob(None, obs, key=key)
        s, slp = d.sample_and_log_prob(key)
        return {"a_nokey": pol(None, obs)[1], "mode": d.mode(), "a_key": pol(None, obs, key=key)[1], "sample": d.sample(key), "a": a, "lp": lp, "ref_a": s, "ref_lp": jnp.sum(slp)}


def sac_nokey_fn(pol, obs):
    return {"a": pol(None, obs)[1]}


def sec_sac(ck, shape):
    env = UFEnv(Box(-jnp.ones(shape), jnp.ones(shape), shape=shape))
    pol = cut_sac_policy(MLPSACPolicy(env, feature_size=2, width_size=2, depth=1, key=jr.key(0)))
    obs = jnp.zeros(2)
    tag = "scalar" if shape == () else f"dim{shape[0]}"
    tr0 = trace(sac_nokey_fn, pol, obs, argnames=["pol", "obs"], label=f"MLPSACPolicy[{tag}].__call__(key=None)")
    ck.encoded(tr0)
    ok, why = no_prng(tr0)
    ck.fact(f"sac.{tag}.no_key_is_mode.no_prng", ok, why)
    tr = trace(sac_fn, pol, obs, jr.key(0), argnames=["pol", "obs", "key"], label=f"MLPSACPolicy[{tag}] __call__/action_and_log_prob vs action_distribution")
    ck.encoded(tr)
    it = Interp()
    S = tr.symbols(it)
    out = tr.run(it, S)
    lo, hi = S["pol_action_space_low"], S["pol_action_space_high"]
    asm = [h > l_ for h, l_ in zip(hi.reshape(-1), lo.reshape(-1))] + stubs.contracts(it)
    rp = lambda a, b: (lambda res: concrete.replay_outputs(tr, S, res, uf_apps=it.uf_apps, oracle={a: out[b]}))
    ck.prove(f"sac.{tag}.no_key_is_mode", asm, eq_arr(out["a_nokey"], out["mode"]), replay=rp("a_nokey", "mode"))
    ck.prove(f"sac.{tag}.key_samples_distribution", asm, eq_arr(out["a_key"], out["sample"]), replay=rp("a_key", "sample"))
    ck.prove(f"sac.{tag}.sample_logprob_same_dist", asm, conj([eq_arr(out["a"], out["ref_a"]), eq_arr(out["lp"], out["ref_lp"])]),
             replay=lambda res: _both(rp("a", "ref_a")(res), rp("lp", "ref_lp")(res)))
    ck.control(f"control.sac.{tag}.key_action_is_mode", asm, eq_arr(out["a_key"], out["mode"]), nonlinear=True)


def tame_region(formulas):
    """replay-robustness region (margin query of ck.prove): when an obligation fails, a counterexample is first looked for among tame
    inputs (logits / Q-values / features in [-2, 2], LOG-mode positives in [1/2, 2]) so that it survives float32 on the real code;
    the obligation itself is unrestricted"""
    out, seen = [], set()
    stack = [f for f in formulas if isinstance(f, z3.ExprRef)]
    while stack:
        t = stack.pop()
        if t.get_id() in seen:
            continue
        seen.add(t.get_id())
        if z3.is_app(t):
            if t.decl().kind() == z3.Z3_OP_UNINTERPRETED and z3.is_real(t):
                nm = t.decl().name()
                if t.num_args() == 0 and nm not in ("INF", "NaN"):
                    out.append(z3.And(t >= Fraction(1, 2), t <= 2) if nm[:2] in ("P_", "E_") else z3.And(t >= -2, t <= 2))
                elif nm.split("#")[0] in ("ALIN", "QNET", "MEAN", "LSTD"):
                    out.append(z3.And(t >= -2, t <= 2))
            stack.extend(t.children())
    return out


def main():
    ck = Check("C16", "Masked actions are never chosen; key-less policies act greedily")
    _prove = ck.prove

    seen_asm = set()

    def prove(oid, asm, goal, **kw):
        if "margin_goal" not in kw and not isconc(goal) and not kw.get("ackermann"):
            kw["margin_goal"] = implies(conj(tame_region(list(asm) + [goal])), goal)
        key = tuple(sorted(a.get_id() for a in asm if not isconc(a)))
        if key and key not in seen_asm and not kw.get("ackermann"):
            seen_asm.add(key)      # vacuity guard: every distinct assumption set must be satisfiable
            ck.witness(f"witness.assumptions.{oid}", list(asm), nonlinear=kw.get("nonlinear", False))
        if not kw.get("nonlinear") and not kw.get("ackermann") and not isconc(goal):
            asm = list(asm) + div_axioms(list(asm) + [goal])      # valid facts about the quotients in the query (probs >= 0)
        ok = _prove(oid, asm, goal, **kw)
        ob = ck.obls[-1]
        if not ok and ob.oid == oid and ob.status == "unknown" and not kw.get("nonlinear") and not kw.get("ackermann"):
            # the default solver occasionally wanders on an easy query: one retry after Ackermannisation (different preprocessing)
            ck.obls.pop()
            ck.inconclusive.remove(ob)
            ok = _prove(oid, asm, goal, **dict(kw, ackermann=True))
        return ok
    ck.prove = prove
    ck.mode = "LOG (probabilities under masks), XREAL = reals + IEEE -inf/+inf/NaN (which index mode/sample/policies return), FP32 bit-precise (two actions), REAL (SAC identities)"
    Ks = [2, 3, 5] if not ck.thorough else [2, 3, 4, 5, 6]
    ck.bound(categorical_K=Ks, bernoulli_n=3, multicategorical_dims=[[2, 3]] + ([[2, 3, 2]] if ck.thorough else []), policy_spaces=["Discrete(3)", "MultiDiscrete((2,3))", "MultiBinary(3)"],
             q_policy_K=[3] if not ck.thorough else [3, 5], epsilons=[0.1, 0.0, -0.5] + ([1.0, 0.5] if ck.thorough else []), sac_action_shapes=["()", "(2,)"],
             fp32="full mask->normalise->(gumbel-)argmax pipeline bit-precise for K=2 (mode and sample), logits in [-1e30, 1e30]; measured: K=3 mode 70-90 s, K=5 does not finish" + ("" if ck.thorough else " (thorough tier only)"),
             note="masks are symbolic Boolean vectors with at least one allowed action (per component); logits/Q-values/features are arbitrary finite reals; keys symbolic")
    ck.stub(*stubs.STUB_NOTES)
    ck.stub("MLP / Linear sub-networks of MLPActorCriticPolicy (encoder, value head, action-head MLP, final Linear), MLPQPolicy (q_network) and MLPSACPolicy (encoder, mean and "
            "log-std heads) are cut to uninterpreted functions of their input = arbitrary finite features; everything between the cuts is the real code",
            "jax.numpy.logaddexp (hence jax.nn.softplus) is interpreted by its definition log(e^a + e^b) in LOG mode")
    ck.assume_note("PRNG-dependent obligations are replayed on the real lerax code with the stubbed samplers bound to the draws of the solver model (ModelWorld)",
                   "XREAL treats finite float arithmetic exactly over the reals; -inf/+inf/NaN follow IEEE-754 (propagation, inf-inf, 0*inf, x/0, log 0, comparisons, NaN-first argmax)")
    ck.out("float32 rounding and overflow of finite arithmetic (XREAL/LOG are exact over the reals; the FP32 obligations cover K=2 only)",
           "the probability with which a Q policy explores (statistical): decided is `uniform draw >= epsilon => greedy action`, which bounds the departure event by {u < epsilon}",
           "samples follow the masked distribution (statistical clause; decided: never a masked action, same distribution object as the reported log-probability)",
           "categorical distributions with more than 127 categories (distreqx returns int8 indices)")
    trs_by_K = {}
    for K in Ks:
        with ck.section(f"categorical@K={K}"):
            trs_by_K[K] = sec_categorical(ck, K, quick_extra=(K == 3))
    if ck.thorough:
        for K, smp in ((2, True),):      # (K=3 mode alone needs 70-90 s bit-precise; K=2 mode+sample 20-80 s — bounded at K=2 to keep the tier inside its budget)
            if trs_by_K.get(K) is not None:
                with ck.section(f"categorical.fp32@K={K}"):
                    sec_categorical_fp32(ck, trs_by_K[K], K, sample=smp)
    with ck.section("bernoulli"):
        sec_bernoulli(ck)
    for dims in ([(2, 3)] if not ck.thorough else [(2, 3), (2, 3, 2)]):
        with ck.section(f"multicategorical{dims}"):
            sec_multicat(ck, dims)
    for case in space_cases(3):
        with ck.section(f"actor_critic.{case.name}"):
            sec_ac(ck, case)
        with ck.section(f"actor_critic.{case.name},action_depth=1"):
            sec_ac(ck, case, action_depth=1)
    # three components: block offsets are cumulative sums (a pairwise offset table is right for two components and wrong from the third on)
    set_dims((2, 3, 2))
    case3 = SpaceCase("multidiscrete(2,3,2)", MultiDiscrete(DIMS), 7, (7,), jnp.zeros(3, int))
    with ck.section(f"actor_critic.{case3.name}"):
        sec_ac(ck, case3)
    set_dims((2, 3))
    for K in ([3] if not ck.thorough else [3, 5]):
        with ck.section(f"q_policy@K={K}"):
            sec_q(ck, K, [0.1, 0.0, -0.5] + ([1.0, 0.5] if ck.thorough and K == 3 else []))
    for shape in ((), (2,)):
        with ck.section(f"sac{shape}"):
            sec_sac(ck, shape)
    # `with a key it samples from the same distribution whose log-probability it reports`: the reported law of a multi-component action is the PRODUCT
    # of its components, so the sampled components must be independent draws (distinct key per component, also for components of equal size) -- the
    # independence obligations of C15, discharged here as part of this clause
    from props import C15
    with ck.section("sampled_components_independent"):
        C15.sec_independent_components(ck)
    ck.finish("Masked Categorical / Bernoulli / MultiCategorical: `.probs` is traced and interpreted in LOG mode (logits = log P_i, fraction normal form), giving masked "
              "probability exactly 0 and allowed probabilities p_i / sum_allowed p_j against the traced unmasked probabilities; mode()/sample() are interpreted over reals with "
              "IEEE special values with jax.random.gumbel/uniform replaced by range contracts, giving `returned index is allowed (and greedy for mode)` for every non-empty mask. "
              "The real MLPActorCriticPolicy (Discrete, MultiDiscrete, MultiBinary), MLPQPolicy and MLPSACPolicy are traced with their networks cut to uninterpreted functions: "
              "returned actions are allowed in every mode, key=None programs contain no PRNG primitive and return the mode of the real lerax distribution built on the logits the "
              "policy's last layer produced, keyed calls return that distribution's sample and its log-probability, u >= epsilon (or epsilon <= 0, or no key) gives the greedy Q action.")


if __name__ == "__main__":
    main()
