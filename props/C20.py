"""C20 — Unitree G1: randomisation ranges, episode start, gait phase coherence, desired foot height.

Everything is decided on the jaxprs of the real lerax functions executed over z3 terms:
* `randomize_*` / `randomize_model` on the real G1 mjx.Model pytree with SYMBOLIC ranges (lo <= hi) and symbolic nominal
  values (>= 0); the random draws are contract stubs (u in [0,1)); every model leaf that is not randomised must be the
  input leaf itself (pass-through in the IR) or equal by solver;
* `initial()` of the three tasks with the physics stubbed (jaxsmt/mjxstubs.py, operands = qpos, qvel, ctrl and the model
  leaves the randomisation varies): command / frequency ranges, randomised model on the state, derived kinematics = one
  forward() of the returned qpos, qvel, ctrl with the returned model;
* gait helpers and `AbstractG1Env.transition`: pi is an interval-bounded SYMBOL (so the result does not depend on the
  float32 rounding of pi) and `fmod` is encoded exactly as an ite-chain over the quotient, whose range is itself an
  obligation; desired foot height is cubic real arithmetic (nlsat).
"""
import math
from fractions import Fraction

import jax
import jax.numpy as jnp
import numpy as np
import z3
from jax import random as jr

from jaxsmt import concrete, solve, stubs
from jaxsmt.core import Check, conj, disj, eq_arr, eq_elem, implies, neg
from jaxsmt.interp import Interp
from jaxsmt.mjxstubs import MjxStub
from jaxsmt.ops import RealOps, isconc
from jaxsmt.trace import trace

import lerax.env.unitree.g1 as g1
from lerax.env.unitree.g1 import gait, randomize

PI = z3.Real("PI")
PI_BOUNDS = [PI > z3.Q(314159, 100000), PI < z3.Q(314160, 100000)]
_PI32 = Fraction(float(np.float32(math.pi)))
FMOD_K = 2


class PiOps(RealOps):
    """literals that are float32 multiples of pi become multiples of the symbol PI; fmod is an exact ite-chain over the quotient"""

    def __init__(self):
        self.rem_side = []   # conditions that must hold for the ite-chain to cover the quotient (proved as obligations)

    def lift(self, v, dtype):
        r = RealOps.lift(self, v, dtype)
        if isinstance(r, Fraction) and r != 0:
            for k in (Fraction(1), Fraction(2), Fraction(1, 2), Fraction(-1), Fraction(-2)):
                if r == _PI32 * k:
                    return PI * z3.RealVal(k) if k != 1 else PI
        return r

    def frem(self, x, y):
        """C fmod(x, y) = x - y*trunc(x/y) for y > 0, |x/y| < FMOD_K+1 (both recorded as side conditions)"""
        if isconc(x) and isconc(y):
            return RealOps.frem(self, x, y)
        x, y = self.zf(x), self.zf(y)
        self.rem_side.append(z3.And(y > 0, x < (FMOD_K + 1) * y, x > -(FMOD_K + 1) * y))
        r = z3.FreshConst(z3.RealSort(), "fmod_out_of_range")
        for k in range(FMOD_K, -1, -1):
            r = z3.If(z3.And(x >= k * y, x < (k + 1) * y), x - k * y, r)
            r = z3.If(z3.And(x <= -k * y, x > -(k + 1) * y), x + k * y, r) if k else z3.If(z3.And(x < 0, x > -y), x, r)
        return r


class PiInterp(Interp):
    def __init__(self, **kw):
        super().__init__(**kw)
        self.o = PiOps()


def bind(tr, S, res, it, names=None):
    """real function on the model's inputs, uninterpreted functions (random draws, physics) bound to the model's interpretation"""
    keys = concrete.KeyBinding(res)
    w = concrete.ModelWorld(res, it.uf_apps, keys)
    vals = [concrete.model_leaf(res, S[n], av, keys) for n, av in zip(tr.in_names, tr.in_avals)]
    real = concrete.run_real(tr, vals, w)
    return dict(zip(tr.in_names, vals)), dict(zip(tr.out_names, real))


def f64(x):
    return np.asarray(x, dtype=np.float64)


# ================================================================== randomisation
def sec_rand(ck, env):
    model = env.base_model
    tid = int(env.torso_body_id)
    two = jnp.array([0.5, 1.5], jnp.float32)

    def f_model(model, key, nfl, na, nbm, fr, flr, ar, mr, tor):
        with stubs.prng_stubs():
            return randomize.randomize_model(model, key=key, nominal_friction_loss=nfl, nominal_armature=na, nominal_body_mass=nbm, torso_body_id=tid,
                                             friction_range=(fr[0], fr[1]), friction_loss_scale_range=(flr[0], flr[1]), armature_scale_range=(ar[0], ar[1]),
                                             mass_scale_range=(mr[0], mr[1]), torso_offset_range=(tor[0], tor[1]))
    argn = ["model", "key", "nfl", "na", "nbm", "fr", "flr", "ar", "mr", "tor"]
    tr = trace(f_model, model, jr.key(0), env.nominal_friction_loss, env.nominal_armature, env.nominal_body_mass, two, two, two, two, two, argnames=argn,
               label="g1.randomize.randomize_model (real G1 mjx.Model pytree)")
    ck.encoded(tr)
    concrete.validate(ck, tr, n=1, seed=ck.seed)
    it = Interp()
    S = tr.symbols(it)
    out = tr.run(it, S)
    pt = tr.passthrough()
    computed = [n for n in tr.out_names if n not in pt]
    varied = sorted(computed)
    ck.log(f"randomize_model: {len(tr.out_names)} model leaves, {len(pt)} are the input variable itself, computed: {computed}")
    ranges = {k: (S[k][0], S[k][1]) for k in ("fr", "flr", "ar", "mr", "tor")}
    A = stubs.contracts(it) + [lo <= hi for lo, hi in ranges.values()]
    A += [x >= 0 for k in ("nfl", "na", "nbm") for x in S[k].reshape(-1)]
    witness(ck, "witness.rand.assumptions_satisfiable", A, nonlinear=True)

    def within(x, lo, hi):
        return z3.And(x >= lo, x <= hi)

    def rp(pred):
        def go(res):
            ins, outs = bind(tr, S, res, it)
            return pred({k: f64(v) for k, v in ins.items() if "key" not in str(v.dtype)}, {k: f64(v) for k, v in outs.items()})
        return go
    tol = 1e-4

    # ---- contact friction: the first two contact pairs (feet/floor), first two friction coefficients, within [lo, hi]; the rest nominal
    pf, pf0 = out["pair_friction"], S["model_pair_friction"]
    lo, hi = ranges["fr"]
    g = [within(pf[i, j], lo, hi) for i in range(2) for j in range(2)]
    g += [eq_elem(pf[i, j], pf0[i, j]) for i in range(pf.shape[0]) for j in range(pf.shape[1]) if not (i < 2 and j < 2)]

    def p_fr(i, o_):
        a, b = i["fr"]
        x = o_["pair_friction"]
        bad = bool(np.any(x[:2, :2] < a - tol) or np.any(x[:2, :2] > b + tol))
        rest = np.ones(x.shape, bool)
        rest[:2, :2] = False
        bad2 = bool(np.any(np.abs(x - i["model_pair_friction"])[rest] > tol))
        return bad or bad2, {"range": [a, b], "pair_friction[:3]": x[:3].tolist(), "nominal[:3]": i["model_pair_friction"][:3].tolist()}
    prove(ck, "rand.pair_friction.range", A, conj(g), nonlinear=True, replay=rp(p_fr), margin_goal=slack_goal(g))

    # ---- friction loss / armature of the actuated dofs (index 6 and up): nominal * scale, scale in [lo, hi]; the free-joint dofs nominal
    for leaf, nom, rk in (("dof_frictionloss", "nfl", "flr"), ("dof_armature", "na", "ar")):
        x, x0 = out[leaf], S["model_" + leaf]
        lo, hi = ranges[rk]
        n = S[nom].shape[0]
        g = [within(x[6 + i], S[nom][i] * lo, S[nom][i] * hi) for i in range(n)] + [eq_elem(x[i], x0[i]) for i in range(6)]
        g.append(x.shape[0] == 6 + n)

        def p_sc(i, o_, leaf=leaf, nom=nom, rk=rk):
            a, b = i[rk]
            v, nm = o_[leaf], i[nom]
            bad = bool(np.any(v[6:] < nm * a - tol * (1 + np.abs(nm * a))) or np.any(v[6:] > nm * b + tol * (1 + np.abs(nm * b))) or np.any(np.abs(v[:6] - i["model_" + leaf][:6]) > tol))
            return bad, {"scale_range": [a, b], leaf + "[4:10]": v[4:10].tolist(), "nominal_actuated[:4]": nm[:4].tolist(), "model_" + leaf + "[4:10]": i["model_" + leaf][4:10].tolist()}
        prove(ck, f"rand.{leaf}.range", A, conj(g), nonlinear=True, replay=rp(p_sc), margin_goal=slack_goal(g))
        # negative control: claiming that index 6 is NOT randomised (an off-by-one `.at[7:]`) must be refuted
        control(ck, f"control.rand.{leaf}.index6_untouched", A, eq_elem(x[6], x0[6]), nonlinear=True)

    # ---- body masses: nominal * scale, plus the payload offset on the torso
    bm = out["body_mass"]
    lo, hi = ranges["mr"]
    olo, ohi = ranges["tor"]
    g = []
    for b in range(bm.shape[0]):
        nb = S["nbm"][b]
        g.append(within(bm[b], nb * lo + (olo if b == tid else 0), nb * hi + (ohi if b == tid else 0)))

    def p_bm(i, o_):
        a, b = i["mr"]
        c, d = i["tor"]
        v, nm = o_["body_mass"], i["nbm"]
        lo_ = nm * a
        hi_ = nm * b
        lo_[tid] += c
        hi_[tid] += d
        bad = bool(np.any(v < lo_ - tol * (1 + np.abs(lo_))) or np.any(v > hi_ + tol * (1 + np.abs(hi_))))
        return bad, {"scale_range": [a, b], "torso_offset_range": [c, d], "body_mass[:4]": v[:4].tolist(), "nominal[:4]": nm[:4].tolist(), "torso": [float(v[tid]), float(nm[tid])]}
    prove(ck, "rand.body_mass.range", A, conj(g), nonlinear=True, replay=rp(p_bm), margin_goal=slack_goal(g))
    control(ck, "control.rand.body_mass.torso_without_offset", A, within(bm[tid], S["nbm"][tid] * lo, S["nbm"][tid] * hi), nonlinear=True)

    # ---- every other model parameter is the nominal one
    expected = {"pair_friction", "dof_frictionloss", "dof_armature", "body_mass"}
    ck.fact("rand.others_identical", set(computed) == expected and all(pt[n] == "model_" + n for n in pt),
            f"{len(pt)} of {len(tr.out_names)} output leaves ARE the corresponding input variable of the jaxpr; computed leaves: {computed} (expected {sorted(expected)})")

    # ---- the four single-purpose functions (same obligations on their own jaxprs: each must leave every other leaf alone)
    singles = {
        "randomize_friction": (lambda m, k, r: randomize.randomize_friction(m, key=k, friction_range=(r[0], r[1])), [two], {"pair_friction"}),
        "randomize_friction_loss": (lambda m, k, n_, r: randomize.randomize_friction_loss(m, key=k, nominal_friction_loss=n_, scale_range=(r[0], r[1])),
                                    [env.nominal_friction_loss, two], {"dof_frictionloss"}),
        "randomize_armature": (lambda m, k, n_, r: randomize.randomize_armature(m, key=k, nominal_armature=n_, scale_range=(r[0], r[1])), [env.nominal_armature, two],
                               {"dof_armature"}),
        "randomize_body_mass": (lambda m, k, n_, r, t_: randomize.randomize_body_mass(m, key=k, nominal_body_mass=n_, scale_range=(r[0], r[1]), torso_body_id=tid,
                                                                                        torso_offset_range=(t_[0], t_[1])), [env.nominal_body_mass, two, two], {"body_mass"}),
    }
    for nm, (fn, extra, exp) in singles.items():
        def wrapped(m, k, *a, fn=fn):
            with stubs.prng_stubs():
                return fn(m, k, *a)
        t1 = trace(wrapped, model, jr.key(0), *extra, argnames=["model", "key"] + [f"x{i}" for i in range(len(extra))], label=f"g1.randomize.{nm}")
        ck.encoded(t1)
        p1 = t1.passthrough()
        comp = {n for n in t1.out_names if n not in p1}
        ck.fact(f"rand.others_identical@{nm}", comp == exp and all(p1[n] == "model_" + n for n in p1), f"computed leaves {sorted(comp)}, all other {len(p1)} leaves pass through")
    return varied


# ================================================================== episode start
def sec_initial(ck, task, env, stub, varied):
    def f_init(env, k):
        with stub, stubs.prng_stubs():
            return env.initial(key=k)
    tr = trace(f_init, env, jr.key(0), argnames=["env", "k"], label=f"{type(env).__name__}.initial (physics and PRNG stubbed)")
    ck.encoded(tr)
    it = PiInterp()
    S = tr.symbols(it)
    out = tr.run(it, S)
    A = stubs.contracts(it) + PI_BOUNDS
    pt = tr.passthrough()

    def real_initial(res):
        """the REAL initial() (real mjx.forward) on a concrete key; returns the state and the state after one more real forward"""
        from mujoco import mjx
        st = jax.jit(lambda k: env.initial(key=k))(jr.key(ck.seed + 11))
        fw = jax.jit(mjx.forward)(st.model, st.sim_state)
        return st, fw

    # ---- randomised model on the state: ranges around the nominal values, every other leaf nominal
    fr, flr, ar, mr, tor = env.friction_range, env.friction_loss_scale_range, env.armature_scale_range, env.mass_scale_range, env.torso_offset_range
    tid = int(env.torso_body_id)
    L = lambda v: it.o.lift(v, np.float32)   # noqa: E731
    g = []
    pf, pf0 = out["model_pair_friction"], S["env_base_model_pair_friction"]
    g += [z3.And(pf[i, j] >= L(fr[0]), pf[i, j] <= L(fr[1])) for i in range(2) for j in range(2)]
    g += [eq_elem(pf[i, j], pf0[i, j]) for i in range(pf.shape[0]) for j in range(pf.shape[1]) if not (i < 2 and j < 2)]
    for leaf, nom, rng in (("dof_frictionloss", "env_nominal_friction_loss", flr), ("dof_armature", "env_nominal_armature", ar)):
        x, x0, nm = out["model_" + leaf], S["env_base_model_" + leaf], S[nom]
        g += [z3.And(x[6 + i] >= nm[i] * L(rng[0]), x[6 + i] <= nm[i] * L(rng[1])) for i in range(nm.shape[0])] + [eq_elem(x[i], x0[i]) for i in range(6)]
    bm, nm = out["model_body_mass"], S["env_nominal_body_mass"]
    for b in range(bm.shape[0]):
        g.append(z3.And(bm[b] >= nm[b] * L(mr[0]) + (L(tor[0]) if b == tid else 0), bm[b] <= nm[b] * L(mr[1]) + (L(tor[1]) if b == tid else 0)))
    nonneg = [x >= 0 for k in ("env_nominal_friction_loss", "env_nominal_armature", "env_nominal_body_mass") for x in S[k].reshape(-1)]

    def rp_model(res):
        ins, outs = bind(tr, S, res, it)
        x = f64(outs["model_dof_frictionloss"])
        nmv = f64(ins["env_nominal_friction_loss"])
        bad = bool(np.any(x[6:] < nmv * flr[0] - 1e-4) or np.any(x[6:] > nmv * flr[1] + 1e-4) or np.any(np.abs(x[:6] - f64(ins["env_base_model_dof_frictionloss"])[:6]) > 1e-5))
        y = f64(outs["model_dof_armature"])
        nma = f64(ins["env_nominal_armature"])
        bad = bad or bool(np.any(y[6:] < nma * ar[0] - 1e-4) or np.any(y[6:] > nma * ar[1] + 1e-4) or np.any(np.abs(y[:6] - f64(ins["env_base_model_dof_armature"])[:6]) > 1e-5))
        m = f64(outs["model_body_mass"])
        nmm = f64(ins["env_nominal_body_mass"])
        lo_, hi_ = nmm * mr[0], nmm * mr[1]
        lo_[tid] += tor[0]
        hi_[tid] += tor[1]
        bad = bad or bool(np.any(m < lo_ - 1e-3) or np.any(m > hi_ + 1e-3))
        p = f64(outs["model_pair_friction"])
        bad = bad or bool(np.any(p[:2, :2] < fr[0] - 1e-4) or np.any(p[:2, :2] > fr[1] + 1e-4))
        return bad, {"dof_frictionloss[4:10]": x[4:10].tolist(), "nominal_friction_loss[:4]": nmv[:4].tolist(), "dof_armature[4:10]": y[4:10].tolist(),
                     "nominal_armature[:4]": nma[:4].tolist(), "body_mass[:4]": m[:4].tolist(), "pair_friction[:2]": p[:2].tolist()}
    prove(ck, f"initial.{task}.randomised_model_in_ranges", A + nonneg, conj(g), nonlinear=True, replay=rp_model, margin_goal=slack_goal(g, nonneg))
    model_out = [n for n in tr.out_names if n.startswith("model_")]
    others = [n for n in model_out if n[len("model_"):] not in varied]
    okp = all(pt.get(n) == "env_base_" + n for n in others)
    ck.fact(f"initial.{task}.other_model_parameters_nominal", okp, f"{len(others)} model leaves of the returned state are the environment's base-model input variables themselves; "
            f"not so: {[n for n in others if pt.get(n) != 'env_base_' + n][:5]}")

    # ---- velocity command and gait frequency
    cmd, fq = out["command"], out["gait_frequency"][()]
    if task == "locomotion":
        rngs = [S["env_lin_vel_x_range"], S["env_lin_vel_y_range"], S["env_ang_vel_yaw_range"]]
        fr_ = S["env_gait_frequency_range"]
        pre = [r[0] <= r[1] for r in rngs] + [fr_[0] <= fr_[1]]
        inr = conj([z3.And(cmd[i] >= rngs[i][0], cmd[i] <= rngs[i][1]) for i in range(3)])
        zero = conj([eq_elem(cmd[i], Fraction(0)) for i in range(3)])
        goal = conj([disj([inr, zero]), z3.And(fq >= fr_[0], fq <= fr_[1])])

        def rp_cmd(res):
            ins, outs = bind(tr, S, res, it)
            c, f = f64(outs["command"]), float(outs["gait_frequency"])
            r = [f64(ins[k]) for k in ("env_lin_vel_x_range", "env_lin_vel_y_range", "env_ang_vel_yaw_range")]
            fr2 = f64(ins["env_gait_frequency_range"])
            ok = (all(r[i][0] - 1e-4 <= c[i] <= r[i][1] + 1e-4 for i in range(3)) or bool(np.all(c == 0))) and fr2[0] - 1e-4 <= f <= fr2[1] + 1e-4
            return not ok, {"command": c.tolist(), "ranges": [x.tolist() for x in r], "gait_frequency": f, "gait_frequency_range": fr2.tolist()}
        prove(ck, f"initial.{task}.command_frequency", A + pre, goal, nonlinear=True, replay=rp_cmd)
        witness(ck, f"witness.initial.{task}.zero_command_reachable", A + pre + [zero if not isconc(zero) else True])
        control(ck, f"control.initial.{task}.frequency_below_midpoint", A + pre, fq * 2 <= fr_[0] + fr_[1], nonlinear=True)
    else:
        def rp_zero(res):
            ins, outs = bind(tr, S, res, it)
            c = f64(outs["command"])
            return bool(np.any(c != 0)), {"command": c.tolist()}
        prove(ck, f"initial.{task}.command_frequency", A, eq_arr(cmd, np.array([Fraction(0)] * 3, dtype=object)), replay=rp_zero)

    # ---- gait phases at the start: [-pi, pi], half a cycle apart
    ph = out["gait_phase"]
    zz = it.o.z
    gp = conj([z3.And(zz(ph[i]) >= -PI, zz(ph[i]) <= PI) for i in range(2)] + [half_cycle(zz(ph[0]), zz(ph[1]))])

    def rp_ph(res):
        ins, outs = bind(tr, S, res, it)
        p = f64(outs["gait_phase"])
        d = abs(abs(p[1] - p[0]) - math.pi)
        return bool(d > 1e-5 or np.any(np.abs(p) > math.pi + 1e-6)), {"initial gait_phase": p.tolist()}
    prove(ck, f"phase.initial@{task}", A, gp, nonlinear=True, replay=rp_ph)

    # ---- derived kinematics are those of ONE forward() of the returned qpos, qvel, ctrl with the returned model
    D = {n[len("sim_state_"):].replace("_impl_", "", 1) if n.startswith("sim_state__impl_") else n[len("sim_state_"):]: out[n] for n in tr.out_names if n.startswith("sim_state_")}
    M = {n[len("model_"):]: out[n] for n in tr.out_names if n.startswith("model_")}
    nq = D["qpos"].size
    raw = stub.sym_operands(it, D, M)
    cands, seen = [], set()
    for nm_, oi, idx, operands, term in it.uf_apps:
        if nm_ == "PHYS":
            key = tuple(x.get_id() for x in operands)
            if key not in seen:
                seen.add(key)
                cands.append(list(operands))
    ck.log(f"initial.{task}: {len(cands)} forward() applications in the trace, {len(it.uf_apps)} uninterpreted applications")
    cands.append(raw)
    alts = []
    derived = [f for f in stub.written["forward"] if f != "qpos" and D[f].size]

    def same(xs, ys):
        return len(xs) == len(ys) and all((x.eq(y) if isinstance(x, z3.ExprRef) and isinstance(y, z3.ExprRef) else False) for x, y in zip(xs, ys))
    # fast path: a forward() application whose qvel/ctrl/model operands ARE the returned ones and whose qpos output IS the returned qpos
    exact = [c for c in cands[:-1] if same(raw[nq:], c[nq:]) and eq_arr(D["qpos"], stub.sym_field(it, "FWD", "qpos", c)) is True]
    for c in (exact[:1] or cands):
        gq = [eq_arr(objarr(raw[nq:]), objarr(c[nq:])),
              disj([eq_arr(objarr(raw[:nq]), objarr(c[:nq])), eq_arr(D["qpos"], stub.sym_field(it, "FWD", "qpos", c))])]
        for f in derived:
            gq.append(eq_arr(D[f], stub.sym_field(it, "FWD", f, c)))
        alts.append(conj(gq))

    def rp_kin(res):
        st, fw = real_initial(res)
        diffs = {}
        for f in ("xpos", "xipos", "site_xpos", "sensordata", "cvel", "subtree_com"):
            a, b = f64(getattr(st.sim_state, f)), f64(getattr(fw, f))
            if a.size and np.abs(a - b).max() > 1e-4:
                diffs[f] = {"returned_by_initial": a.reshape(-1)[:6].tolist(), "forward_of_the_returned_state": b.reshape(-1)[:6].tolist(), "max_abs_difference": float(np.abs(a - b).max())}
        return bool(diffs), {"task": task, "qpos[:3]": f64(st.sim_state.qpos)[:3].tolist(), "derived_leaves_inconsistent_with_qpos": diffs,
                             "how": "real initial() (real mjx.forward) on a concrete key, compared with one more real mjx.forward of the returned state"}
    if exact:
        prove(ck, f"initial.{task}.kinematics_consistent", A, disj(alts), replay=rp_kin, timeout=120)
    else:
        # no forward() application is syntactically the one the returned state comes from: look for a counterexample on a few leaves first
        # (a weaker goal: any counterexample to it is one to the full statement), the full statement only if that part holds
        small = []
        for c in cands:
            gq = [eq_arr(objarr(raw[nq:]), objarr(c[nq:])),
                  disj([eq_arr(objarr(raw[:nq]), objarr(c[:nq])), eq_arr(D["qpos"], stub.sym_field(it, "FWD", "qpos", c))])]
            gq += [eq_arr(D[f], stub.sym_field(it, "FWD", f, c)) for f in ("xpos", "site_xpos") if D[f].size]
            small.append(conj(gq))
        pre = solve.decide([neg(disj(small))], timeout_s=60, nonlinear=False)
        ck.log(f"initial.{task}: no syntactic forward() image; weaker goal on qpos/xpos/site_xpos: {pre.status}")
        if pre.status == "sat":
            ck.prove(f"initial.{task}.kinematics_consistent", [], disj(small), replay=rp_kin, timeout=120, axioms=False)
        else:
            prove(ck, f"initial.{task}.kinematics_consistent", A, disj(alts), replay=rp_kin, timeout=240)
    # a snap-to-ground that is not followed by forward(): the kinematics of the state BEFORE the z correction must be refuted as consistent
    if len(cands) >= 3:
        stale = conj([eq_arr(D[f], stub.sym_field(it, "FWD", f, cands[0])) for f in ("xpos", "site_xpos") if D[f].size])
        control(ck, f"control.initial.{task}.kinematics_of_the_state_before_snap_to_ground", A, stale)
    return tr, S, out, it


def slack_goal(goals, extra=()):
    """the same range / equality goals with 1/16 of slack on bounded symbols: what the solver then finds survives float32 rounding at replay time"""
    eps = z3.Q(1, 16)
    out, ts = [], []

    def widen(t):
        if isconc(t):
            return t
        if z3.is_and(t):
            return z3.And([widen(c) for c in t.children()])
        if z3.is_le(t):
            return t.arg(0) <= t.arg(1) + eps
        if z3.is_ge(t):
            return t.arg(0) >= t.arg(1) - eps
        if z3.is_eq(t) and z3.is_arith(t.arg(0)):
            d = t.arg(0) - t.arg(1)
            return z3.And(d <= eps, -d <= eps)
        return t
    for g_ in goals:
        out.append(widen(g_))
        if not isconc(g_):
            ts.append(g_)
    from props.c17_mujoco import free_consts
    vs = free_consts(ts)
    bounded = [z3.And(v >= -4, v <= 4) for v in vs]
    return implies(conj(bounded + list(extra)), conj(out))


def objarr(xs):
    o = np.empty((len(xs),), dtype=object)
    for i, x in enumerate(xs):
        o[i] = x
    return o


# ================================================================== gait helpers
def phase_pre(ph, f, dt):
    return PI_BOUNDS + [z3.And(ph[i] >= -PI, ph[i] <= PI) for i in range(2)] + [f >= 0, dt > 0, f * dt * 2 <= 1]


def half_cycle(a, b):
    d = b - a
    return z3.Or(d == PI, d == -PI)


def sec_gait(ck):
    # ---- advance_gait_phase
    tr = trace(lambda p, f, dt: gait.advance_gait_phase(p, f, dt), jnp.zeros(2), jnp.array(1.0), jnp.array(0.02), argnames=["phase", "f", "dt"], label="g1.gait.advance_gait_phase")
    ck.encoded(tr)
    concrete.validate(ck, tr, n=3, seed=ck.seed, gen=lambda n, av, rng: jnp.asarray(rng.uniform(0.05, 0.4, size=av.shape), av.dtype) if n != "phase" else jnp.asarray(rng.uniform(-3, 3, size=av.shape), av.dtype))
    it = PiInterp()
    S = tr.symbols(it)
    out = tr.run(it, S)
    ph, f, dt = S["phase"], S["f"][()], S["dt"][()]
    new = out[tr.out_names[0]]
    pre = phase_pre(ph, f, dt)
    witness(ck, "witness.phase.preconditions_satisfiable", pre + [half_cycle(ph[0], ph[1])], nonlinear=True)

    def rp(pred):
        def go(res):
            vals = [concrete.model_leaf(res, S[n], av, None) for n, av in zip(tr.in_names, tr.in_avals)]
            real = f64(concrete.run_real(tr, vals)[0])
            p, ff, d = f64(vals[0]), float(vals[1]), float(vals[2])
            return pred(p, ff, d, real)
        return go
    eps = 1e-4
    prove(ck, "phase.fmod_quotient_in_range", pre, conj(list(it.o.rem_side)), nonlinear=True,
             replay=rp(lambda p, ff, d, r: (bool(np.any(np.abs(p + 2 * math.pi * ff * d + math.pi) >= 3 * 2 * math.pi)), {"phase": p.tolist(), "f": ff, "dt": d})))
    prove(ck, "phase.range", pre, conj([z3.And(new[i] >= -PI, new[i] <= PI) for i in range(2)]), nonlinear=True,
             replay=rp(lambda p, ff, d, r: (bool(np.any(np.abs(r) > math.pi + eps)), {"phase": p.tolist(), "f": ff, "dt": d, "next_phase": r.tolist()})))
    inc = 2 * PI * f * dt
    prove(ck, "phase.increment", pre, conj([z3.Or(new[i] == ph[i] + inc, new[i] == ph[i] + inc - 2 * PI) for i in range(2)]), nonlinear=True,
             replay=rp(lambda p, ff, d, r: (bool(np.any(np.minimum(np.abs(r - p - 2 * math.pi * ff * d), np.abs(r - p - 2 * math.pi * ff * d + 2 * math.pi)) > eps)),
                                             {"phase": p.tolist(), "f": ff, "dt": d, "next_phase": r.tolist(), "expected_increment": 2 * math.pi * ff * d})))
    prove(ck, "phase.half_cycle_inductive", pre + [half_cycle(ph[0], ph[1])], half_cycle(new[0], new[1]), nonlinear=True,
             replay=rp(lambda p, ff, d, r: (bool(abs(abs(r[1] - r[0]) - math.pi) > eps), {"phase": p.tolist(), "f": ff, "dt": d, "next_phase": r.tolist()})))
    control(ck, "control.phase.wrap_never_happens", pre, conj([new[i] == ph[i] + inc for i in range(2)]), nonlinear=True)
    control(ck, "control.phase.increment_without_2pi", pre, conj([z3.Or(new[i] == ph[i] + f * dt, new[i] == ph[i] + f * dt - 2 * PI) for i in range(2)]), nonlinear=True)

    # ---- bit-precise (float32) range of the wrapped phase (thorough tier): fmod is exact in IEEE arithmetic, the additions round.  Two obligations:
    # the computed increment 2*pi*f*dt lies in [0, pi32] for f in [0, 4] Hz at dt = 0.02 s (the G1 control step), and for EVERY increment in [0, pi32]
    # and every float32 phase in [-pi32, pi32) the new phase is again in [-pi32, pi32) (the increment sub-term is abstracted by a fresh variable there:
    # an over-approximation, so the second obligation does not depend on how the increment is computed)
    if ck.thorough:
        itb = Interp(mode="fp32")
        Sb = tr.symbols(itb, given={"dt": itb.lift(np.asarray(0.02, np.float32), np.float32)})
        nb = tr.run(itb, Sb)[tr.out_names[0]]
        F32 = z3.Float32()
        pi32 = z3.FPVal(float(np.float32(np.pi)), F32)
        zero = z3.FPVal(0.0, F32)
        phb, fb = Sb["phase"], Sb["f"][()]

        def inc_of(t, x):
            if z3.is_app(t):
                if t.decl().kind() == z3.Z3_OP_FPA_ADD and any(c.get_id() == x.get_id() for c in t.children()):
                    return [c for c in t.children()[1:] if c.get_id() != x.get_id()][0]
                for c in t.children():
                    r = inc_of(c, x)
                    if r is not None:
                        return r
            return None
        incs = [inc_of(nb[i], phb[i]) for i in range(2)]
        ok_inc = all(x is not None for x in incs) and incs[0].get_id() == incs[1].get_id()
        ck.fact("phase.fp32.increment_term_found", ok_inc, "the float32 term added to the phase is the same for both feet")
        if ok_inc:
            def rpb(res):
                vals = [concrete.model_leaf(res, Sb[n], av, None) for n, av in zip(tr.in_names, tr.in_avals)]
                real = np.asarray(concrete.run_real(tr, vals)[0], np.float32)
                bad = bool(np.any(~((real >= -np.float32(np.pi)) & (real < np.float32(np.pi)))))
                return bad, {"function": tr.label, "phase": np.asarray(vals[0], np.float64).tolist(), "f": float(vals[1]), "dt": float(vals[2]), "next_phase_float32": real.astype(np.float64).tolist()}
            ck.prove("phase.fp32.increment_in_[0,pi]@f<=4Hz,dt=0.02", [z3.fpGEQ(fb, zero), z3.fpLEQ(fb, z3.FPVal(4.0, F32))], z3.And(z3.fpGEQ(incs[0], zero), z3.fpLEQ(incs[0], pi32)),
                     replay=rpb, timeout=120)
            v = z3.FP("phase_increment", F32)
            na = z3.substitute(nb[0], (incs[0], v))
            sec_, ck.second = ck.second, False      # /usr/bin/z3 4.8.12 does not decide the fp.rem query within 600 s: single-solver verdict (z3 5.1.0), stated in the evidence notes
            ck.notes.append("phase.fp32.range_half_open: decided by z3 5.1.0 only (the second solver z3 4.8.12 times out on fp.rem)")
            ck.prove("phase.fp32.range_half_open@any_increment_in_[0,pi]", [z3.fpGEQ(phb[0], z3.fpNeg(pi32)), z3.fpLT(phb[0], pi32), z3.fpGEQ(v, zero), z3.fpLEQ(v, pi32)],
                     z3.And(z3.fpGEQ(na, z3.fpNeg(pi32)), z3.fpLT(na, pi32)), replay=rpb, timeout=600, sample=False)
            ck.second = sec_
            ck.mode = "REAL with the symbol PI (float32 multiples of pi identified with it); FP32 for phase.fp32.*"

    # ---- initial_gait_phase
    tri = trace(lambda: gait.initial_gait_phase(), argnames=[], label="g1.gait.initial_gait_phase")
    ck.encoded(tri)
    iti = PiInterp()
    p0 = tri.run(iti, tri.symbols(iti))[tri.out_names[0]]
    z = iti.o.z
    prove(ck, "phase.initial", PI_BOUNDS, conj([z3.And(z(p0[i]) >= -PI, z(p0[i]) <= PI) for i in range(2)] + [half_cycle(z(p0[0]), z(p0[1]))]), nonlinear=True,
             replay=lambda res: (bool(abs(abs(float(gait.initial_gait_phase()[1] - gait.initial_gait_phase()[0])) - math.pi) > 1e-5), {"initial_gait_phase": f64(gait.initial_gait_phase()).tolist()}))

    # ---- desired_foot_height: cubic Bezier, real arithmetic
    trf = trace(lambda p, h: gait.desired_foot_height(p, h), jnp.zeros(2), jnp.array(0.15), argnames=["phase", "h"], label="g1.gait.desired_foot_height")
    ck.encoded(trf)
    concrete.validate(ck, trf, n=3, seed=ck.seed, gen=lambda n, av, rng: jnp.asarray(rng.uniform(-3, 3, size=av.shape), av.dtype))
    itf = PiInterp()
    Sf = trf.symbols(itf)
    hf = trf.run(itf, Sf)[trf.out_names[0]]
    p, h = Sf["phase"], Sf["h"][()]
    pref = PI_BOUNDS + [h >= 0] + [z3.And(p[i] >= -PI, p[i] <= PI) for i in range(2)]

    def rpf(pred):
        def go(res):
            vals = [concrete.model_leaf(res, Sf[n], av, None) for n, av in zip(trf.in_names, trf.in_avals)]
            return pred(f64(vals[0]), float(vals[1]), f64(concrete.run_real(trf, vals)[0]))
        return go
    prove(ck, "foot.range", pref, conj([z3.And(hf[i] >= 0, hf[i] <= h) for i in range(2)]), nonlinear=True, timeout=60,
             replay=rpf(lambda pp, hh, r: (bool(np.any(r < -1e-5) or np.any(r > hh + 1e-5)), {"phase": pp.tolist(), "swing_height": hh, "desired_height": r.tolist()})))

    def at(val):
        real = f64(gait.desired_foot_height(jnp.array([val, val], jnp.float32), jnp.array(0.15)))
        return real
    prove(ck, "foot.zero_at_minus_pi", pref + [p[0] == -PI], hf[0] == 0, nonlinear=True,
             replay=lambda res: (bool(abs(at(-math.pi)[0]) > 1e-5), {"desired_height_at_minus_pi": at(-math.pi).tolist()}))
    prove(ck, "foot.peak_at_zero", pref + [p[0] == 0], hf[0] == h, nonlinear=True,
             replay=lambda res: (bool(abs(at(0.0)[0] - 0.15) > 1e-5), {"desired_height_at_0": at(0.0).tolist(), "swing_height": 0.15}))
    prove(ck, "foot.zero_at_plus_pi", pref + [p[0] == PI], hf[0] == 0, nonlinear=True,
             replay=lambda res: (bool(abs(at(math.pi)[0]) > 1e-5), {"desired_height_at_pi": at(math.pi).tolist()}))
    control(ck, "control.foot.peak_at_half_pi", pref + [p[0] * 2 == PI], hf[0] == h, nonlinear=True)
    control(ck, "control.foot.below_half_height", pref, hf[0] * 2 <= h, nonlinear=True)


# ================================================================== one control step
def sec_transition(ck, task, env, stub, st_example):
    def f_tr(env, s, a, k):
        with stub, stubs.prng_stubs():
            return env.transition(s, a, key=k)
    tr = trace(f_tr, env, st_example, jnp.zeros(29, jnp.float32), jr.key(0), argnames=["env", "s", "a", "k"], label=f"{type(env).__name__}.transition (AbstractG1Env.transition, physics and PRNG stubbed)")
    ck.encoded(tr)
    it = PiInterp()
    used = set()
    for e in tr.jaxpr.eqns:
        used |= {id(v) for v in e.invars}
    used |= {id(v) for v in tr.jaxpr.outvars}
    zero = {n: it.lift(np.zeros(av.shape, av.dtype)) for n, v, av in zip(tr.in_names, tr.jaxpr.invars, tr.in_avals) if id(v) not in used and "key" not in str(av.dtype)}
    S = tr.symbols(it, given=zero)
    out = tr.run(it, S)
    ph, f, dt = S["s_gait_phase"], S["s_gait_frequency"][()], S["env_dt"][()]
    new = out["gait_phase"]
    pre = phase_pre(ph, f, dt) + stubs.contracts(it)
    inc = 2 * PI * f * dt

    def rp(res):
        # the phase update of the real transition is re-run through the real jaxpr with the model's inputs (no physics needed: it does not depend on it)
        ins, outs = bind(tr, S, res, it)
        got = f64(outs["gait_phase"])
        pin, fin, din = f64(ins["s_gait_phase"]), float(ins["s_gait_frequency"]), float(ins["env_dt"])
        exp = pin + 2 * math.pi * fin * din
        exp = (exp + math.pi) % (2 * math.pi) - math.pi
        bad = bool(np.any(np.minimum(np.abs(got - exp), np.abs(2 * math.pi - np.abs(got - exp))) > 1e-3)) or abs(float(outs["gait_frequency"]) - fin) > 1e-6
        bad = bad or bool(np.any(np.abs(got) > math.pi + 1e-4)) or abs(abs(got[1] - got[0]) - math.pi) > 1e-3 and abs(abs(pin[1] - pin[0]) - math.pi) < 1e-6
        return bad, {"gait_phase": pin.tolist(), "gait_frequency": fin, "dt": din, "next_gait_phase(real code)": got.tolist(), "expected": exp.tolist(),
                     "next_gait_frequency": float(outs["gait_frequency"])}
    prove(ck, f"phase.fmod_quotient_in_range@transition.{task}", pre, conj(list(it.o.rem_side)), nonlinear=True, replay=rp)
    goal = conj([z3.And(new[i] >= -PI, new[i] <= PI, z3.Or(new[i] == ph[i] + inc, new[i] == ph[i] + inc - 2 * PI)) for i in range(2)]
                + [eq_elem(out["gait_frequency"][()], f), eq_arr(out["command"], S["s_command"])])
    prove(ck, f"transition.advances_once@{task}", pre, goal, nonlinear=True, replay=rp, timeout=120)
    prove(ck, f"transition.half_cycle_kept@{task}", pre + [half_cycle(ph[0], ph[1])], half_cycle(new[0], new[1]), nonlinear=True, replay=rp, timeout=120)
    control(ck, f"control.transition.advances_twice@{task}", pre, conj([z3.Or(new[i] == ph[i] + 2 * inc, new[i] == ph[i] + 2 * inc - 2 * PI, new[i] == ph[i] + 2 * inc - 4 * PI) for i in range(2)]),
               nonlinear=True)
    control(ck, f"control.transition.uses_mean_frequency@{task}", pre, conj([z3.Or(new[i] == ph[i] + 2 * PI * z3.Q(11, 8) * dt, new[i] == ph[i] + 2 * PI * z3.Q(11, 8) * dt - 2 * PI) for i in range(2)]),
               nonlinear=True)


def prove(ck, oid, assumptions, goal, **kw):
    """default solver first (it also finds counterexamples in the presence of Key-sorted terms), Ackermann + nlsat when it does not decide"""
    kw.pop("nonlinear", None)
    kw.setdefault("timeout", 40)     # also bounds the second-solver re-check of the thorough tier
    if (ck.only is not None and oid != ck.only) or (isconc(goal) and goal):
        return ck.prove(oid, assumptions, goal, **kw)
    fs = [a for a in assumptions if not (isconc(a) and a)] + [neg(goal)]
    fs += solve.instantiate_axioms(fs)
    pre = solve.decide(fs, timeout_s=15, nonlinear=False)
    ck.solver_time += pre.time
    ck.queries += 1
    return ck.prove(oid, assumptions, goal, nonlinear=pre.status not in ("sat", "unsat"), **kw)


def sat_query(ck, oid, formulas, kind):
    """witness / negative control: default solver first, Ackermann + nlsat if it does not answer"""
    fs = [f for f in formulas if not (isconc(f) and f)]
    nl = False
    if not any(isconc(f) and not f for f in fs):
        pre = solve.decide(fs + solve.instantiate_axioms(fs), timeout_s=20, nonlinear=False)
        nl = pre.status != "sat"
    return ck.witness(oid, formulas, nonlinear=nl, kind=kind)


def witness(ck, oid, formulas, **kw):
    return sat_query(ck, oid, formulas, "witness")


def control(ck, oid, assumptions, wrong_goal, **kw):
    return sat_query(ck, oid, list(assumptions) + [neg(wrong_goal)], "control")


def main():
    ck = Check("C20", "Unitree G1 randomisation ranges and gait phase coherence")
    ck.mode = "REAL"
    ck.stub(*stubs.STUB_NOTES)
    ck.bound(model="actual G1 model sizes (nbody 31, 29 actuated dofs, 27 contact pairs); ranges of the randomize_* functions symbolic with lo <= hi, nominal values symbolic >= 0; "
             "in initial() the ranges are the environment's configured (static) values", fmod_quotient=f"|x / (2 pi)| < {FMOD_K + 1} (proved as obligation phase.fmod_quotient_in_range)",
             frequency="0 <= gait_frequency, gait_frequency * dt <= 1/2", pi="3.14159 < PI < 3.14160 (symbol)")
    ck.out("float32 rounding other than in the wrapped gait phase (quick tier: all of it; thorough tier: phase.fp32.* decide the half-open range [-pi32, pi32) bit-precisely for increments up to pi32)", "negative gait frequencies and gait_frequency*dt > 1/2",
           "distribution (uniformity / independence) of the random draws", "what MJX computes in forward()/step() (uninterpreted)")
    tasks = {"locomotion": g1.G1Locomotion, "standing": g1.G1Standing, "standup": g1.G1Standup}
    envs = {}
    with ck.section("construct"):
        for t, c in tasks.items():
            envs[t] = c()
        e0 = envs["locomotion"]
        bad = [k for k, a, b in (("friction_loss", e0.nominal_friction_loss, e0.base_model.dof_frictionloss[6:]), ("armature", e0.nominal_armature, e0.base_model.dof_armature[6:]),
                                 ("body_mass", e0.nominal_body_mass, e0.base_model.body_mass)) if not np.array_equal(np.asarray(a), np.asarray(b))]
        ck.fact("rand.nominal_values_are_the_base_model", not bad, f"env.nominal_* equal the corresponding entries of env.base_model; differing: {bad}")
        fq = np.asarray(e0.gait_frequency_range)
        ck.fact("phase.precondition.default_config", bool(fq[0] >= 0 and fq[1] * float(e0.dt) <= 0.5), f"default gait_frequency_range {fq.tolist()} and dt {float(e0.dt)}: 0 <= f, f*dt <= 1/2")
    varied = ["body_mass", "dof_armature", "dof_frictionloss", "pair_friction"]
    with ck.section("randomize"):
        varied = sec_rand(ck, envs["locomotion"])
    with ck.section("gait"):
        sec_gait(ck)
    stub = None
    with ck.section("physics-stub"):
        stub = MjxStub(envs["locomotion"].base_model, model_operands=tuple(varied))
        ck.stub(*stub.notes(label="measured on the G1 model"))
        ck.log(f"write-set of the real mjx.forward/step on the G1 model: {stub.stats}")
    examples = {}
    if stub is not None:
        for t in tasks:
            with ck.section(f"initial.{t}"):
                tr, S, out, it = sec_initial(ck, t, envs[t], stub, varied)
                examples[t] = tr
        for t in (tasks if ck.thorough else ["locomotion", "standup"]):
            with ck.section(f"transition.{t}"):
                with stub, stubs.prng_stubs():
                    ex = jax.eval_shape(lambda k: envs[t].initial(key=k), jr.key(0))
                sec_transition(ck, t, envs[t], stub, ex)
    ck.finish("randomize_* and randomize_model are traced on the real G1 mjx.Model pytree with symbolic ranges and nominal values: every randomised entry is shown to lie in its range "
              "around the nominal value and every other model leaf is the input leaf itself. initial() of the three tasks is traced with the physics replaced by uninterpreted functions "
              "of (qpos, qvel, ctrl, randomised model leaves) whose write-set is read from the IR of the real mjx.forward: command and frequency ranges, the randomised model stored on the "
              "state, and that all derived Data leaves are those of one forward() of the returned configuration. The gait helpers and the phase update inside AbstractG1Env.transition are "
              "executed with pi as an interval-bounded symbol and fmod as an exact ite-chain: range, increment modulo 2*pi, half-cycle offset (inductive, holds initially), and the cubic "
              "Bezier foot height in [0, h] with zeros at -pi/pi and its peak at 0.")


if __name__ == "__main__":
    main()
