"""C17, classic-control half: CartPole, MountainCar, ContinuousMountainCar and Acrobot realise the Gymnasium MDPs they document.

For every environment the real `dynamics`, `clip`, `reward`, `terminal`, `initial` and the spaces built by the real
constructor are traced and executed over z3 reals.  Constructor parameters are symbolic: the constructor itself is traced
(`Env(**params)` with abstract parameters), its outputs are the array fields every other method reads, so derived fields
(total mass, observation-space bounds ...) are the terms the real constructor computes.  A second configuration
(`params=default`) substitutes lerax's own default arguments and compares with the constants of the INSTALLED Gymnasium
class.  Oracles are the reference models of refs/classic.py (validated against the installed Gymnasium in this run).
"""
import inspect
import math
from fractions import Fraction

import diffrax
import jax
import jax.numpy as jnp
import numpy as np
import z3
from jax import random as jr

from jaxsmt import concrete, solve, stubs
from jaxsmt.core import conj, eq_arr, eq_elem, implies, neg
from jaxsmt.remq import RemInterp
from jaxsmt.ops import isconc
from jaxsmt.trace import trace

from lerax.env.classic_control import Acrobot, CartPole, ContinuousMountainCar, MountainCar
from lerax.env.classic_control.acrobot import AcrobotState
from lerax.env.classic_control.cartpole import CartPoleState
from lerax.env.classic_control.continuous_mountain_car import ContinuousMountainCarState
from lerax.env.classic_control.mountain_car import MountainCarState

from refs import classic as R

SPECS = {
    "cartpole": dict(
        cls=CartPole, state=CartPoleState, ydim=4, action=("discrete", 2),
        params=[("gravity", "gravity"), ("cart_mass", "masscart"), ("pole_mass", "masspole"), ("half_length", "length"), ("force_mag", "force_mag"),
                ("theta_threshold_radians", "theta_threshold_radians"), ("x_threshold", "x_threshold"), ("dt", "tau")],
        field=R.cartpole_field, limits=R.cartpole_limits, reward=R.cartpole_reward, terminal=R.cartpole_terminal, initial=R.cartpole_initial,
        obs_bounds=R.cartpole_obs_bounds),
    "mountain_car": dict(
        cls=MountainCar, state=MountainCarState, ydim=2, action=("discrete", 3),
        params=[(k, k) for k in R.MOUNTAINCAR_PARAMS] + [("dt", None)],
        field=R.mountaincar_field, limits=R.mountaincar_limits, reward=R.mountaincar_reward, terminal=R.mountaincar_terminal, initial=R.mountaincar_initial,
        obs_bounds=R.mountaincar_obs_bounds),
    "continuous_mountain_car": dict(
        cls=ContinuousMountainCar, state=ContinuousMountainCarState, ydim=2, action=("box",),
        params=[(k, k) for k in R.CMC_PARAMS] + [("dt", None)],
        field=R.cmc_field, limits=R.cmc_limits, reward=R.cmc_reward, terminal=R.cmc_terminal, initial=R.cmc_initial, obs_bounds=R.cmc_obs_bounds),
    "acrobot": dict(
        cls=Acrobot, state=AcrobotState, ydim=4, action=("discrete", 3),
        params=[("gravity", "g"), ("link_length_1", "LINK_LENGTH_1"), ("link_length_2", "LINK_LENGTH_2"), ("link_mass_1", "LINK_MASS_1"),
                ("link_mass_2", "LINK_MASS_2"), ("link_com_pos_1", "LINK_COM_POS_1"), ("link_com_pos_2", "LINK_COM_POS_2"), ("link_moi", "LINK_MOI"),
                ("max_vel_1", "MAX_VEL_1"), ("max_vel_2", "MAX_VEL_2"), ("torque_max_noise", None), ("torques", "AVAIL_TORQUE"), ("dt", "dt")],
        field=None, limits=None, reward=R.acrobot_reward, terminal=R.acrobot_terminal, initial=R.acrobot_initial, obs_bounds=R.acrobot_obs_bounds),
}


def lerax_defaults(cls):
    sig = inspect.signature(cls.__init__)
    return {k: v.default for k, v in sig.parameters.items() if v.default is not inspect.Parameter.empty and k not in ("solver", "stepsize_controller")}


class Ctx:
    """one environment in one parameter configuration: constructor outputs as terms + the reference's parameter record"""

    def __init__(self, ck, name, mode, solver=None):
        sp = SPECS[name]
        self.name, self.sp, self.mode = name, sp, mode
        self.it = RemInterp()
        self.so = R.SymOps(self.it.o)
        dflt = lerax_defaults(sp["cls"])
        self.lnames = [l for l, _ in sp["params"]]
        static = {} if solver is None else {"solver": solver}
        self.static = static
        cls = sp["cls"]
        self.trc = trace(lambda *v: cls(**dict(zip(self.lnames, v)), **static), *[jnp.asarray(dflt[l], jnp.float32) for l in self.lnames],
                         argnames=self.lnames, label=f"{cls.__name__}.__init__")
        if mode == "symbolic":
            self.C = self.trc.symbols(self.it)
        else:
            # lerax's own default arguments (float32 values, exact rationals); derived fields by the traced constructor over the reals
            self.C = {l: self.it.lift(np.asarray(dflt[l], np.float32)) for l in self.lnames}
        self.E = self.trc.run(self.it, self.C)
        self.env = cls(**static)
        if mode == "symbolic":
            kw = {}
            for l, g in sp["params"]:
                if g is None:
                    continue
                c = self.C[l]
                kw[g] = R.Num(c[()], self.so) if c.shape == () else [R.Num(x, self.so) for x in c]
            self.p = R.P(self.so, **kw)
            self.gym = None
        else:
            self.gym, d = R.gym_params(name)
            self.gymd = d
            self.p = R.P(self.so, **{k: (v if not isinstance(v, list) else [R.Num(self.so.const(t), self.so) for t in v]) for k, v in d.items()})
        self.tag = f"params={mode}"

    def given(self, extra=None):
        g = {"env_" + k: v for k, v in self.E.items()}
        g.update(extra or {})
        return g

    def float_params(self, res):
        """the reference's parameters as floats: Gymnasium's constants, or the model's values of the symbolic ones"""
        if self.mode != "symbolic":
            return R.float_params(self.gymd)
        kw = {}
        fo = R.FloatOps()
        for l, g in self.sp["params"]:
            if g is None:
                continue
            c = self.C[l]
            vals = [float(solve.num(res.value(x))) if not isconc(x) else float(x) for x in c.reshape(-1)]
            kw[g] = vals[0] if c.shape == () else [R.Num(v, fo) for v in vals]
        return R.P(fo, **kw)

    def sane(self):
        """replay-friendly corner of the parameter space (used only to pick a model that survives float32, never to prove)"""
        if self.mode != "symbolic":
            return []
        out = []
        for l in self.lnames:
            for x in self.C[l].reshape(-1):
                if l in ("min_position", "min_action"):
                    out += [x >= -2, x <= -1]
                elif l in ("goal_velocity", "torque_max_noise"):
                    out += [x >= 0, x <= 0.01]
                elif l == "torques":
                    out += [x >= -2, x <= 2]
                elif l == "goal_position":
                    out += [x >= 0.25, x <= 0.5]
                else:
                    out += [x >= 0.5, x <= 2]
        return out


def fl(o, xs):
    return [R.Num(float(x), o) for x in xs]


def mvals(res, arr):
    return [float(solve.num(res.value(x))) if not isconc(x) else float(x) for x in np.asarray(arr, dtype=object).reshape(-1)]


def gym_land_on(name, y2, a):
    """One step of the INSTALLED Gymnasium MountainCar / MountainCarContinuous env that lands on state y2 under action a
    (its update inverted: position -= new velocity, velocity -= acceleration), to cite the library's own reward / flag."""
    g, d = R.gym_params(name)
    x2, v2 = float(y2[0]), float(y2[1])
    if not (abs(v2) < d["max_speed"] and d["min_position"] < x2 < d["max_position"]):
        return None
    x0 = x2 - v2
    if name == "continuous_mountain_car":
        force = min(max(a, d["min_action"]), d["max_action"])
        v0 = v2 - (force * d["power"] - 0.0025 * math.cos(3 * x0))
        act = np.array([a], dtype=np.float64)
    else:
        v0 = v2 - ((int(a) - 1) * d["force"] - d["gravity"] * math.cos(3 * x0))
        act = int(a)
    g.reset(seed=0)
    g.state = np.array([x0, v0], dtype=np.float64)
    ob, rew, term, trunc, _ = g.step(act)
    return {"gymnasium_class": type(g).__name__, "pre_state": [x0, v0], "action": float(a), "next_state": [float(v) for v in np.asarray(ob).reshape(-1)],
            "reward": float(rew), "terminated": bool(term)}


def replay_with(tr, S, it, oracle, cite=None, wrap=None):
    def rp(res):
        t = tr
        if wrap is not None:
            t = wrap
        ok, info = concrete.replay_outputs(t, S, res, uf_apps=it.uf_apps, oracle=oracle)
        if cite is not None:
            try:
                info["gymnasium"] = cite(res)
            except Exception as ex:  # noqa: BLE001
                info["gymnasium"] = {"citation_error": repr(ex)}
        return ok, info
    return rp


def bounded(terms, lo=-3, hi=3):
    return [z3.And(t >= lo, t <= hi) for t in terms if not isconc(t)]


def close_terms(impl, ref, tol=Fraction(1, 100)):
    cs = []
    for a, b in zip(np.asarray(impl, dtype=object).reshape(-1), np.asarray(ref, dtype=object).reshape(-1)):
        if isconc(a) and isconc(b):
            cs.append(abs(a - b) <= tol)
        elif (not isconc(a) and z3.is_bool(a)) or isinstance(a, bool) or isinstance(b, bool):
            cs.append(eq_elem(a, b))
        else:
            cs.append(z3.And(a - b <= tol, b - a <= tol) if not (isconc(a) or isconc(b)) else z3.And(_z(a) - _z(b) <= tol, _z(b) - _z(a) <= tol))
    return conj(cs)


def _z(x):
    if isconc(x):
        if isinstance(x, float) and (x in (math.inf, -math.inf)):
            from jaxsmt.ops import INF
            return INF if x > 0 else -INF
        return z3.RealVal(Fraction(x))
    return x


def action_values(sp):
    return list(range(sp["action"][1])) if sp["action"][0] == "discrete" else [None]


def example_action(sp):
    return jnp.array(0) if sp["action"][0] == "discrete" else jnp.array(0.0)


def in_action_space(cx, a):
    sp = cx.sp
    if sp["action"][0] == "discrete":
        return [a >= 0, a < sp["action"][1]]
    lo, hi = R.cmc_action_bounds(cx.p)
    return [a >= lo.v, a <= hi.v]


# ------------------------------------------------------------------------------------------------ obligations
def ob_vector_field(ck, cx, first):
    sp, it, name = cx.sp, cx.it, cx.name
    env = cx.env
    tr = trace(lambda e, y, a: e.dynamics(jnp.array(0.0), y, a), env, jnp.zeros(sp["ydim"]), example_action(sp), argnames=["env", "y", "a"],
               label=f"{sp['cls'].__name__}.dynamics")
    if first:
        ck.encoded(cx.trc, tr)
        concrete.validate(ck, tr, n=2, seed=ck.seed, gen=_gen(sp))
    for a in action_values(sp):
        extra = {} if a is None else {"a": np.array(a, dtype=object)}
        S = tr.symbols(it, given=cx.given(extra))
        out = tr.run(it, S)
        y = R.nums(cx.so, list(S["y"]))
        if name == "acrobot":
            tq = R.acrobot_torque(cx.p, a, cx.p.AVAIL_TORQUE)
            ref = R.values(R.acrobot_field(cx.p, y, tq))
        else:
            ref = R.values(sp["field"](cx.p, y, a if a is not None else S["a"][()]))
        ref = np.array(ref, dtype=object)
        goal = eq_arr(out["x"], ref)

        def cite(res, S=S, a=a):
            fo = R.FloatOps()
            pf = cx.float_params(res)
            yv = mvals(res, S["y"])
            av = a if a is not None else mvals(res, S["a"])[0]
            if name == "acrobot":
                f = R.acrobot_field(pf, fl(fo, yv), R.acrobot_torque(pf, av, pf.AVAIL_TORQUE))
            else:
                f = sp["field"](pf, fl(fo, yv), av)
            return {"reference_vector_field(float64)": R.values(f), "note": "reference validated against the installed Gymnasium in this run"}
        aid = "" if a is None else f",a={a}"
        margin = implies(conj(bounded(list(S["y"])) + cx.sane() + ([] if a is not None else bounded([S["a"][()]]))), close_terms(out["x"], ref))
        ck.prove(f"{name}.vector_field@{cx.tag}{aid}", [], goal, nonlinear=True, replay=replay_with(tr, S, it, {"x": ref}, cite), margin_goal=margin, timeout=120)
        if first and a in (None, 0):
            # negative control: a plausible wrong field (cos(2x) hill / reversed pole-mass coupling / missing Coriolis term) must be refuted
            wrong = np.array(list(ref), dtype=object)
            k = {"cartpole": 3, "mountain_car": 1, "continuous_mountain_car": 1, "acrobot": 3}[name]
            yy = S["y"]
            bump = {"cartpole": lambda: it.o.unary("sin", yy[2]), "mountain_car": lambda: it.o.unary("cos", it.o.mul(Fraction(2), yy[0])),
                    "continuous_mountain_car": lambda: it.o.unary("cos", it.o.mul(Fraction(2), yy[0])), "acrobot": lambda: it.o.mul(yy[2], it.o.unary("sin", yy[1]))}[name]()
            wrong[k] = it.o.add(wrong[k], it.o.mul(Fraction(1, 100), bump))
            ck.control(f"control.{name}.vector_field_perturbed", [], eq_arr(out["x"], wrong), nonlinear=True)


def _gen(sp):
    n = sp["action"][1] if sp["action"][0] == "discrete" else None

    def gen(name, av, rng):
        if name == "a" and n is not None:
            return jnp.asarray(rng.integers(0, n), dtype=av.dtype)
        if name == "env_torques":
            return None
        return None
    return gen


def ob_limits(ck, cx, first):
    sp, it, name = cx.sp, cx.it, cx.name
    tr = trace(lambda e, y: e.clip(y), cx.env, jnp.zeros(sp["ydim"]), argnames=["env", "y"], label=f"{sp['cls'].__name__}.clip")
    if first:
        ck.encoded(tr)
        concrete.validate(ck, tr, n=2, seed=ck.seed)
    S = tr.symbols(it, given=cx.given())
    out = tr.run(it, S)
    y = R.nums(cx.so, list(S["y"]))
    if name == "acrobot":
        cx.so.int_candidates = list(it.quotients)
        goal = R.acrobot_limits_ok(cx.p, y, R.nums(cx.so, list(out["x"]))).v
        defs = list(it.assumptions)

        def rp(res):
            keys = concrete.KeyBinding(res)
            vals = [concrete.model_leaf(res, S[n], av, keys) for n, av in zip(tr.in_names, tr.in_avals)]
            real = np.asarray(concrete.run_real(tr, vals)[0], dtype=np.float64)
            fo = R.FloatOps()
            yv = [float(v) for v in np.asarray(vals[tr.in_names.index("y")])]
            ok = bool(R.acrobot_limits_ok(cx.float_params(res), fl(fo, yv), fl(fo, real)).v)
            from gymnasium.envs.classic_control import acrobot as gac
            pf = cx.float_params(res)
            img = [gac.wrap(yv[0], -math.pi, math.pi), gac.wrap(yv[1], -math.pi, math.pi), gac.bound(yv[2], -pf.MAX_VEL_1.v, pf.MAX_VEL_1.v), gac.bound(yv[3], -pf.MAX_VEL_2.v, pf.MAX_VEL_2.v)]
            return (not ok), {"raw_integrator_output": yv, "real_code_clip": real.tolist(), "gymnasium_wrap_bound_of_the_same_raw_state": [float(v) for v in img],
                              "property": "angles wrapped into [-pi,pi] modulo 2*pi, velocities bounded", "function": tr.label}
        margin = implies(conj(bounded(list(S["y"]), -20, 20) + cx.sane()), goal)
        ck.prove(f"{name}.limits@{cx.tag}", defs, goal, replay=rp, margin_goal=implies(conj(defs), margin))
        if first:
            pi = R.Num(cx.so.const(math.pi), cx.so)
            o0 = R.Num(out["x"][0], cx.so)
            ck.control(f"control.{name}.limits_wrap_to_0_2pi", defs, ((o0 >= 0) & (o0 <= 2 * pi)).v)
    else:
        ref = np.array(R.values(sp["limits"](cx.p, y)), dtype=object)
        goal = eq_arr(out["x"], ref)

        def cite(res):
            fo = R.FloatOps()
            return {"reference_limits(float64)": R.values(sp["limits"](cx.float_params(res), fl(fo, mvals(res, S["y"])))),
                    "note": "Gymnasium: 'if position == self.min_position and velocity < 0: velocity = 0' after clipping; reference validated against the installed class in this run"}
        margin = implies(conj(bounded(list(S["y"])) + cx.sane()), close_terms(out["x"], ref, Fraction(1, 1000)))
        ck.prove(f"{name}.limits@{cx.tag}", [], goal, replay=replay_with(tr, S, it, {"x": ref}, cite), margin_goal=margin)
        if first and name != "cartpole":
            wrong = np.array(R.values([R.bound(y[0], cx.p.min_position, cx.p.max_position), R.bound(y[1], -cx.p.max_speed, cx.p.max_speed * 2)]), dtype=object)
            ck.control(f"control.{name}.limits_wrong_speed_limit", [], eq_arr(out["x"], wrong))
    # declared spaces built by the real constructor
    lo, hi = sp["obs_bounds"](cx.p)
    oracle = {"observation_space_low": np.array(R.values(lo), dtype=object), "observation_space_high": np.array(R.values(hi), dtype=object)}
    if name == "continuous_mountain_car":
        alo, ahi = R.cmc_action_bounds(cx.p)
        oracle["action_space_low"] = np.array(alo.v, dtype=object)
        oracle["action_space_high"] = np.array(ahi.v, dtype=object)
    goal = conj([eq_arr(cx.E[k], v) for k, v in oracle.items()])
    if cx.mode == "symbolic":
        rp = lambda res: concrete.replay_outputs(cx.trc, cx.C, res, oracle=oracle)
    else:
        def rp(res):
            e = cx.sp["cls"]()
            real = {"observation_space_low": np.asarray(e.observation_space.low).tolist(), "observation_space_high": np.asarray(e.observation_space.high).tolist()}
            gs = cx.gym.observation_space
            gymv = {"observation_space_low": np.asarray(gs.low).tolist(), "observation_space_high": np.asarray(gs.high).tolist()}
            return real != gymv, {"real_code": real, "installed_gymnasium": gymv}
    ck.prove(f"{name}.limits.declared_spaces@{cx.tag}", [], goal, replay=rp)
    if first:
        n = sp["action"][1] if sp["action"][0] == "discrete" else None
        if n is not None:
            gn = R.gym_params(name)[0].action_space.n
            ck.fact(f"{name}.limits.action_space_size", cx.env.action_space.n == gn == n, f"lerax Discrete({cx.env.action_space.n}), Gymnasium Discrete({gn})")


def ob_reward_terminal(ck, cx, first):
    sp, it, name = cx.sp, cx.it, cx.name
    St = sp["state"]
    t0 = jnp.array(0.0)
    trr = trace(lambda e, y, a, y2, k: e.reward(St(y=y, t=t0), a, St(y=y2, t=t0), key=k), cx.env, jnp.zeros(sp["ydim"]), example_action(sp), jnp.zeros(sp["ydim"]),
                jr.key(0), argnames=["env", "y", "a", "y2", "key"], label=f"{sp['cls'].__name__}.reward")
    trt = trace(lambda e, y, k: e.terminal(St(y=y, t=t0), key=k), cx.env, jnp.zeros(sp["ydim"]), jr.key(0), argnames=["env", "y", "key"], label=f"{sp['cls'].__name__}.terminal")
    if first:
        ck.encoded(trr, trt)
        concrete.validate(ck, trr, n=2, seed=ck.seed, gen=_gen(sp))
        concrete.validate(ck, trt, n=2, seed=ck.seed)
    # ---- termination predicate
    S = trt.symbols(it, given=cx.given())
    out = trt.run(it, S)
    y = R.nums(cx.so, list(S["y"]))
    ref = sp["terminal"](cx.p, y).v
    oracle = {"x": np.array(ref, dtype=object)}

    def cite_t(res, S=S):
        fo = R.FloatOps()
        yv = mvals(res, S["y"])
        d = {"reference_terminated(float64)": bool(sp["terminal"](cx.float_params(res), fl(fo, yv)).v)}
        if cx.mode != "symbolic" and name in ("mountain_car", "continuous_mountain_car"):
            d["installed_gymnasium_step_landing_on_this_state"] = gym_land_on(name, yv, 0)
            d["installed_gymnasium_goal_position"] = cx.gymd["goal_position"]
            d["lerax_default_goal_position"] = float(lerax_defaults(sp["cls"])["goal_position"])
        return d
    gaps = _gaps(cx, S["y"])
    margin = implies(conj(bounded(list(S["y"])) + cx.sane() + gaps), eq_arr(out["x"], oracle["x"]))
    ck.prove(f"{name}.terminal@{cx.tag}", [], eq_arr(out["x"], oracle["x"]), replay=replay_with(trt, S, it, oracle, cite_t), margin_goal=margin)
    if first:
        ck.control(f"control.{name}.terminal_negated", [], eq_arr(out["x"], np.array(neg(ref), dtype=object)))
    # ---- reward of a transition that starts in a non-terminal state and uses an action of the action space
    S = trr.symbols(it, given=cx.given())
    out = trr.run(it, S)
    y, y2 = R.nums(cx.so, list(S["y"])), R.nums(cx.so, list(S["y2"]))
    a = S["a"][()]
    ref = sp["reward"](cx.p, y, a, y2).v
    oracle = {"x": np.array(ref, dtype=object)}
    pre = in_action_space(cx, a) + [neg(sp["terminal"](cx.p, y).v)]

    def cite_r(res, S=S):
        fo = R.FloatOps()
        yv, y2v, av = mvals(res, S["y"]), mvals(res, S["y2"]), mvals(res, S["a"])[0]
        d = {"reference_reward(float64)": float(sp["reward"](cx.float_params(res), fl(fo, yv), av, fl(fo, y2v)).v)}
        if cx.mode != "symbolic" and name in ("mountain_car", "continuous_mountain_car"):
            d["installed_gymnasium_step_landing_on_next_state"] = gym_land_on(name, y2v, av)
        return d
    gaps = _gaps(cx, S["y"]) + _gaps(cx, S["y2"])
    margin = implies(conj(bounded(list(S["y"]) + list(S["y2"])) + cx.sane() + gaps), close_terms(out["x"], oracle["x"]))
    ck.prove(f"{name}.reward@{cx.tag}", pre, eq_arr(out["x"], oracle["x"]), nonlinear=(name == "continuous_mountain_car"),
             replay=replay_with(trr, S, it, oracle, cite_r), margin_goal=implies(conj(pre), margin))
    if first:
        # vacuity: a goal / terminal step exists (non-terminal pre-state, terminal successor)
        ck.witness(f"witness.{name}.terminal_step_exists", pre + [sp["terminal"](cx.p, y2).v] + cx.sane(), nonlinear=False)
        ck.control(f"control.{name}.reward_plus_one_hundredth", pre, eq_arr(out["x"], np.array(it.o.add(ref, Fraction(1, 100)), dtype=object)),
                   nonlinear=(name == "continuous_mountain_car"))


def _gaps(cx, y):
    """keep replay models away from the comparison boundaries (float32 flips); used in margin queries only"""
    p, name = cx.p, cx.name
    g = Fraction(1, 100)

    def away(t, b):
        t, b = _z(t), _z(b.v if isinstance(b, R.Num) else b)
        return z3.Or(t - b >= g, b - t >= g)
    if name == "cartpole":
        return [away(y[0], p.x_threshold), away(y[0], -p.x_threshold), away(y[2], p.theta_threshold_radians), away(y[2], -p.theta_threshold_radians)]
    if name in ("mountain_car", "continuous_mountain_car"):
        out = [away(y[0], p.goal_position), away(y[1], p.goal_velocity), y[1] >= -Fraction(6, 100), y[1] <= Fraction(6, 100), y[0] >= -1, y[0] <= Fraction(55, 100)]
        if cx.mode != "symbolic":
            out.append(away(y[0], R.Num(Fraction(1, 2), cx.so)))
        return out
    c0, c1 = cx.it.o.unary("cos", y[0]), cx.it.o.unary("cos", cx.it.o.add(y[0], y[1]))
    return [away(-c0 - c1, R.Num(Fraction(1), cx.so))]


def ob_initial(ck, name):
    cx = Ctx(ck, name, "default")
    sp, it = cx.sp, cx.it
    def fn(e, k):
        # the PRNG contract stub is part of the traced function, so the replay binds the model's draw u
        with stubs.prng_stubs():
            return e.initial(key=k).y
    tr = trace(fn, cx.env, jr.key(0), argnames=["env", "key"], label=f"{sp['cls'].__name__}.initial")
    ck.encoded(tr)
    S = tr.symbols(it, given=cx.given())
    out = tr.run(it, S)
    us = [t for (nm, oi, idx, ops, t) in it.uf_apps if nm == "RAND_u01"]
    n_u = {"cartpole": 4, "acrobot": 4}.get(name, 1)
    ck.fact(f"{name}.initial_range.draws", len(us) == n_u, f"{len(us)} uniform draws feed the initial state (Gymnasium: {n_u})")
    if len(us) != n_u:
        return
    ref = np.array(R.values(sp["initial"](cx.p, R.nums(cx.so, us))), dtype=object)
    assume = stubs.contracts(it)

    def cite(res):
        lo, hi = {"cartpole": R.CARTPOLE_INITIAL_RANGE, "acrobot": R.ACROBOT_INITIAL_RANGE}.get(name, R.MOUNTAINCAR_INITIAL_RANGE)
        ks = jr.split(jr.key(ck.seed), 2000)
        ys = np.asarray(jax.vmap(lambda k: cx.env.initial(key=k).y)(ks))
        return {"gymnasium_initial_range": [lo, hi], "real_code_2000_draws_min": ys.min(0).tolist(), "real_code_2000_draws_max": ys.max(0).tolist(),
                "note": "the replay binds the uniform draw u of jax.random.uniform to the model's value; reference: low + (high-low)*u"}
    ck.prove(f"{name}.initial_range", assume, eq_arr(out["x"], ref), replay=replay_with(tr, S, it, {"x": ref}, cite),
             margin_goal=implies(conj(assume), close_terms(out["x"], ref, Fraction(1, 1000))))
    ck.witness(f"witness.{name}.initial_contract_satisfiable", assume)
    wrong = np.array([it.o.add(r, it.o.mul(Fraction(1, 10), us[0])) for r in ref], dtype=object)
    ck.control(f"control.{name}.initial_range_wider", assume, eq_arr(out["x"][:1], wrong[:1]))


def ob_euler(ck, mode, first):
    cx = Ctx(ck, "cartpole", mode, solver=diffrax.Euler())
    it = cx.it
    fn = lambda e, y, t, a, k: (lambda s: {"y": s.y, "t": s.t})(e.transition(CartPoleState(y=y, t=t), a, key=k))
    with stubs.ode_stub():
        tr = trace(fn, cx.env, jnp.zeros(4), jnp.array(0.0), jnp.array(0), jr.key(0), argnames=["env", "y", "t", "a", "key"], label="CartPole(solver=Euler).transition")
    if first:
        ck.encoded(tr)
        ck.stub(*stubs.ODE_NOTES)
        # the stub against the real diffrax.diffeqsolve (fn runs unstubbed here)
        concrete.validate(ck, tr, n=3, seed=ck.seed, gen=_gen_euler, label="CartPole(solver=Euler).transition: Euler stub vs real diffrax.diffeqsolve")
    for a in (0, 1):
        S = tr.symbols(it, given=cx.given({"a": np.array(a, dtype=object)}))
        out = tr.run(it, S)
        y = R.nums(cx.so, list(S["y"]))
        ref = np.array(R.values(R.cartpole_step(cx.p, y, a)), dtype=object)

        def cite(res, S=S, a=a):
            yv = mvals(res, S["y"])
            d = {"reference_step(float64)": R.values(R.cartpole_step(cx.float_params(res), fl(R.FloatOps(), yv), a))}
            if mode != "symbolic":
                g = cx.gym
                g.reset(seed=0)
                g.state = np.array(yv, dtype=np.float64)
                g.steps_beyond_terminated = None
                ob, rew, term, _, _ = g.step(a)
                d["installed_gymnasium_step"] = {"next_state": [float(v) for v in g.state], "reward": float(rew), "terminated": bool(term)}
            return d
        margin = implies(conj(bounded(list(S["y"]), -2, 2) + cx.sane()), close_terms(out["y"], ref, Fraction(1, 1000)))
        ck.prove(f"cartpole.euler_step@{cx.tag},a={a}", [], eq_arr(out["y"], ref), nonlinear=True, replay=replay_with(tr, S, it, {"y": ref}, cite), margin_goal=margin, timeout=120)
        if first and a == 0:
            # semi-implicit Euler (Gymnasium's other integrator) must be refuted
            f = R.cartpole_field(cx.p, y, a)
            tau = cx.p.tau
            xd = y[1] + tau * f[1]
            semi = np.array(R.values([y[0] + tau * xd, xd, y[2] + tau * (y[3] + tau * f[3]), y[3] + tau * f[3]]), dtype=object)
            ck.control("control.cartpole.euler_step_is_not_semi_implicit", [], eq_arr(out["y"], semi), nonlinear=True)


def _gen_euler(name, av, rng):
    if name == "a":
        return jnp.asarray(rng.integers(0, 2), dtype=av.dtype)
    if name in ("env_dt", "env_dt0"):
        return jnp.asarray(0.125, dtype=av.dtype)      # dt0 == dt as the constructor guarantees
    if name.startswith("env_") and av.shape == ():
        return jnp.asarray(np.round(rng.uniform(0.5, 2.0) * 8) / 8, dtype=av.dtype)
    if name == "t":
        return jnp.asarray(0.0, dtype=av.dtype)
    return None


def run(ck):
    ck.bound(classic_control="4 environments x {symbolic constructor parameters, lerax defaults vs installed Gymnasium constants}; states, actions, uniform draws symbolic reals; "
                             "discrete actions by complete case split")
    ck.stub(*stubs.STUB_NOTES[:1])
    ck.assume_note("rewards are compared on transitions that start in a non-terminal state and use an action of the action space (a terminal state has no outgoing transition in either library)")
    ck.out("float32 rounding (REAL mode; constants on both sides are the float32 values the code computes with)",
           "the discrete-time maps of MountainCar / ContinuousMountainCar / Acrobot as a whole: Gymnasium integrates the vector field with semi-implicit Euler / RK4 and applies the limits "
           "between the half-steps, lerax integrates the same field with a diffrax solver and applies the limits afterwards; compared are vector field, limits, reward, termination, "
           "initial range and declared spaces, as the statement says; only CartPole+Euler is compared as a step map",
           "which end point of [-pi, pi] represents the angle pi after Acrobot's wrap (same angle)",
           "uniformity and independence of the initial draw (only the parametrisation low + (high-low)*u is compared)")
    for name, f in R.VALIDATORS.items():
        with ck.section(f"ref.{name}"):
            ok, detail = f(seed=ck.seed)
            ck.fact(f"ref.{name}.validated_against_gymnasium", ok, detail)
    for name in SPECS:
        for mode in ("symbolic", "default"):
            first = mode == "symbolic"
            with ck.section(f"{name}.{mode}"):
                cx = Ctx(ck, name, mode)
                ob_vector_field(ck, cx, first)
                ob_limits(ck, cx, first)
                ob_reward_terminal(ck, cx, first)
        with ck.section(f"{name}.initial"):
            ob_initial(ck, name)
    for mode in ("symbolic", "default"):
        with ck.section(f"cartpole.euler.{mode}"):
            ob_euler(ck, mode, mode == "symbolic")
