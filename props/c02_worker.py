"""C02 helper: output types and re-trace purity of one built-in environment, read from avals / jaxprs.

Usable in-process (`inspect_env(env, heavy)`) and as a sub-process (`python -m props.c02_worker <module> <Class> <heavy 0|1>` prints one
JSON line) so that the slow model traces (mjx.step / mjx.forward of the MuJoCo and Unitree G1 models) run in parallel.
Nothing is executed numerically here: `jax.eval_shape` / `eqx.filter_make_jaxpr` only.
"""
import importlib
import json
import sys
import time

import equinox as eqx
import jax
import numpy as np
from jax import random as jr

CALLBACKS = ("io_callback", "pure_callback", "debug_callback", "debug_print")


def _aval(x):
    return [list(x.shape), str(x.dtype)]


def _prims(jaxpr, acc):
    for e in jaxpr.eqns:
        acc[e.primitive.name] = acc.get(e.primitive.name, 0) + 1
        for v in e.params.values():
            for sub in (v if isinstance(v, (tuple, list)) else [v]):
                j = getattr(sub, "jaxpr", sub)
                if hasattr(j, "eqns"):
                    _prims(j, acc)
    return acc


def retrace(fn, args, first=None):
    """two independent traces: identical printed jaxprs, identical captured constants, inputs = the explicit arguments' array leaves"""
    r = [] if first is None else [first]
    while len(r) < 2:
        cj, _, _ = eqx.filter_make_jaxpr(fn)(*args)
        r.append(cj)
    s0, s1 = str(r[0].jaxpr), str(r[1].jaxpr)
    n_leaves = len([l for l in jax.tree_util.tree_leaves(args) if eqx.is_array(l) or isinstance(l, jax.ShapeDtypeStruct)])
    consts_same = len(r[0].consts) == len(r[1].consts) and all(
        (np.asarray(a).shape == np.asarray(b).shape and np.array_equal(np.asarray(a), np.asarray(b), equal_nan=True)) if not _iskey(a) else True
        for a, b in zip(r[0].consts, r[1].consts))
    prims = _prims(r[0].jaxpr, {})
    return {"equal": s0 == s1, "equations": len(r[0].jaxpr.eqns), "inputs": len(r[0].jaxpr.invars), "arg_leaves": n_leaves, "consts": len(r[0].consts),
            "consts_same": bool(consts_same), "callbacks": {k: v for k, v in prims.items() if k in CALLBACKS}}


def _iskey(a):
    return hasattr(a, "dtype") and jax.dtypes.issubdtype(a.dtype, jax.dtypes.prng_key)


def inspect_env(env, heavy=False, purity=True):
    """types of observation / reward / terminal / truncate (methods; with heavy also of step() and reset()), sampled action accepted, purity"""
    t0 = time.time()
    key = jr.key(0)
    # the state's abstract value comes from the first of the two purity traces of initial() (the G1 models trace mjx.forward twice in it)
    init_fn = lambda e, k: e.initial(key=k)
    cj0, dyn0, stat0 = eqx.filter_make_jaxpr(init_fn)(env, key)
    st = eqx.combine(dyn0, stat0)
    act = jax.eval_shape(lambda k: env.action_space.sample(key=k), key)
    sp = env.observation_space
    out = {"space": {"obs_shape": list(sp.shape), "obs_dtype": str(sp.low.dtype) if hasattr(sp, "low") else None,
                     "act_shape": list(env.action_space.shape), "act_aval": _aval(act)}}
    m = {}
    m["observation"] = _aval(jax.eval_shape(lambda s, k: env.observation(s, key=k), st, key))
    m["reward"] = _aval(jax.eval_shape(lambda s, a, k: env.reward(s, a, s, key=k), st, act, key))
    m["terminal"] = _aval(jax.eval_shape(lambda s, k: env.terminal(s, key=k), st, key))
    m["truncate"] = _aval(jax.eval_shape(lambda s: env.truncate(s), st))
    out["methods"] = m
    if heavy:
        s2, ob, rew, term, trunc, info = jax.eval_shape(lambda s, a, k: env.step(s, a, key=k), st, act, key)
        out["step"] = {"observation": _aval(ob), "reward": _aval(rew), "terminal": _aval(term), "truncate": _aval(trunc),
                       "state_same_structure": jax.tree_util.tree_structure(s2) == jax.tree_util.tree_structure(st)
                       and all(_aval(a) == _aval(b) for a, b in zip(jax.tree_util.tree_leaves(s2), jax.tree_util.tree_leaves(st)))}
        s3, ob3, info3 = jax.eval_shape(lambda k: env.reset(key=k), key)
        out["reset"] = {"observation": _aval(ob3)}
    if purity:
        fns = {
            "initial": (init_fn, (env, key)),
            "observation": (lambda e, s, k: e.observation(s, key=k), (env, st, key)),
            "reward": (lambda e, s, a, k: e.reward(s, a, s, key=k), (env, st, act, key)),
            "terminal": (lambda e, s, k: e.terminal(s, key=k), (env, st, key)),
            "truncate": (lambda e, s: e.truncate(s), (env, st)),
            "action_space.sample": (lambda e, k: e.action_space.sample(key=k), (env, key)),
        }
        if heavy:
            fns["transition"] = (lambda e, s, a, k: e.transition(s, a, key=k), (env, st, act, key))
        out["purity"] = {n: retrace(f, a, first=cj0 if n == "initial" else None) for n, (f, a) in fns.items()}
    out["seconds"] = round(time.time() - t0, 2)
    return out


def main():
    mod, cls, heavy = sys.argv[1], sys.argv[2], sys.argv[3] == "1"
    t0 = time.time()
    env = getattr(importlib.import_module(mod), cls)()
    res = inspect_env(env, heavy=heavy)
    res["construct_seconds"] = round(time.time() - t0 - res["seconds"], 2)
    print("C02WORKER " + json.dumps(res), flush=True)


if __name__ == "__main__":
    main()
