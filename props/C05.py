"""C05 — off-policy collection stores exactly the transitions that happened."""
from typing import ClassVar

import equinox as eqx
import jax
import jax.numpy as jnp
import numpy as np
import optax
import z3
from jax import random as jr

from jaxsmt import concrete, core, solve
from jaxsmt.core import Check, conj, eq_arr, eq_elem
from jaxsmt.harness import UFACPolicy, UFEnv
from jaxsmt.interp import Interp, arr0
from jaxsmt.trace import trace
from props.C04 import assumptions_for, cfg_name, find, make, world_of
from props.common import empty_callback
from props.rollout_ref import World, keys_of, offpolicy_step

from lerax.algorithm.off_policy import AbstractOffPolicyAlgorithm, AbstractOffPolicyStepState


class ProbeOff(AbstractOffPolicyAlgorithm):
    """the real off-policy base algorithm; only the abstract hooks are filled in (no training)"""
    optimizer: optax.GradientTransformation
    buffer_size: int
    gamma: float
    learning_starts: int
    num_envs: int
    num_steps: int
    batch_size: int

    def __init__(self, buffer_size=2, learning_starts=1, num_envs=1, num_steps=1):
        self.optimizer = optax.sgd(0.1)
        self.buffer_size = buffer_size
        self.gamma = 0.5
        self.learning_starts = learning_starts
        self.num_envs = num_envs
        self.num_steps = num_steps
        self.batch_size = 1

    def per_step(self, step_state):
        return step_state

    def per_iteration(self, state):
        return state

    def train(self, policy, opt_state, buffer, *, key):
        return policy, opt_state, {}


def example_step_state(algo, env, pol, cb, size):
    return jax.eval_shape(lambda k: AbstractOffPolicyStepState.initial(size, env, pol, cb, k), jr.key(0))


def step_keys(it):
    kO = keys_of(it, "O")
    return {"O": kO[0], "N": kO[1], "A": keys_of(it, "PI")[0], "T": keys_of(it, "T")[0], "R": keys_of(it, "R")[0], "Term": keys_of(it, "Term")[0],
            "I": keys_of(it, "Init")[0], "P": keys_of(it, "PReset")[0]}


def check_step(ck, kind, limited, C=2):
    name = cfg_name(kind, False, limited)
    env, pol = make(kind, False, limited)
    algo = ProbeOff(buffer_size=C)
    cb = empty_callback()
    st = example_step_state(algo, env, pol, cb, C)

    def fn(env, pol, st, key):
        return {"state": algo.step(env, pol, st, key=key, callback=cb)}
    tr = trace(fn, env, pol, st, jr.key(0), argnames=["env", "pol", "st", "key"], label="AbstractOffPolicyAlgorithm.step")
    it = Interp()
    S = tr.symbols(it)
    out = tr.run(it, S)
    if name == "discrete+timelimit":
        ck.encoded(tr)
        concrete.validate(ck, tr, n=2, seed=ck.seed, gen=lambda n, av, rng: (jnp.asarray(2) if n.endswith("max_episode_steps") else (jnp.asarray(int(rng.integers(0, 5))) if (n.endswith("step_count") or n.endswith("position")) else None)))
    w = world_of(it, S, kind, False, limited)
    K = step_keys(it)
    s = find(S, "st_env_state_env_state_s") if limited else find(S, "st_env_state_s")
    counters = [find(S, "st_env_state_step_count")[()]] if limited else []
    h = S["st_policy_state_h"]
    R = offpolicy_step(w, s, counters, h, K)
    p = S["st_buffer_position"][()]
    A = assumptions_for(S, kind, limited, K) + [p >= 0]
    o = it.o
    slot = p % C

    def ring(old, new):
        """buffer field after inserting `new` at slot position mod C"""
        new = arr0(new) if not isinstance(new, np.ndarray) else new
        res = np.empty(old.shape, dtype=object)
        for j in range(C):
            if old.ndim == 1:
                res[j] = o.ite(slot == j, new[()] if new.ndim == 0 else new[0], old[j])
            else:
                for i in np.ndindex(*old.shape[1:]):
                    res[(j,) + i] = o.ite(slot == j, new[i], old[(j,) + i])
        return res

    def prove(oid, outs):
        orc = {k: (arr0(v) if not isinstance(v, np.ndarray) else v) for k, v in outs.items()}
        missing = [k for k in orc if k not in out or tuple(out[k].shape) != tuple(orc[k].shape)]
        if missing:
            ck.fact(f"{oid}@{name}", False, f"outputs missing or mis-shaped: {missing} (have {list(out)})")
            return
        ck.prove(f"{oid}@{name}", A, conj([eq_arr(out[k], v) for k, v in orc.items()]),
                 replay=lambda res, orc=orc: concrete.replay_outputs(tr, S, res, uf_apps=it.uf_apps, oracle=orc))
    B = lambda f: S["st_buffer_" + f]
    prove("row.obs", {"state_buffer_observations": ring(B("observations"), R["obs"])})
    prove("row.next_obs_pre_reset", {"state_buffer_next_observations": ring(B("next_observations"), R["next_obs"])})
    prove("row.action", {"state_buffer_actions": ring(B("actions"), R["action"])})
    prove("row.reward_of_clipped", {"state_buffer_rewards": ring(B("rewards"), R["reward"])})
    prove("row.done", {"state_buffer_dones": ring(B("dones"), R["done"])})
    prove("row.timeout", {"state_buffer_timeouts": ring(B("timeouts"), R["timeout"])})
    prove("row.policy_states", {"state_buffer_states_h": ring(B("states_h"), R["h"]), "state_buffer_next_states_h": ring(B("next_states_h"), R["h2"])})
    # the buffer's counter accounts for exactly one more transition: same ring slot and stored count as p + 1 (whether the counter is the exact
    # number of insertions or a folded representative is the buffer's business, C06)
    ck.prove(f"row.counter_accounts_for_one_more@{name}", A, counter_link(out["state_buffer_position"], arr0(p + 1), C),
             replay=rp_counter(tr, S, it, "state_buffer_position", arr0(p + 1), C))
    sname = "state_env_state_env_state_s" if limited else "state_env_state_s"
    st_or = {sname: R["next_s"], "state_policy_state_h": R["next_h"]}
    if limited:
        st_or["state_env_state_step_count"] = R["next_c"][0]
    prove("reset.iff_done", st_or)
    fresh = all(not K[a].eq(K[b]) for a in ("I", "P") for b in K if b != a)
    ck.fact(f"reset.keys_fresh@{name}", fresh, f"env reset key {K['I']}, policy reset key {K['P']} are used nowhere else in the step")
    if name == "discrete+timelimit":
        ck.witness("witness.timeout_reachable", A + [R["timeout"]])
        ck.witness("witness.term_and_trunc_reachable", A + [R["term"], R["trunc"]])
        ck.control("control.timeout_is_truncation", A, eq_arr(out["state_buffer_timeouts"], ring(B("timeouts"), R["trunc"])))
        ck.control("control.next_obs_after_reset", A, eq_arr(out["state_buffer_next_observations"], ring(B("next_observations"), w.env.observation(R["next_s"], K["N"]))))
    if kind == "box":
        lo, hi = w.box
        ck.witness(f"witness.clipping_active@{name}", A + [R["action"][0] > hi[0]])


def check_schedule(ck):
    """warm-up stores exactly learning_starts transitions per environment; every iteration adds num_steps to each environment's own buffer;
    per-environment capacity is buffer_size // num_envs"""
    env, pol = make("discrete", False, True)
    cb = empty_callback()
    grid = [(1, 0, 1, 4), (1, 2, 2, 4), (2, 1, 1, 4), (2, 2, 2, 5)] if not ck.thorough else [(E, L, n, B) for E in (1, 2, 3) for L in (0, 1, 2, 3) for n in (1, 2) for B in (4, 7)]
    for E, L, n, Bsz in grid:
        algo = ProbeOff(buffer_size=Bsz, learning_starts=L, num_envs=E, num_steps=n)
        cfg = f"E={E},L={L},n={n},B={Bsz}"
        tr = trace(lambda env, pol, key: algo.reset(env, pol, key=key, callback=cb).step_state.buffer, env, pol, jr.key(0), argnames=["env", "pol", "key"],
                   label="AbstractOffPolicyAlgorithm.reset")
        it = Interp()
        S = tr.symbols(it)
        out = tr.run(it, S)
        pos = out["position"]
        want = np.full(pos.shape, L, dtype=object)
        cap = Bsz if E == 1 else Bsz // E
        shape_ok = tuple(out["rewards"].shape) == ((cap,) if E == 1 else (E, cap)) and tuple(pos.shape) == (() if E == 1 else (E,))
        ck.fact(f"buffers.per_env_capacity@{cfg}", shape_ok, f"rewards {out['rewards'].shape}, position {pos.shape}; expected capacity {cap} per environment")
        ck.prove(f"warmup.count@{cfg}", [], counter_link(pos, want, cap), replay=rp_counter(tr, S, it, "position", want, cap))
        # number of warm-up transitions == number of environment transitions executed per env
        nT = len({tuple(x.get_id() for x in ops) for nm, oi, idx, ops, t in it.uf_apps if nm == "T"})
        ck.fact(f"warmup.transitions_executed@{cfg}", nT == L * E, f"{nT} distinct transition applications for learning_starts={L}, envs={E}")
        st = jax.eval_shape(lambda k: algo.reset(env, pol, key=k, callback=cb), jr.key(0))
        tr2 = trace(lambda st, key: algo.iteration(st, key=key, callback=cb).step_state.buffer, st, jr.key(0), argnames=["st", "key"], label="AbstractOffPolicyAlgorithm.iteration")
        if cfg == "E=2,L=1,n=1,B=4":
            ck.encoded(tr2)
        it2 = Interp()
        S2 = tr2.symbols(it2)
        o2 = tr2.run(it2, S2)
        p0 = S2["st_step_state_buffer_position"]
        want2 = np.array([it2.o.add(x, n) for x in p0.reshape(-1)], dtype=object).reshape(p0.shape)
        ck.prove(f"iter.adds_num_steps@{cfg}", [x >= 0 for x in p0.reshape(-1)], counter_link(o2["position"], want2, cap), replay=rp_counter(tr2, S2, it2, "position", want2, cap))
        nT2 = len({tuple(x.get_id() for x in ops) for nm, oi, idx, ops, t in it2.uf_apps if nm == "T"})
        ck.fact(f"iter.transitions_executed@{cfg}", nT2 == n * E, f"{nT2} distinct transition applications for num_steps={n}, envs={E}")


def counter_link(pos, want, cap):
    """the buffer counter(s) `pos` account for `want` insertions: non-negative, same ring slot (mod capacity) and same number of stored transitions"""
    cs = []
    for g, w_ in zip(np.asarray(pos, dtype=object).reshape(-1), np.asarray(want, dtype=object).reshape(-1)):
        mn = lambda a: z3.If(a <= cap, a, cap) if isinstance(a, z3.ExprRef) else min(a, cap)
        cs += [g >= 0, g % cap == w_ % cap, mn(g) == mn(w_)]
    return conj(cs)


def rp_counter(tr, S, it, pos_name, want, cap):
    def rp(res):
        keys = concrete.KeyBinding(res)
        w = concrete.ModelWorld(res, it.uf_apps, keys)
        vals = [concrete.model_leaf(res, S[n], av, keys) for n, av in zip(tr.in_names, tr.in_avals)]
        real = dict(zip(tr.out_names, concrete.run_real(tr, vals, w)))
        got = [int(x) for x in np.asarray(real[pos_name]).reshape(-1)]
        wv = [int(solve.num(res.value(t))) if isinstance(t, z3.ExprRef) else int(t) for t in np.asarray(want, dtype=object).reshape(-1)]
        bad = [{"counter_after": g, "insertions_to_account_for": x} for g, x in zip(got, wv) if not (g >= 0 and g % cap == x % cap and min(g, cap) == min(x, cap))]
        return bool(bad), {"function": tr.label, "capacity": cap, "counters_after_real_run": got, "insertions_to_account_for": wv, "failures": bad[:4],
                           "inputs": {n: np.asarray(concrete.real_to_float(v) if hasattr(v, "dtype") else v).reshape(-1)[:8].tolist() for n, v in zip(tr.in_names, vals) if "position" in n}}
    return rp


def main():
    ck = Check("C05", "off-policy collection")
    ck.mode = "REAL"
    ck.bound(capacity=2, envs=[1, 2] if not ck.thorough else [1, 2, 3], learning_starts="<=2 (quick) / <=3 (thorough)", num_steps="<=2", obs_dim=2, state_dim=2,
             actions=["Discrete(3)", "Box(2) with symbolic bounds"], position="symbolic integer >= 0 (the int32 side of the counter is C06 `machine.*`)")
    ck.stub("environment and behaviour policy uninterpreted (Init, T, O, R, Term, Trunc; PI, PReset)", "PRNG keys: free algebra", "callback: CallbackList([])",
            "a probe subclass of AbstractOffPolicyAlgorithm fills in only the abstract hooks (train is the identity)")
    ck.out("ring-buffer semantics beyond the inserted slot (C06)", "lane independence of vectorised collection (C12)", "float rounding")
    for kind, limited in [("discrete", True), ("box", True), ("discrete", False), ("box", False)]:
        with ck.section(f"step@{cfg_name(kind, False, limited)}"):
            check_step(ck, kind, limited)
    with ck.section("schedule"):
        check_schedule(ck)
    ck.finish("AbstractOffPolicyAlgorithm.step is traced over an uninterpreted environment/behaviour policy with the real ReplayBuffer (symbolic insert position); "
              "the inserted row (observation acted on, pre-reset successor observation, chosen action, reward of the clipped action, done, timeout = "
              "truncated and not terminated, policy states) and the carried states are compared with a reference interpreter written from the statement. "
              "reset()/iteration() are traced for a grid of (num_envs, learning_starts, num_steps, buffer_size): per-environment positions and capacities.")


if __name__ == "__main__":
    main()
