"""C07 — TD targets bootstrap through truncation, never through termination (DQN, SAC)."""
import itertools
import math
from fractions import Fraction

import equinox as eqx
import jax
import jax.numpy as jnp
import numpy as np
import optax
import z3

from jaxsmt import concrete, core, solve
from jaxsmt.core import Check, conj, disj, eq_arr, eq_elem, implies, neg
from jaxsmt.harness import UFCall
from jaxsmt.interp import Interp
from jaxsmt.lossharness import (Batch, Replay, TabCritic, TabQPolicy, TabSACPolicy, UFCritic, UFQPolicy, UFSACPolicy, agree_bad, bool_int_arr,
                                cross_bad, differs, flat, identify_ratio, pick, sign_agree, sign_agree_margin, uf_optimizer, within, zabs, zmin)
from jaxsmt.ops import KeyS
from jaxsmt.trace import trace

from lerax.algorithm import DQN, SAC

F32 = "float32"


def not_terminal(done, timeout):
    """1 - terminated, terminated = the episode ended (done) and it was not a time-limit truncation"""
    return z3.Not(z3.And(done, z3.Not(timeout)))


def int_gen(ranges):
    def gen(name, av, rng):
        for key, n in ranges.items():
            if name.endswith(key):
                return jnp.asarray(rng.integers(0, n, size=av.shape), dtype=av.dtype)
        if name.endswith("gamma"):
            return jnp.asarray(0.75, dtype=av.dtype)
        return None
    return gen


# =============================================================================== DQN
def dqn_loss_fn(pol, batch, tpol, gamma):
    return {"loss": DQN.dqn_loss(pol, batch, tpol, gamma)}


def dqn_grad_fn(pol, batch, tpol, gamma):
    loss, g = DQN.dqn_loss_grad(pol, batch, tpol, gamma)
    return {"loss": loss, "g": g.table}


def greedy(on, a):
    return z3.And([on[a] >= on[b] for b in range(len(on)) if b != a]) if len(on) > 1 else True


def unique_max(on):
    if len(on) == 1:
        return True
    return z3.Or([z3.And([on[a] > on[b] for b in range(len(on)) if b != a]) for a in range(len(on))])


def value_of_greedy(on, tg):
    """target network's value of the online network's greedy action (well defined when the maximiser is unique)"""
    r = tg[len(on) - 1]
    for a in range(len(on) - 2, -1, -1):
        r = z3.If(greedy(on, a), tg[a], r)
    return r


class DqnUFRef:
    """reference over an arbitrary Q-network Q(theta, observation): online parameter theta, target parameter theta'"""

    def __init__(self, it, S, B, A, wrong=None, stateful=False):
        U = UFCall(it)
        self.B = B
        g = S["gamma"][()]
        self.q, self.y, self.uniq, self.ufs = [], [], [], []
        for i in range(B):
            # a stateful (recurrent) Q-policy is evaluated at (stored state, observation) for the taken action and at (stored NEXT state, next observation)
            # for both the greedy selection and the target value
            st = [S["batch_states_h"][i]] if stateful else []
            st2 = [S["batch_next_states_h"][i]] if stateful else []
            qs = list(U("Q", [((A,), F32)], S["pol_theta"], *st, S["batch_observations"][i])[0])
            on = list(U("Q", [((A,), F32)], S["pol_theta"], *st2, S["batch_next_observations"][i])[0])
            tg = list(U("Q", [((A,), F32)], S["tpol_theta"], *st2, S["batch_next_observations"][i])[0])
            self.ufs += qs + on + tg
            a = S["batch_actions"][i]
            self.q.append(pick(np.array(qs, dtype=object), a))
            d, t = S["batch_dones"][i], S["batch_timeouts"][i]
            nt = not_terminal(d, t)
            if wrong == "mask":
                nt = z3.And(z3.Not(d), z3.Not(t))
            v = value_of_greedy(on, tg)
            if wrong == "online_eval":
                v = value_of_greedy(on, on)
            if wrong == "target_select":
                v = value_of_greedy(tg, tg)
            self.y.append(S["batch_rewards"][i] + z3.If(nt, g * v, 0))
            self.uniq.append(unique_max(on))
        self.ref = sum((self.q[i] - self.y[i]) * (self.q[i] - self.y[i]) for i in range(B)) / B


def np_dqn(Qs, On, Tg, a, r, d, t, gamma):
    """float64 reference: per-sample online value of the taken action and Double-DQN target"""
    Qs, On, Tg = (np.asarray(x, np.float64) for x in (Qs, On, Tg))
    B = len(r)
    q = Qs[np.arange(B), np.asarray(a, int)]
    best = np.argmax(On, axis=1)
    v = Tg[np.arange(B), best]
    nt = (~np.asarray(d, bool)) | np.asarray(t, bool)
    return q, np.asarray(r, np.float64) + gamma * v * nt


def prove_proportional(ck, oid, asm, L, Ref, mk_replay, bnd, c=None, timeout=None):
    """L == c * Ref for ONE positive constant c that the statement leaves open: c is identified exactly at one generic
    point (see lossharness.identify_ratio) unless given (same constant across batch sizes), then the identity is proved
    for all inputs"""
    how = "given (identified at a smaller batch size)"
    if c is None:
        c, how = identify_ratio(L, Ref, asm, seed=ck.seed)
    if c is None or c == 0:
        c, how = Fraction(1, 2), f"identification failed ({how}); 1/2 assumed"
    if c < 0:
        c, how = -c, how + "; NEGATIVE constant identified, its absolute value is used"
    ck.notes.append(f"{oid}: {how}")
    ck.prove(oid, asm, L == z3.RealVal(c) * Ref, replay=mk_replay(c), nonlinear=True, timeout=timeout, sample=("B=1" in oid),
             margin_goal=implies(conj(bnd), zabs(L - z3.RealVal(c) * Ref) <= Fraction(1, 50)))
    return c


def prove_descent(ck, oid, asm, G, R, replay, bnd, timeout=None):
    """Scale-free pinning of a regression target (DESIGN 1.4b): the gradient G vanishes exactly when the residual R does and has
    its sign otherwise.  Fast path: the stronger G == c * R with an identified positive constant c (it implies the goal) is tried
    first with a short budget; the obligation is then discharged in whichever form holds."""
    c, how = identify_ratio(G, R, asm, seed=ck.seed)
    if c is not None and c > 0:
        fs = [x for x in asm if isinstance(x, z3.ExprRef)] + [G != z3.RealVal(c) * R]
        pre = solve.decide(fs + solve.instantiate_axioms(fs), timeout_s=30, nonlinear=True)
        if pre.status == "unsat":
            ck.notes.append(f"{oid}: discharged in the stronger form gradient == {c} * residual")
            return ck.prove(oid, asm, G == z3.RealVal(c) * R, replay=replay, nonlinear=True, timeout=timeout, sample=False,
                            margin_goal=implies(conj(bnd), zabs(G - z3.RealVal(c) * R) <= Fraction(1, 100)))
    return ck.prove(oid, asm, sign_agree(G, R), replay=replay, nonlinear=True, timeout=timeout, sample=False, margin_goal=implies(conj(bnd), sign_agree_margin(G, R)))


def sec_dqn_value(ck, B, A, controls=False, c=None, stateful=False):
    pol, tpol = UFQPolicy(A, stateful=stateful), UFQPolicy(A, stateful=stateful)
    batch = Batch(B, pol.observation_space, pol.action_space, pol.reset(key=jax.random.key(0)))
    sfx = ",stateful_policy" if stateful else ""
    tr = trace(dqn_loss_fn, pol, batch, tpol, jnp.array(.9), argnames=["pol", "batch", "tpol", "gamma"], label=f"DQN.dqn_loss[B={B},A={A},uninterpreted {'recurrent ' if stateful else ''}Q]")
    ck.encoded(tr)
    concrete.validate(ck, tr, n=1, seed=ck.seed + B, gen=int_gen({"batch_actions": A}))
    it = Interp()
    S = tr.symbols(it, given={"batch_actions": bool_int_arr("a", (B,), A)})
    out = tr.run(it, S)
    R = DqnUFRef(it, S, B, A, stateful=stateful)
    L = out["loss"][()]
    asm = [u for u in R.uniq if not isinstance(u, bool)]
    bnd = bounds(S, R.ufs)
    c = prove_proportional(ck, f"dqn.double_selection@B={B},A={A}{sfx}", asm, L, R.ref, lambda c_: rp_dqn_value(tr, S, it, c_, stateful), bnd, c=c)
    if stateful:
        return c
    if controls:
        ck.witness(f"witness.dqn.unique_greedy_reachable@B={B},A={A}", asm + [S["batch_dones"][0], z3.Not(S["batch_timeouts"][0])], nonlinear=True)
        for w in ("mask", "online_eval", "target_select"):
            W = DqnUFRef(it, S, B, A, wrong=w)
            ck.control(f"control.dqn.{w}@B={B},A={A}", asm, L == z3.RealVal(c) * W.ref, nonlinear=True)
    return c


def bounds(S, ufs=()):
    xs = [x for n, a in S.items() for x in flat(a) if isinstance(x, z3.ExprRef) and z3.is_real(x) and not n.endswith("gamma")]
    out = within(xs + list(ufs), -3, 3)
    for n in S:
        if n.endswith("gamma"):
            out += [S[n][()] >= Fraction(1, 4), S[n][()] <= 1]
    return out


def rp_dqn_value(tr, S, it, c, stateful=False):
    def rp(res):
        rpl = Replay(tr, S, res, it.uf_apps)
        pol, batch, tpol, gamma = rpl.args()
        st, st2 = (batch.states, batch.next_states) if stateful else (None, None)
        Qs = rpl.call(lambda: jax.vmap(pol.q_values)(st, batch.observations))[1]
        On = rpl.call(lambda: jax.vmap(pol.q_values)(st2, batch.next_observations))[1]
        Tg = rpl.call(lambda: jax.vmap(tpol.q_values)(st2, batch.next_observations))[1]
        q, y = np_dqn(Qs, On, Tg, batch.actions, batch.rewards, batch.dones, batch.timeouts, float(gamma))
        real = rpl.run()
        want = float(c) * float(np.mean((q - y) ** 2))
        ties = any(np.sum(np.isclose(row, np.max(row), atol=1e-5)) > 1 for row in np.asarray(On, np.float64))
        bad = (not ties) and differs(real["loss"], want)
        return bad, {"function": tr.label, "what": f"dqn_loss must be one positive constant (identified: {c}) times mean_i (Q(s_i)[a_i] - (r_i + gamma*(1-terminated_i)*Q_target(s'_i)[argmax Q(s'_i)]))^2",
                     "inputs": rpl.inputs_json(), "q_online_taken": q.tolist(), "double_dqn_target": y.tolist(), "real_loss": float(real["loss"]), "constant_times_float64_reference": want}
    return rp


class DqnTab:
    """tabular online / target Q: everything is a table look-up, indices are symbolic"""

    def __init__(self, S, B, A, Q, Qt):
        self.B, self.A = B, A
        self.s, self.s2, self.a = list(S["batch_observations"]), list(S["batch_next_observations"]), list(S["batch_actions"])
        self.r, self.d, self.t = list(S["batch_rewards"]), list(S["batch_dones"]), list(S["batch_timeouts"])
        self.g = S["gamma"][()] if "gamma" in S else S["algo_gamma"][()]
        self.Q, self.Qt = Q, Qt
        self.q = [pick(Q, self.s[i], self.a[i]) for i in range(B)]
        self.on = [[pick(Q, self.s2[i], a) for a in range(A)] for i in range(B)]
        self.tg = [[pick(Qt, self.s2[i], a) for a in range(A)] for i in range(B)]
        self.uniq = [unique_max(self.on[i]) for i in range(B)]

    def y(self, i, astar=None, nt=None, wrong=None):
        v = self.tg[i][astar] if astar is not None else value_of_greedy(self.on[i], self.tg[i])
        if wrong == "online_eval":
            v = value_of_greedy(self.on[i], self.on[i])
        if wrong == "target_select":
            v = value_of_greedy(self.tg[i], self.tg[i])
        ntc = not_terminal(self.d[i], self.t[i]) if nt is None else nt
        if wrong == "mask":
            ntc = z3.And(z3.Not(self.d[i]), z3.Not(self.t[i]))
        if isinstance(ntc, bool):
            return self.r[i] + (self.g * v if ntc else 0)
        return self.r[i] + z3.If(ntc, self.g * v, 0)

    def alone(self, i):
        return [neg(z3.And(self.s[j] == self.s[i], self.a[j] == self.a[i])) for j in range(self.B) if j != i]

    def hit(self, i, s, a):
        return z3.And(self.s[i] == s, self.a[i] == a)


def np_dqn_tab(rpl, aliased=False, gname="gamma"):
    Q = rpl.get("pol_table")
    Qt = Q if aliased else rpl.get("tpol_table")
    s, s2, a = (rpl.get(n).astype(int) for n in ("batch_observations", "batch_next_observations", "batch_actions"))
    r, d, t = rpl.get("batch_rewards"), rpl.get("batch_dones").astype(bool), rpl.get("batch_timeouts").astype(bool)
    return Q, Qt, s, s2, a, r, d, t, float(rpl.get(gname))


def sec_dqn_grad(ck, B, S_, A, aliased=False, controls=False):
    tag = f"B={B},S={S_},A={A}" + (",target=online" if aliased else "")
    pol, tpol = TabQPolicy(S_, A), TabQPolicy(S_, A)
    batch = Batch(B, pol.observation_space, pol.action_space, None)
    if aliased:
        # DQN.train: the SAME network is passed as online and target network
        def fn(pol, batch, gamma):
            return dqn_grad_fn(pol, batch, pol, gamma)
        tr = trace(fn, pol, batch, jnp.array(.9), argnames=["pol", "batch", "gamma"], label=f"DQN.dqn_loss_grad[tabular {S_}x{A},B={B},target_policy is policy]")
    else:
        tr = trace(dqn_grad_fn, pol, batch, tpol, jnp.array(.9), argnames=["pol", "batch", "tpol", "gamma"], label=f"DQN.dqn_loss_grad[tabular {S_}x{A},B={B}]")
    ck.encoded(tr)
    concrete.validate(ck, tr, n=1, seed=ck.seed + 11, gen=int_gen({"batch_observations": S_, "batch_next_observations": S_, "batch_actions": A}), use_world=False)
    it = Interp()
    S = tr.symbols(it, given={"batch_observations": bool_int_arr("s", (B,), S_), "batch_next_observations": bool_int_arr("n", (B,), S_), "batch_actions": bool_int_arr("a", (B,), A)})
    out = tr.run(it, S)
    T = DqnTab(S, B, A, S["pol_table"], S["pol_table"] if aliased else S["tpol_table"])
    G = out["g"]
    reals = flat(S["pol_table"], S["batch_rewards"]) + ([] if aliased else flat(S["tpol_table"]))
    bnd = within(reals, -3, 3) + [T.g >= Fraction(1, 4), T.g <= 1]
    gaps = [z3.Or(T.on[i][a] - T.on[i][b] >= Fraction(1, 4), T.on[i][b] - T.on[i][a] >= Fraction(1, 4)) for i in range(B) for a in range(A) for b in range(a + 1, A)]

    def numeric(rpl):
        Q, Qt, s, s2, a, r, d, t, g = np_dqn_tab(rpl, aliased)
        real = rpl.run()
        q = Q[s, a]
        nt = (~d) | t
        ys = [[r[i] + g * nt[i] * Qt[s2[i], b] for b in range(A) if Q[s2[i], b] >= Q[s2[i]].max() - 1e-6] for i in range(B)]
        return real, Q, s, a, q, ys

    # ---- per sample, ties allowed: dL/dq_i = 0 <=> q_i = y_i for y_i built from SOME greedy action of the online network
    if not aliased:
        for i in range(B):
            Gi = pick(G, T.s[i], T.a[i])
            goal = z3.Or([z3.And(greedy(T.on[i], b), sign_agree(Gi, T.q[i] - T.y(i, astar=b))) for b in range(A)])
            mgoal = z3.Or([z3.And(greedy(T.on[i], b), sign_agree_margin(Gi, T.q[i] - T.y(i, astar=b))) for b in range(A)])

            def rp(res, i=i):
                rpl = Replay(tr, S, res)
                real, Q, s, a, q, ys = numeric(rpl)
                only = all((s[j], a[j]) != (s[i], a[i]) for j in range(B) if j != i)
                g_i = float(real["g"][s[i], a[i]])
                bad = only and all(agree_bad(g_i, q[i] - y) for y in ys[i])
                return bad, {"function": tr.label, "inputs": rpl.inputs_json(), "sample": i, "d_loss_d_q_i": g_i, "q_i": float(q[i]), "admissible_targets": [float(y) for y in ys[i]],
                             "what": "the gradient w.r.t. the taken action's Q entry must vanish exactly when q_i equals r + gamma*(1-terminated)*Q_target(s')[greedy]"}
            ck.prove(f"dqn.target_fixed_point@{tag},i={i}", T.alone(i), goal, replay=rp, nonlinear=True, sample=False, margin_goal=implies(conj(bnd + gaps), mgoal))
        # ---- the four (done, timeout) combinations, one by one
        i = 0
        Gi = pick(G, T.s[i], T.a[i])
        for dv, tv in itertools.product((False, True), repeat=2):
            boot = (not dv) or tv
            asm = T.alone(i) + [T.uniq[i], T.d[i] == dv, T.t[i] == tv]
            Rres = T.q[i] - T.y(i, nt=boot)
            kind = "terminated" if not boot else ("truncated" if dv else "running")

            def rp(res, i=i, boot=boot):
                rpl = Replay(tr, S, res)
                real, Q, s, a, q, ys = numeric(rpl)
                only = all((s[j], a[j]) != (s[i], a[i]) for j in range(B) if j != i)
                g_i = float(real["g"][s[i], a[i]])
                r_i = float(rpl.get("batch_rewards")[i])
                want = ys[i] if boot else [r_i]
                bad = only and len(want) == 1 and agree_bad(g_i, q[i] - want[0])
                return bad, {"function": tr.label, "inputs": rpl.inputs_json(), "sample": i, "d_loss_d_q_i": g_i, "q_i": float(q[i]), "target": [float(y) for y in want],
                             "what": "bootstraps through truncation and running steps, never through termination"}
            prove_descent(ck, f"mask.trunc_bootstraps_term_does_not@dqn,done={int(dv)},timeout={int(tv)}({kind})", asm, Gi, Rres, rp, bnd + gaps)
            if controls:
                ck.witness(f"witness.dqn.flags_reachable@done={int(dv)},timeout={int(tv)}", asm, nonlinear=True)
    # ---- every table cell (collisions included): the gradient is the semi-gradient, the target is a constant
    uniq = [u for u in T.uniq if not isinstance(u, bool)]
    cells = list(itertools.product(range(S_), range(A)))
    cell_terms = []
    for (s, a) in cells:
        Rc = sum(z3.If(T.hit(i, s, a), T.Q[s, a] - T.y(i), 0) for i in range(B))
        cell_terms.append((s, a, G[s, a], Rc))

    def rp_cells(res):
        rpl = Replay(tr, S, res)
        real, Q, s, a, q, ys = numeric(rpl)
        bad = []
        for (cs, ca) in cells:
            hits = [i for i in range(B) if (s[i], a[i]) == (cs, ca)]
            if any(len(ys[i]) != 1 for i in hits):
                continue
            Rc = sum(Q[cs, ca] - ys[i][0] for i in hits)
            if agree_bad(real["g"][cs, ca], Rc):
                bad.append({"cell": [cs, ca], "gradient": float(real["g"][cs, ca]), "sum_of_td_residuals": float(Rc)})
        return bool(bad), {"function": tr.label, "inputs": rpl.inputs_json(), "cells": bad,
                           "what": "d loss / d Q[s,a] must be a positive multiple of sum over samples hitting (s,a) of (Q[s,a] - target_i): targets are constants, nothing flows through them"}
    for (cs_, ca_, Gc, Rc) in cell_terms:
        prove_descent(ck, f"dqn.no_grad_to_target@{tag},cell=({cs_},{ca_})", uniq, Gc, Rc, rp_cells, bnd + gaps)
    if controls and not aliased:
        for w in ("mask", "online_eval", "target_select"):
            i = 0
            ck.control(f"control.dqn.fixed_point_{w}@{tag}", T.alone(i) + uniq, sign_agree(pick(G, T.s[i], T.a[i]), T.q[i] - T.y(i, wrong=w)), nonlinear=True)
        other = [pick(T.Q, T.s[0], (b)) for b in range(A)]
        ck.control(f"control.dqn.untaken_action@{tag}", T.alone(0) + uniq + [T.a[0] == 0], sign_agree(pick(G, T.s[0], T.a[0]), other[1] - T.y(0)), nonlinear=True)


def sec_dqn_train(ck, B, S_, A):
    """dqn_train differentiates w.r.t. the online policy only and applies self.optimizer.update to that gradient"""
    pol, tpol = TabQPolicy(S_, A), TabQPolicy(S_, A)
    batch = Batch(B, pol.observation_space, pol.action_space, None)
    algo = DQN(batch_size=B, gamma=jnp.array(.9))
    algo = eqx.tree_at(lambda a: a.optimizer, algo, uf_optimizer())
    st0 = algo.optimizer.init(eqx.filter(pol, eqx.is_inexact_array))

    def step(algo, pol, st, batch, tpol, key):
        out = algo.dqn_train(pol, st, batch, tpol, key=key)
        p, ns, log = out
        return {"table": p.table, "s": ns["s"], "loss": log["loss"], "n_returned": jnp.array(len(out))}
    tr = trace(step, algo, pol, st0, batch, tpol, jax.random.key(0), argnames=["algo", "pol", "st", "batch", "tpol", "key"], label=f"DQN.dqn_train[tabular {S_}x{A},B={B},buffer.sample cut,optimizer=OPT]")
    trg = trace(dqn_grad_fn, pol, batch, tpol, jnp.array(.9), argnames=["pol", "batch", "tpol", "gamma"], label=f"DQN.dqn_loss_grad[tabular {S_}x{A},B={B}]")
    ck.encoded(tr)
    concrete.validate(ck, tr, n=1, seed=ck.seed + 13, gen=int_gen({"batch_observations": S_, "batch_next_observations": S_, "batch_actions": A}))
    it = Interp()
    S = tr.symbols(it, given={"batch_observations": bool_int_arr("s", (B,), S_), "batch_next_observations": bool_int_arr("n", (B,), S_), "batch_actions": bool_int_arr("a", (B,), A)})
    out = tr.run(it, S)
    Sg = {n: S[n] for n in trg.in_names if n in S}
    Sg["gamma"] = S["algo_gamma"]
    Gd = trg.run(it, Sg)
    upd = UFCall(it)("OPT", [((S_, A), F32), ((), F32)], Gd["g"], S["st_s"], S["pol_table"])
    want = {"table": np.vectorize(it.o.add, otypes=[object])(S["pol_table"], upd[0]), "s": upd[1], "loss": Gd["loss"]}
    ck.prove(f"dqn.no_grad_to_target.train_step@B={B},S={S_},A={A}", [], conj([eq_arr(out[k], want[k]) for k in want]),
             replay=lambda res: concrete.replay_outputs(tr, S, res, uf_apps=it.uf_apps, oracle=want), nonlinear=True)
    ck.fact("dqn.no_grad_to_target.returns_online_only", len(tr.out_names) == 4 and int(out["n_returned"][()]) == 3,
            "dqn_train returns (policy, opt_state, log): the target network is an input only")
    ck.control("control.dqn.train_ignores_gradient", [], eq_arr(out["table"], S["pol_table"]), nonlinear=True)
    # the public entry point DQN.train(policy, opt_state, buffer, key=...) (no separate target network is handed in): still the SEMI-gradient step --
    # the bootstrap values are those of the current parameters taken as constants, i.e. dqn_loss_grad with target := a copy of the online table
    def step_public(algo, pol, st, batch, key):
        out = algo.train(pol, st, batch, key=key)
        p, ns, log = out
        return {"table": p.table, "s": ns["s"], "loss": log["loss"]}
    trp = trace(step_public, algo, pol, st0, batch, jax.random.key(0), argnames=["algo", "pol", "st", "batch", "key"], label=f"DQN.train[tabular {S_}x{A},B={B},buffer.sample cut,optimizer=OPT]")
    ck.encoded(trp)
    Sp = {n: S[n] for n in trp.in_names}
    outp = trp.run(it, Sp)
    Sg2 = dict(Sg)
    for n in trg.in_names:
        if n.startswith("tpol_"):
            Sg2[n] = S["pol_" + n[len("tpol_"):]]
    Gd2 = trg.run(it, Sg2)
    upd2 = UFCall(it)("OPT", [((S_, A), F32), ((), F32)], Gd2["g"], S["st_s"], S["pol_table"])
    want2 = {"table": np.vectorize(it.o.add, otypes=[object])(S["pol_table"], upd2[0]), "s": upd2[1], "loss": Gd2["loss"]}
    ck.prove(f"dqn.no_grad_to_target.public_train_step@B={B},S={S_},A={A}", [], conj([eq_arr(outp[k], want2[k]) for k in want2]),
             replay=lambda res: concrete.replay_outputs(trp, Sp, res, uf_apps=it.uf_apps, oracle=want2), nonlinear=True)


# =============================================================================== SAC
class SACH(SAC):
    """harness subclass: same sac_train, the critic optimiser is plain gradient descent with step 1 (new = old - grad),
    which makes the critic gradient computed inside sac_train observable in the returned critics"""

    def __init__(self, B, gamma, transparent=True):
        super().__init__(batch_size=B, gamma=gamma)
        if transparent:
            self.q_optimizer = optax.scale(-1.0)


NAMES = ["algo", "pol", "aopt", "batch", "q1", "q2", "q1t", "q2t", "qopt", "la", "alopt", "tent", "itc", "key"]


def sac_fn(algo, pol, aopt, batch, q1, q2, q1t, q2t, qopt, la, alopt, tent, itc, key):
    out = algo.sac_train(pol, aopt, batch, q1, q2, q1t, q2t, qopt, la, alopt, tent, itc, key=key)
    p, o, nq1, nq2, nqo, nla, nalo, log = out
    return {"q_loss": log["q_loss"], "q1": nq1, "q2": nq2, "qopt": nqo, "n_returned": jnp.array(len(out))}


def sac_args(algo, pol, critics, batch):
    q1, q2, q1t, q2t = critics
    qopt = algo.q_optimizer.init((eqx.filter(q1, eqx.is_inexact_array), eqx.filter(q2, eqx.is_inexact_array)))
    aopt = algo.optimizer.init(eqx.filter(pol, eqx.is_inexact_array))
    la = jnp.array(0.0)
    alopt = algo.alpha_optimizer.init(la)
    return (algo, pol, aopt, batch, q1, q2, q1t, q2t, qopt, la, alopt, jnp.array(-1.0), jnp.array(0), jax.random.key(0))


class SacUFRef:
    def __init__(self, ck, it, S, B, wrong=None):
        U = UFCall(it)
        self.B = B
        g = S["algo_gamma"][()]
        self.alpha = it.o.unary("exp", S["la"][()])
        # the key under which the next action of sample i is drawn: read off the implementation's own draw at s'_i
        self.keys, self.found = [], True
        lp_apps = [a for a in it.uf_apps if a[0] == "PI" and a[1] == 1]
        m = S["batch_next_observations"].shape[1]
        adim = S["batch_actions"].shape[1]
        for i in range(B):
            so = list(S["batch_next_observations"][i])
            cands = [a[3][-1] for a in lp_apps if a[3][0].eq(S["pol_theta"][()]) and all(x.eq(y) for x, y in zip(a[3][1:1 + m], so))]
            if cands:
                self.keys.append(cands[0])
            else:
                self.found = False
                self.keys.append(lp_apps[i][3][-1] if i < len(lp_apps) else z3.Const(f"fresh_key_{i}", KeyS))
        self.q1, self.q2, self.y, self.ufs, self.parts = [], [], [], [], []
        for i in range(B):
            s, s2, a = S["batch_observations"][i], S["batch_next_observations"][i], S["batch_actions"][i]
            an, lpn = U("PI", [((adim,), F32), ((), F32)], S["pol_theta"], s2, np.array(self.keys[i], dtype=object))
            lpn = lpn[()]

            def Q(net, o, act):
                return S[f"{net}_b"][()] + U("Q", [((), F32)], S[f"{net}_theta"], o, act)[0][()]
            t1, t2 = Q("q1t", s2, an), Q("q2t", s2, an)
            if wrong == "online_eval":
                t1, t2 = Q("q1", s2, an), Q("q2", s2, an)
            m = zmin(t1, t2)
            if wrong == "max":
                m = z3.If(t1 >= t2, t1, t2)
            if wrong == "first_only":
                m = t1
            ent = self.alpha * lpn
            v = m - ent if wrong != "plus_entropy" else m + ent
            d, t = S["batch_dones"][i], S["batch_timeouts"][i]
            nt = not_terminal(d, t) if wrong != "mask" else z3.And(z3.Not(d), z3.Not(t))
            self.parts.append({"nt": nt, "t1": t1, "t2": t2, "lp": lpn, "r": S["batch_rewards"][i], "g": g, "d": d, "t": t})
            self.y.append(S["batch_rewards"][i] + z3.If(nt, g * v, 0))
            self.q1.append(Q("q1", s, a))
            self.q2.append(Q("q2", s, a))
            self.ufs += [lpn, t1, t2, self.q1[-1], self.q2[-1]] + list(an)
        self.ref = sum((self.q1[i] - self.y[i]) ** 2 + (self.q2[i] - self.y[i]) ** 2 for i in range(B))
        self.R1 = sum(self.q1[i] - self.y[i] for i in range(B))
        self.R2 = sum(self.q2[i] - self.y[i] for i in range(B))


def sac_uf_numeric(rpl, R):
    """float64 reference of the SAC targets: harness policy / critics evaluated under the model's interpretation"""
    algo, pol, aopt, batch, q1, q2, q1t, q2t, qopt, la, alopt, tent, itc, key = rpl.args()
    B = batch.rewards.shape[0]
    alpha = math.exp(float(la))
    ys, q1s, q2s, det = [], [], [], []
    for i in range(B):
        k = rpl.keys.concrete(R.keys[i])
        _, an, lpn = rpl.call(lambda: pol.action_and_log_prob(None, batch.next_observations[i], key=k))
        t1, t2 = float(rpl.call(lambda: q1t(batch.next_observations[i], an))), float(rpl.call(lambda: q2t(batch.next_observations[i], an)))
        nt = (not bool(batch.dones[i])) or bool(batch.timeouts[i])
        y = float(batch.rewards[i]) + float(algo.gamma) * (min(t1, t2) - alpha * float(lpn)) * nt
        ys.append(y)
        q1s.append(float(rpl.call(lambda: q1(batch.observations[i], batch.actions[i]))))
        q2s.append(float(rpl.call(lambda: q2(batch.observations[i], batch.actions[i]))))
        det.append({"next_action": np.asarray(an).tolist(), "next_log_prob": float(lpn), "q1_target": t1, "q2_target": t2, "not_terminal": nt, "target": y})
    return np.array(ys), np.array(q1s), np.array(q2s), alpha, det


def repair_alpha(rpl, R):
    a = rpl.val(R.alpha)
    if a == a and a > 0:
        rpl.set("la", math.log(a))


def sac_bounds(S, R):
    xs = flat(S["batch_rewards"], S["q1_b"], S["q2_b"], S["q1t_b"], S["q2t_b"])
    return within(xs + R.ufs, -3, 3) + [S["algo_gamma"][()] >= Fraction(1, 4), S["algo_gamma"][()] <= 1, R.alpha >= Fraction(1, 10), R.alpha <= 2]


def sec_sac_value(ck, B, controls=False, specialise=False, c=None, m=1, adim=1):
    pol = UFSACPolicy(adim=adim, m=m)
    batch = Batch(B, pol.observation_space, pol.action_space, None)
    algo = SACH(B, jnp.array(0.99))
    critics = [UFCritic() for _ in range(4)]
    tr = trace(sac_fn, *sac_args(algo, pol, critics, batch), argnames=NAMES, label=f"SAC.sac_train[B={B},obs_dim={m},action_dim={adim},uninterpreted actor and critics,buffer.sample cut,q_optimizer=plain gradient step]")
    ck.encoded(tr)
    concrete.validate(ck, tr, n=1, seed=ck.seed + B + 20, gen=int_gen({"itc": 4}))
    it = Interp()
    S = tr.symbols(it)
    out = tr.run(it, S)
    R = SacUFRef(ck, it, S, B)
    Bt = B
    B = f"{B}" + (f",obs_dim={m},action_dim={adim}" if (m, adim) != (1, 1) else "")
    # ---- the next action is freshly sampled: one key per sample, at the successor observation, not shared with any other draw
    def uses(k):
        return {tuple(x.get_id() for x in a[3][:-1]) for a in it.uf_apps if a[0] == "PI" and a[1] == 1 and a[3][-1].eq(k)}
    fresh = R.found and len({k.get_id() for k in R.keys}) == Bt and all(len(uses(k)) == 1 for k in R.keys)
    ck.fact(f"sac.next_action_freshly_sampled@B={B}", fresh, "every target draws (a', log pi) = policy.action_and_log_prob(s'_i, key_i) with key_i derived from the train key, pairwise distinct, "
            "and not used for any other draw of the step: " + ", ".join(str(k) for k in R.keys))
    L = out["q_loss"][()]
    G1, G2 = S["q1_b"][()] - out["q1_b"][()], S["q2_b"][()] - out["q2_b"][()]
    bnd = sac_bounds(S, R)

    def rp_loss(c_):
        def rp(res):
            rpl = Replay(tr, S, res, it.uf_apps)
            repair_alpha(rpl, R)
            ys, q1s, q2s, alpha, det = sac_uf_numeric(rpl, R)
            real = rpl.run()
            want = float(c_) * float(np.mean((q1s - ys) ** 2 + (q2s - ys) ** 2))
            return differs(real["q_loss"], want), {
                "function": tr.label, "what": f"q_loss must be one positive constant (identified: {c_}) times mean_i (q1_i - y_i)^2 + (q2_i - y_i)^2, "
                "y_i = r_i + gamma*(1-terminated_i)*(min(Q1',Q2')(s'_i,a'_i) - alpha*log pi(a'_i|s'_i))",
                "inputs": rpl.inputs_json(), "alpha": alpha, "samples": det, "q1": q1s.tolist(), "q2": q2s.tolist(), "real_q_loss": float(real["q_loss"]), "constant_times_float64_reference": want}
        return rp
    c = prove_proportional(ck, f"sac.q_loss_reported@B={B}", [], L, R.ref / Bt, rp_loss, bnd, c=c)

    def rp_fixed(which=("q1", "q2")):
        def rp(res):
            rpl = Replay(tr, S, res, it.uf_apps)
            repair_alpha(rpl, R)
            ys, q1s, q2s, alpha, det = sac_uf_numeric(rpl, R)
            real = rpl.run()
            g1 = float(rpl.get("q1_b") - real["q1_b"])
            g2 = float(rpl.get("q2_b") - real["q2_b"])
            r1, r2 = float(np.sum(q1s - ys)), float(np.sum(q2s - ys))
            bad = ("q1" in which and agree_bad(g1, r1)) or ("q2" in which and agree_bad(g2, r2))
            return bad, {"function": tr.label, "inputs": rpl.inputs_json(), "alpha": alpha, "samples": det, "q1": q1s.tolist(), "q2": q2s.tolist(),
                         "critic1_gradient_wrt_output_bias": g1, "sum_q1_minus_target": r1, "critic2_gradient_wrt_output_bias": g2, "sum_q2_minus_target": r2,
                         "what": "the critic gradient must vanish exactly when the critics equal the targets (and point towards them otherwise)"}
        return rp
    prove_descent(ck, f"sac.target_fixed_point@B={B},critic=1", [], G1, R.R1, rp_fixed(("q1",)), bnd)
    prove_descent(ck, f"sac.target_fixed_point@B={B},critic=2", [], G2, R.R2, rp_fixed(("q2",)), bnd)
    # ---- the critic move is the TD semi-gradient and nothing else (in particular no actor-loss contribution)
    def rp_semi(c_):
        def rp(res):
            rpl = Replay(tr, S, res, it.uf_apps)
            repair_alpha(rpl, R)
            ys, q1s, q2s, alpha, det = sac_uf_numeric(rpl, R)
            real = rpl.run()
            g1, r1 = float(rpl.get("q1_b") - real["q1_b"]), float(np.sum(q1s - ys))
            return differs(g1, float(c_) * r1), {"function": tr.label, "what": f"the critic move must be one positive constant (identified: {c_}) times the summed TD residual (nothing else, e.g. no actor-loss gradient)",
                                                 "inputs": rpl.inputs_json(), "samples": det, "q1": q1s.tolist(), "critic1_gradient_wrt_output_bias": g1, "sum_q1_minus_target": r1}
        return rp
    prove_proportional(ck, f"sac.actor_does_not_move_critics.semi_gradient@B={B}", [], G1, R.R1, rp_semi, bnd)
    # ---- 2-safety: what only the actor / alpha updates read does not influence the returned critics
    actor_only = [n for n in tr.in_names if n.startswith(("aopt", "alopt")) or n in ("tent", "itc")]
    S3 = dict(S)
    S3.update({n: it.sym("var_" + n, av.shape, av.dtype) for n, av in zip(tr.in_names, tr.in_avals) if n in actor_only})
    out3 = tr.run(it, S3)
    crit_out = [n for n in tr.out_names if n.startswith(("q1_", "q2_", "qopt"))]

    def rp_2safe(res):
        a, b = Replay(tr, S, res, it.uf_apps), Replay(tr, S3, res, it.uf_apps)
        ra, rb = a.run(), b.run()
        bad = any(differs(ra[n], rb[n], 1e-4, 1e-5) for n in crit_out)
        return bad, {"function": tr.label, "run_a": a.inputs_json(), "run_b": b.inputs_json(), "critics_a": {n: ra[n].tolist() for n in crit_out}, "critics_b": {n: rb[n].tolist() for n in crit_out}}
    ck.prove(f"sac.actor_does_not_move_critics.noninterference@B={B}", [], conj([eq_arr(out[n], out3[n]) for n in crit_out]), replay=rp_2safe, nonlinear=True)
    ck.fact(f"sac.no_grad_to_targets.not_returned@B={B}", int(out["n_returned"][()]) == 8 and not any("q1t" in n or "q2t" in n for n in tr.out_names),
            "sac_train returns (policy, opt_state, qf1, qf2, q_opt_state, log_alpha, alpha_opt_state, log): the target critics are inputs only")

    if specialise:
        # clause by clause on one sample (B = 1): each isolates one ingredient of V'
        p = R.parts[0]
        r, g, lp, t1, t2 = p["r"], p["g"], p["lp"], p["t1"], p["t2"]
        q1 = R.q1[0]
        for dv, tv in itertools.product((False, True), repeat=2):
            boot = (not dv) or tv
            kind = "terminated" if not boot else ("truncated" if dv else "running")
            yv = r + (g * (zmin(t1, t2) - R.alpha * lp) if boot else 0)
            prove_descent(ck, f"mask.trunc_bootstraps_term_does_not@sac,done={int(dv)},timeout={int(tv)}({kind})", [p["d"] == dv, p["t"] == tv], G1, q1 - yv, rp_fixed(("q1",)), bnd)
            if controls:
                ck.witness(f"witness.sac.flags_reachable@done={int(dv)},timeout={int(tv)}", [p["d"] == dv, p["t"] == tv])
        prove_descent(ck, "sac.min_of_targets@B=1", [p["nt"], lp == 0], G1, q1 - (r + g * zmin(t1, t2)), rp_fixed(("q1",)), bnd)
        prove_descent(ck, "sac.entropy_term@B=1", [p["nt"], t1 == t2], G1, q1 - (r + g * (t1 - R.alpha * lp)), rp_fixed(("q1",)), bnd)
    if controls:
        for w in ("mask", "max", "first_only", "plus_entropy", "online_eval"):
            W = SacUFRef(ck, it, S, Bt, wrong=w)
            ck.control(f"control.sac.{w}@B={B}", [], L == z3.RealVal(c) * W.ref / Bt, nonlinear=True)
            ck.control(f"control.sac.fixed_point_{w}@B={B}", [], sign_agree(G1, W.R1), nonlinear=True)
    return c


def sec_sac_tab(ck, B, S_, controls=False):
    """parametrised actor and critics over S_ states: per-cell fixed points (collisions included) from the critics returned by
    sac_train, and non-interference with the REAL adam critic optimiser"""
    pol = TabSACPolicy(S_)
    batch = Batch(B, pol.observation_space, pol.action_space, None)
    critics = [TabCritic(S_) for _ in range(4)]
    tr = trace(sac_fn, *sac_args(SACH(B, jnp.array(0.99)), pol, critics, batch), argnames=NAMES, label=f"SAC.sac_train[B={B},tabular actor/critics over {S_} states,buffer.sample cut,q_optimizer=plain gradient step]")
    ck.encoded(tr)
    gen = int_gen({"batch_observations": S_, "batch_next_observations": S_, "itc": 4})
    concrete.validate(ck, tr, n=1, seed=ck.seed + 31, gen=gen, use_world=False)
    it = Interp()
    S = tr.symbols(it, given={"batch_observations": bool_int_arr("s", (B,), S_), "batch_next_observations": bool_int_arr("n", (B,), S_)})
    out = tr.run(it, S)
    s, s2, a = list(S["batch_observations"]), list(S["batch_next_observations"]), list(S["batch_actions"])
    g, alpha = S["algo_gamma"][()], it.o.unary("exp", S["la"][()])

    def Q(net, st, act):
        return pick(S[f"{net}_w0"], st) + pick(S[f"{net}_w1"], st) * act
    y, q1, q2 = [], [], []
    for i in range(B):
        an, lpn = pick(S["pol_act"], s2[i]), pick(S["pol_lp"], s2[i])
        v = zmin(Q("q1t", s2[i], an), Q("q2t", s2[i], an)) - alpha * lpn
        y.append(S["batch_rewards"][i] + z3.If(not_terminal(S["batch_dones"][i], S["batch_timeouts"][i]), g * v, 0))
        q1.append(Q("q1", s[i], a[i]))
        q2.append(Q("q2", s[i], a[i]))
    cells = []
    for net, q in (("q1", q1), ("q2", q2)):
        for c in range(S_):
            G0 = S[f"{net}_w0"][c] - out[f"{net}_w0"][c]
            G1 = S[f"{net}_w1"][c] - out[f"{net}_w1"][c]
            R0 = sum(z3.If(s[i] == c, q[i] - y[i], 0) for i in range(B))
            R1 = sum(z3.If(s[i] == c, (q[i] - y[i]) * a[i], 0) for i in range(B))
            cells.append((net, c, G0, R0, G1, R1))
    reals = [x for n in tr.in_names if n.startswith(("pol_", "q1", "q2", "batch_rewards", "batch_actions")) and not n.startswith("qopt") for x in flat(S[n]) if isinstance(x, z3.ExprRef) and z3.is_real(x)]
    bnd = within(reals, -2, 2) + [g >= Fraction(1, 4), g <= 1, alpha >= Fraction(1, 10), alpha <= 2]

    def rp(res):
        rpl = Replay(tr, S, res)
        av = rpl.val(alpha)
        if av == av and av > 0:
            rpl.set("la", math.log(av))
        real = rpl.run()
        V = {n: rpl.get(n) for n in tr.in_names if not n.startswith(("aopt", "alopt", "qopt", "key"))}
        si, s2i = V["batch_observations"].astype(int), V["batch_next_observations"].astype(int)
        al, gm = math.exp(float(V["la"])), float(V["algo_gamma"])

        def Qn(net, st, act):
            return V[f"{net}_w0"][st] + V[f"{net}_w1"][st] * act
        ys, bad = [], []
        for i in range(B):
            an, lpn = V["pol_act"][s2i[i]], V["pol_lp"][s2i[i]]
            nt = (not bool(V["batch_dones"][i])) or bool(V["batch_timeouts"][i])
            ys.append(V["batch_rewards"][i] + gm * nt * (min(Qn("q1t", s2i[i], an), Qn("q2t", s2i[i], an)) - al * lpn))
        for net in ("q1", "q2"):
            for c in range(S_):
                hits = [i for i in range(B) if si[i] == c]
                res0 = sum(Qn(net, si[i], V["batch_actions"][i]) - ys[i] for i in hits)
                res1 = sum((Qn(net, si[i], V["batch_actions"][i]) - ys[i]) * V["batch_actions"][i] for i in hits)
                g0 = float(V[f"{net}_w0"][c] - real[f"{net}_w0"][c])
                g1 = float(V[f"{net}_w1"][c] - real[f"{net}_w1"][c])
                if agree_bad(g0, res0) or agree_bad(g1, res1):
                    bad.append({"critic": net, "state": c, "grad_w0": g0, "sum_residual": float(res0), "grad_w1": g1, "sum_residual_times_action": float(res1)})
        return bool(bad), {"function": tr.label, "inputs": rpl.inputs_json(), "targets": [float(v) for v in ys], "cells": bad,
                           "what": "per state cell the critic gradient must be a positive multiple of the summed TD residuals against y = r + gamma*(1-terminated)*(min target critics - alpha*log pi)"}
    for net, c, G0, R0, G1, R1 in cells:
        prove_descent(ck, f"sac.target_fixed_point@tabular,B={B},S={S_},{net},state={c},w0", [], G0, R0, rp, bnd)
        prove_descent(ck, f"sac.target_fixed_point@tabular,B={B},S={S_},{net},state={c},w1", [], G1, R1, rp, bnd)

    # ---- REAL optimisers (adam): the returned critics and critic optimiser state do not depend on actor-only inputs
    algo_r = SACH(B, jnp.array(0.99), transparent=False)
    trr = trace(sac_fn, *sac_args(algo_r, pol, critics, batch), argnames=NAMES, label=f"SAC.sac_train[B={B},tabular,real adam optimisers]")
    ck.encoded(trr)
    it2 = Interp()
    giv = {"batch_observations": bool_int_arr("s", (B,), S_), "batch_next_observations": bool_int_arr("n", (B,), S_)}
    Sa = trr.symbols(it2, given=giv)
    actor_only = [n for n in trr.in_names if n.startswith(("aopt", "alopt")) or n in ("tent", "itc")]
    Sb = dict(Sa)
    Sb.update({n: it2.sym("var_" + n, av.shape, av.dtype) for n, av in zip(trr.in_names, trr.in_avals) if n in actor_only})
    oa, ob = trr.run(it2, Sa), trr.run(it2, Sb)
    crit_out = [n for n in trr.out_names if n.startswith(("q1_", "q2_", "qopt"))]

    def rp2(res):
        ra_, rb_ = Replay(trr, Sa, res), Replay(trr, Sb, res)
        for r_ in (ra_, rb_):
            for n in r_.vals:
                if "count" in n:
                    r_.set(n, np.clip(np.asarray(r_.vals[n]), 0, 5))
        ra, rb = ra_.run(), rb_.run()
        bad = any(differs(ra[n], rb[n], 1e-4, 1e-5) for n in crit_out)
        return bad, {"function": trr.label, "run_a": ra_.inputs_json(), "run_b": rb_.inputs_json(), "critics_a": {n: ra[n].tolist() for n in crit_out}, "critics_b": {n: rb[n].tolist() for n in crit_out}}
    ck.prove(f"sac.actor_does_not_move_critics.noninterference@tabular,B={B},adam", [], conj([eq_arr(oa[n], ob[n]) for n in crit_out]), replay=rp2, nonlinear=True)
    if controls:
        # ... while the returned actor does mention them (the non-interference query is not vacuous)
        def pol_fn(*args):
            out_ = args[0].sac_train(*args[1:-1], key=args[-1])
            return {"act": out_[0].act, "lp": out_[0].lp}
        trp = trace(pol_fn, *sac_args(algo_r, pol, critics, batch), argnames=NAMES)
        pb = trp.run(it2, Sb)
        names = set()
        for t in flat(pb["act"], pb["lp"]):
            names |= free_names(t)
        ck.witness(f"control.sac.actor_inputs_reach_the_actor@B={B}", [z3.BoolVal(any(n.startswith("var_") for n in names))], kind="control")


def free_names(t):
    seen, out, stack = set(), set(), [t]
    while stack:
        x = stack.pop()
        if not isinstance(x, z3.ExprRef) or x.get_id() in seen:
            continue
        seen.add(x.get_id())
        if z3.is_const(x) and x.decl().kind() == z3.Z3_OP_UNINTERPRETED:
            out.add(x.decl().name())
        stack.extend(x.children())
    return out


# =============================================================================== main
def sec_iteration_wiring(ck):
    """the training step of the real iteration() is fed the lagged TARGET networks held in the algorithm state (not the online ones):
    traced over real tiny MLPs with symbolic parameters; decided as data-flow facts on the symbolic outputs plus a replay on the real API"""
    import equinox as eqx
    from jax import random as jr
    from jaxsmt import stubs
    from jaxsmt.harness import UFEnv
    from jaxsmt.uf import GenericWorld, world
    from lerax.algorithm import DQN, SAC
    from lerax.policy import MLPQPolicy, MLPSACPolicy
    from lerax.space import Box, Discrete
    from lerax.wrapper import TimeLimit
    from props.C10 import iteration_trace, leaves_equal
    from props.common import empty_callback
    cb = empty_callback()

    def symbols_in(terms):
        seen, names = set(), set()
        stack = [t for t in terms if isinstance(t, z3.ExprRef)]
        while stack:
            t = stack.pop()
            if t.get_id() in seen:
                continue
            seen.add(t.get_id())
            if z3.is_const(t) and t.decl().kind() == z3.Z3_OP_UNINTERPRETED:
                names.add(t.decl().name())
            stack.extend(t.children())
        return names

    def real_dependence(algo, env, pol, attr_targets, attr_online):
        """run the real iteration twice from states that differ ONLY in the target networks: the updated online networks must differ"""
        outs = []
        for scale in (1.0, 3.0):
            jax.clear_caches()
            with world(GenericWorld(seed=11)):
                st = algo.reset(env, pol, key=jr.key(1), callback=cb)
                for a in attr_targets:
                    st = eqx.tree_at(lambda s_, a=a: getattr(s_, a), st, jax.tree_util.tree_map(lambda x: x * scale + (scale - 1.0) if eqx.is_inexact_array(x) else x, getattr(st, a)))
                out = jax.block_until_ready(algo.iteration(st, key=jr.key(2), callback=cb))
            outs.append([getattr(out, a) for a in attr_online])
        jax.clear_caches()
        same = all(leaves_equal(x, y) for x, y in zip(*outs))
        return same, {"note": "two real iterations from states that differ only in the target networks produce identical online updates: the TD target does not use the target networks",
                      "target_attributes": list(attr_targets)}
    # DQN
    envd = TimeLimit(UFEnv(Discrete(2)), 3)
    algo = DQN(buffer_size=4, learning_starts=1, num_envs=1, num_steps=1, batch_size=2, target_update_interval=5)
    pol = MLPQPolicy(envd, width_size=2, depth=1, key=jr.key(0))
    tr, it, S, out = iteration_trace("DQN", algo, envd, pol, cb)
    ck.encoded(tr)
    tgt = {n for n in S if n.startswith("st_target_policy_") and "space" not in n}
    tgt_syms = set()
    for n in tgt:
        tgt_syms |= symbols_in(list(S[n].reshape(-1)))
    online_out = [x for n in tr.out_names if n.startswith("policy_") and "space" not in n for x in out[n].reshape(-1)]
    used = symbols_in(online_out) & tgt_syms
    ok = bool(used)
    rep = None
    if not ok:
        rep = real_dependence(algo, envd, pol, ["target_policy"], ["policy"])
    ck.fact("dqn.iteration_trains_against_target_network", ok or not rep[0], f"{len(used)} of {len(tgt_syms)} target-network parameter symbols occur in the updated online parameters" + ("" if ok else f"; replay: {rep[1]}"))
    # SAC
    envb = TimeLimit(UFEnv(Box(-jnp.ones(1), jnp.ones(1))), 3)
    algo = SAC(buffer_size=4, learning_starts=1, num_envs=1, num_steps=1, batch_size=2, q_width_size=2, q_depth=1)
    pol = MLPSACPolicy(envb, feature_size=2, width_size=2, depth=1, key=jr.key(0))
    tr, it, S, out = iteration_trace("SAC", algo, envb, pol, cb)
    for q in ("qf1", "qf2"):
        tsy = set()
        for n in S:
            if n.startswith(f"st_{q}_target_"):
                tsy |= symbols_in(list(S[n].reshape(-1)))
        crit = [x for n in tr.out_names if (n.startswith("qf1_mlp") or n.startswith("qf2_mlp")) for x in out[n].reshape(-1)]
        used = symbols_in(crit) & tsy
        ok = bool(used)
        rep = None
        if not ok:
            rep = real_dependence(algo, envb, pol, [q + "_target"], ["qf1", "qf2"])
        ck.fact(f"sac.iteration_trains_against_target_critic.{q}", ok or not rep[0], f"{len(used)} of {len(tsy)} parameter symbols of {q}_target occur in the updated critics" + ("" if ok else f"; replay: {rep[1]}"))


def main():
    ck = Check("C07", "TD targets bootstrap through truncation, never through termination")
    ck.mode = "REAL"
    th = ck.thorough
    ck.bound(dqn_uninterpreted=dict(batch=[1, 2, 3] if th else [1, 2], actions=3), dqn_tabular=dict(batch=[2, 3] if th else [2], states=[2, 3] if th else [2], actions=[2, 3] if th else [2]),
             sac_uninterpreted=dict(batch=[1, 2, 3] if th else [1, 2], obs_dim=[1, 2] if th else [1], action_dim=[1, 2] if th else [1]), sac_tabular=dict(batch=2, states=2),
             note="rewards, done/timeout flags (all 4 combinations), gamma, log_alpha, network outputs/parameters, stored actions and state indices are symbolic")
    ck.stub("buffer.sample is cut: the buffer object handed to dqn_train / sac_train is the symbolic batch (its sample() returns itself)",
            "value obligations: Q-network = uninterpreted Q(theta, obs) -> R^A; SAC actor = uninterpreted PI(theta, obs, key) -> (action, log_prob); critics = b + Q(theta, obs, action) with "
            "an uninterpreted Q that differentiation treats as a constant and a differentiable output bias b (dL/db = sum_i dL/dq_i)",
            "gradient obligations: tabular Q (table[s,a]); tabular SAC actor (act[s], lp[s]) and critics affine in the action (w0[s] + w1[s]*a); JAX differentiates the real losses",
            "SAC harness subclass: q_optimizer = plain gradient step (new = old - grad) so that the critic gradient computed inside the real sac_train is visible in its outputs; "
            "the non-interference obligation also runs with the real adam optimisers",
            "DQN optimiser = uninterpreted OPT(grads, state, params) for the train-step obligation",
            "PRNG keys are terms of a free algebra (split/fold_in); exp is uninterpreted with exp > 0")
    ck.out("float32 rounding", "Polyak / periodic target-network updates (C10)", "the actor and alpha losses themselves (only their non-interference with the critics is claimed)",
           "the constant in front of the squared TD error (checked up to one positive constant independent of inputs and batch size)",
           "DESIGN's 'actor update invariant under the target critics' is not claimed: lerax (like CleanRL) updates the critics first and evaluates the actor loss on the updated critics, "
           "which legitimately depend on the targets; the statement does not ask for it")
    A = 3
    cd = {}
    for B in ([1, 2, 3] if th else [1, 2]):
        with ck.section(f"dqn.value@B={B}"):
            # the constant identified at the smallest batch is required at the larger ones: mean, not sum
            cd["c"] = sec_dqn_value(ck, B, A, controls=(B == 2), c=cd.get("c"))
            if B == 2 or (ck.thorough and B <= 2):
                with ck.section(f"dqn.value.stateful@B={B},A={A}"):
                    sec_dqn_value(ck, B, A, c=cd.get("c"), stateful=True)
    for (B, S_, A_) in ([(2, 2, 2), (3, 2, 2), (2, 2, 3), (2, 3, 2)] if th else [(2, 2, 2)]):
        with ck.section(f"dqn.grad@B={B},S={S_},A={A_}"):
            sec_dqn_grad(ck, B, S_, A_, controls=(B == 2 and A_ == 2))
    with ck.section("dqn.grad.aliased"):
        sec_dqn_grad(ck, 2, 2, 2, aliased=True)
    with ck.section("dqn.train"):
        sec_dqn_train(ck, 2, 2, 2)
    cs = {}
    for B in ([1, 2, 3] if th else [1, 2]):
        with ck.section(f"sac.value@B={B}"):
            cs["c"] = sec_sac_value(ck, B, controls=(B == 1), specialise=(B == 1), c=cs.get("c"))
    if th:
        with ck.section("sac.value@B=2,obs_dim=2,action_dim=2"):
            sec_sac_value(ck, 2, c=cs.get("c"), m=2, adim=2)
    with ck.section("iteration_wiring"):
        sec_iteration_wiring(ck)
    for (B, S_) in [(2, 2)]:   # larger tabular SAC instances do not finish (w1 cells: nlsat timeout) - bound stated
        with ck.section(f"sac.tabular@B={B},S={S_}"):
            sec_sac_tab(ck, B, S_, controls=(B == 2 and S_ == 2))
    ck.finish("DQN.dqn_loss / dqn_loss_grad / dqn_train and SAC.sac_train (buffer.sample cut) are traced on a symbolic batch and interpreted over z3 reals. With uninterpreted "
              "networks the reported losses are proved proportional (two-instance queries, also across batch sizes) to the squared error against "
              "y = r + gamma*(1-terminated)*V' with V' = Q_target(s')[argmax Q_online(s')] (DQN) and min(Q1',Q2')(s',a') - alpha*log pi(a'|s') at a freshly drawn a' (SAC). "
              "With tabular networks JAX's own gradient of the real losses is proved to vanish exactly at q = y and to point towards y otherwise (per sample, per cell with "
              "collisions, for each of the four done/timeout combinations), which pins the target in scale-free form and shows that targets are constants for optimisation; "
              "the critics returned by sac_train move along the TD semi-gradient only and do not depend on anything only the actor/alpha updates read.")


if __name__ == "__main__":
    main()
